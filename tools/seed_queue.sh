#!/bin/bash
# tools/seed_queue.sh <slot> : verifies every seeded/* dir that has no verify.json yet, one after the other
SLOT="$1"
cd /verif
while true; do
  next=""
  for d in seeded/*/; do d=${d%/}; [ -f "$d/patch.diff" ] && [ ! -f "$d/verify.json" ] && [ ! -f "$d/.claimed" ] && { next="$d"; break; }; done
  [ -z "$next" ] && break
  touch "$next/.claimed"
  tools/seed_verify.sh "$next" "$SLOT"
  rm -f "$next/.claimed"
done
