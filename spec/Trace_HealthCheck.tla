------------------------- MODULE Trace_HealthCheck -------------------------
(***************************************************************************)
(* I->S trace validation for HealthCheck.tla (property C12, health part).  *)
(*                                                                         *)
(* The trace (ndjson, env TRACE) is what harness/drive_health recorded on  *)
(* real sozu workers.  Its backbone are the worker thread's own hook       *)
(* events (cfg(sozu_verif) hc_* and worker_cmd), which the single worker   *)
(* thread emits in execution order; one trace event per spec action:       *)
(*   cmd    a configuration command the worker processed   -> Cfg_*        *)
(*   round  initiate_checks for one cluster, with the probes it started    *)
(*          and the results it recorded at once            -> HC_Poll_StartProbe *)
(*   done   a probe left the in-flight table: success / failure / timeout, *)
(*          the backend the result was credited to and that backend's      *)
(*          health record afterwards, joined (by the probe connection's    *)
(*          port) with what the mock server did            -> HC_Result    *)
(*   tick   the checker's own clock crossed a second       -> Advance      *)
(* Observations of other threads are tied in causally, never by wall clock:*)
(*   req    a client request: `lo` = state index read before it was sent;  *)
(*          it sits where the position read after its answer falls         *)
(*   mode   a mock server's mode change, at the position read before it    *)
(* A `reset` event starts a new run (fresh worker).                        *)
(*                                                                         *)
(* Accepted iff every event is explained: the probes started are exactly   *)
(* the ones the spec starts, a result is consistent with what the server   *)
(* did and with the checker's own clock, it is credited to the backend the *)
(* spec credits and leaves that backend's health record as the spec says,  *)
(* and every client request was served by a server that, in some state     *)
(* between `lo` and now, had a registered backend that was healthy (or     *)
(* fail-open applied: no healthy backend outside a possible back-off).     *)
(***************************************************************************)
EXTENDS MC_HealthCheck, Json, IOUtils

TraceSlots == {[id |-> "b1", addr |-> 1], [id |-> "b2", addr |-> 2], [id |-> "b3", addr |-> 1], [id |-> "b4", addr |-> 4]}
TraceConfigs == [interval : 1..2, timeout : 1..3, hth : 1..3, uth : 1..3, expect : {0, 200, 204}]

Rec == ndJsonDeserialize(IOEnv.TRACE)

VARIABLES l,        \* number of consumed events
          base,     \* l at the last reset: l - base = state index within the run
          tokOf,    \* pid -> mio token of the probe (from the hook)
          okAt,     \* [cluster][address] last state index at which a request could be served from there
          mayBo,    \* addresses whose backends may be inside a connection back-off (their server refused)
          clk,      \* latest time stamp seen (ms, harness clock)
          idle,     \* [cluster][slot] stamp since which the backend has been waiting for its next probe
          pstart    \* pid -> stamp of the probe's start

ASSUME TLCSet(1, 0)
ASSUME TLCSet(2, 0)
ASSUME TLCSet(3, 0)

tvars == <<vars, l, base, tokOf, okAt, mayBo, clk, idle, pstart>>

Max2(a, b) == IF a > b THEN a ELSE b
SlotOf(id, a) == [id |-> id, addr |-> a]
AsCfg(k) == [interval |-> k.interval, timeout |-> k.timeout, hth |-> k.hth, uth |-> k.uth, expect |-> k.expect]
Stamp(c, st) == [idle EXCEPT ![c] = [s \in Slots |-> st]]

---------------------------------------------------------------------------
\* the (primed) health record the hook reported equals the spec's; r: [credited, cid, caddr, h, cs, cf, id, addr]
CreditOK(c, r) ==
  LET t == Target(c, r.id, r.addr) IN
  IF r.credited
  THEN LET s == SlotOf(r.cid, r.caddr)
       IN /\ t = {s}
          /\ s \in DOMAIN hs'[c]
          /\ hs'[c][s] = [healthy |-> r.h, cs |-> r.cs, cf |-> r.cf]
  ELSE t = {}

T_Reset(e) ==
  /\ e.ev = "reset"
  /\ cfg' = [c \in Clusters |-> NoCfg]
  /\ list' = [c \in Clusters |-> <<>>]
  /\ hs' = [c \in Clusters |-> [s \in {} |-> Fresh]]
  /\ inflight' = [p \in {} |-> 0]
  /\ since' = [c \in Clusters |-> Never]
  /\ UNCHANGED <<srv, envSteps, cfgSteps>>
  /\ act' = Label("Init", "", {})
  /\ base' = l + 1
  /\ tokOf' = [p \in {} |-> 0]
  /\ mayBo' = IF e.unroutable > 0 THEN {e.unroutable} ELSE {}
  /\ clk' = 0
  /\ idle' = [c \in Clusters |-> [s \in Slots |-> 0]]
  /\ pstart' = [p \in {} |-> 0]

T_Cmd(e) ==
  /\ e.ev = "cmd" /\ e.c \in Clusters
  /\ CASE e.op = "SetHealthCheck"    -> AsCfg(e.k) \in Configs /\ Cfg_SetHealthCheck(e.c, AsCfg(e.k))
       [] e.op = "RemoveHealthCheck" -> /\ Cfg_RemoveHealthCheck(e.c)
                                        /\ e.dropped = Cardinality({p \in Pids : inflight[p].c = e.c})
                                        /\ (e.hadlast = 1) = (since[e.c] # Never)
       [] e.op = "RemoveCluster"     -> /\ Cfg_RemoveCluster(e.c)
                                        /\ e.dropped = Cardinality({p \in Pids : inflight[p].c = e.c})
       [] e.op = "AddClusterNoHc"    -> Cfg_AddClusterNoHc(e.c)
       [] e.op = "AddBackend"        -> SlotOf(e.id, e.addr) \in Slots /\ Cfg_AddBackend(e.c, SlotOf(e.id, e.addr))
       [] e.op = "RemoveBackend"     -> Cfg_RemoveBackend(e.c, e.addr)
       [] OTHER                      -> FALSE
  /\ tokOf' = [p \in DOMAIN inflight' |-> tokOf[p]]
  /\ pstart' = [p \in DOMAIN inflight' |-> pstart[p]]
  /\ idle' = Stamp(e.c, e.st)
  /\ UNCHANGED <<base, mayBo>>

T_Round(e) ==
  /\ e.ev = "round" /\ e.c \in Clusters
  /\ cfg[e.c] = AsCfg(e.k)                                    \* the probe parameters are the current configuration
  /\ (e.since = -1) = (since[e.c] = Never)
  /\ e.since # -1 => e.since >= cfg[e.c].interval * 1000        \* the checker's own clock: never before the interval
  /\ HC_Poll_StartProbe(e.c)
  /\ LET NewP == DOMAIN inflight' \ Pids IN
       /\ Len(e.probes) = Cardinality(NewP)
       /\ \A i \in 1..Len(e.probes) : \E p \in NewP : inflight'[p].id = e.probes[i].id /\ inflight'[p].addr = e.probes[i].addr
       /\ \A i, j \in 1..Len(e.probes) : i # j => e.probes[i].tok # e.probes[j].tok /\ ~\E q \in Pids : tokOf[q] = e.probes[i].tok
       /\ tokOf' = [p \in DOMAIN inflight' |->
                      IF p \in Pids THEN tokOf[p]
                      ELSE LET i == CHOOSE i \in 1..Len(e.probes) : inflight'[p].id = e.probes[i].id /\ inflight'[p].addr = e.probes[i].addr
                           IN e.probes[i].tok]
       /\ pstart' = [p \in DOMAIN inflight' |-> IF p \in Pids THEN pstart[p] ELSE e.st]
  /\ Len(e.imm) = Cardinality(act'.credits)
  /\ \A i \in 1..Len(e.imm) :
       /\ ~e.imm[i].ok
       /\ \E k \in act'.credits : k.id = e.imm[i].id /\ k.addr = e.imm[i].addr
       /\ CreditOK(e.c, e.imm[i])
  /\ idle' = Stamp(e.c, e.st)
  /\ UNCHANGED <<base, mayBo>>

Statuses == {"200", "204", "500"}
StatusNum(s) == CASE s = "200" -> 200 [] s = "204" -> 204 [] s = "500" -> 500 [] OTHER -> 0

\* is the reported outcome one the server's behaviour and the checker's clock allow?
Consistent(e, r) ==
  IF e.to
  THEN ~e.ok /\ e.el >= r.timeout * 1000 /\ r.age >= r.timeout      \* (el is truncated to whole milliseconds)
  ELSE /\ e.el <= r.timeout * 1000
       /\ IF e.ok THEN e.srv \in Statuses /\ Match(StatusNum(e.srv), r.expect)
                  ELSE \/ e.srv \in {"none", "close"}
                       \/ e.srv \in Statuses /\ ~Match(StatusNum(e.srv), r.expect)

T_Done(e) ==
  /\ e.ev = "done" /\ e.c \in Clusters
  /\ \E p \in Pids :
       /\ tokOf[p] = e.tok /\ inflight[p].c = e.c /\ inflight[p].id = e.id /\ inflight[p].addr = e.addr
       /\ Consistent(e, inflight[p])
       /\ ResultEffect(p, e.ok)
  /\ CreditOK(e.c, e)
  /\ tokOf' = [p \in DOMAIN inflight' |-> tokOf[p]]
  /\ pstart' = [p \in DOMAIN inflight' |-> pstart[p]]
  /\ idle' = [idle EXCEPT ![e.c] = [s \in Slots |-> IF s = SlotOf(e.id, e.addr) THEN e.st ELSE @[s]]]
  /\ UNCHANGED <<base, mayBo>>

T_Tick(e) == e.ev = "tick" /\ Advance /\ UNCHANGED <<base, tokOf, mayBo, idle, pstart>>

T_Mode(e) ==
  /\ e.ev = "mode"
  /\ mayBo' = IF e.m = "refuse" THEN mayBo \cup {e.addr} ELSE mayBo
  /\ UNCHANGED <<vars, base, tokOf, idle, pstart>>

\* a new backend connection went to the server at address e.served of cluster e.c
T_Req(e) ==
  /\ e.ev = "req" /\ e.c \in Clusters
  /\ e.served # 0 => e.served \in Addrs /\ okAt[e.c][e.served] >= e.lo
  /\ UNCHANGED <<vars, base, tokOf, mayBo, idle, pstart>>

T_End(e) == e.ev = "end" /\ UNCHANGED <<vars, base, tokOf, mayBo, idle, pstart>>

\* (in the successor state) a request for cluster c may be served from address a: a registered backend there that is
\* healthy, or no registered backend is both healthy and certainly outside a back-off (fail-open)
ServableP(c, a) ==
  \E s \in DOMAIN hs'[c] :
     /\ s.addr = a
     /\ \/ hs'[c][s].healthy
        \/ \A x \in DOMAIN hs'[c] : ~hs'[c][x].healthy \/ x.addr \in mayBo'

TraceNext ==
  /\ l < Len(Rec)
  /\ l' = l + 1
  /\ LET e == Rec[l + 1] IN
       /\ \/ T_Reset(e) \/ T_Cmd(e) \/ T_Round(e) \/ T_Done(e) \/ T_Tick(e) \/ T_Mode(e) \/ T_Req(e) \/ T_End(e)
       /\ IF e.ev = "reset" THEN TRUE ELSE clk' = Max2(clk, e.st)
  /\ okAt' = [c \in Clusters |-> [a \in Addrs |-> IF ServableP(c, a) THEN l' - base' ELSE IF base' = base THEN okAt[c][a] ELSE -1]]

TraceInit ==
  /\ Init /\ l = 0 /\ base = 0 /\ tokOf = [p \in {} |-> 0] /\ mayBo = {} /\ clk = 0
  /\ okAt = [c \in Clusters |-> [a \in Addrs |-> -1]]
  /\ idle = [c \in Clusters |-> [s \in Slots |-> 0]]
  /\ pstart = [p \in {} |-> 0]
TraceSpec == TraceInit /\ [][TraceNext]_tvars

---------------------------------------------------------------------------
(* Deadlines, on the harness clock, with generous slack (4 x the configured value + 3 s): they only fire when   *)
(* the checker stops doing its work (a mutant that never times a probe out, never starts a round).  The check   *)
(* treats them as inconclusive when the machine was overloaded during the run.                                  *)

P_C12h_T_ProbeEnds == \A p \in Pids : clk - pstart[p] <= (4 * inflight[p].timeout + 3) * 1000
P_C12h_T_Probed ==
  \A c \in Clusters : HasCfg(c) =>
     \A s \in Range(list[c]) : ~InFlightFor(c, s.id) => clk - idle[c][s] <= (4 * (cfg[c].interval + 1) + 3) * 1000

\* registers: 1 = longest prefix explained
Track == (l > TLCGet(1) => TLCSet(1, l)) /\ TRUE

TraceAccepted ==
  /\ IF TLCGet(1) = Len(Rec)
     THEN PrintT(<<"TRACE-ACCEPTED", TLCGet(1)>>)
     ELSE /\ PrintT(<<"TRACE-REJECTED", TLCGet(1), Len(Rec)>>)
          /\ PrintT(<<"FIRST-UNEXPLAINED", Rec[TLCGet(1) + 1]>>)
  /\ TRUE
=============================================================================
