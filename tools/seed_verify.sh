#!/bin/bash
# tools/seed_verify.sh <seed-dir> <mutant-slot> [--skip-suite]
# Confirms a seeded change kept under /verif/seeded/<name>/ (patch.diff, demo/, demo.cmd, meta.json with "property"):
#   1. demo passes on /repo HEAD, 2. patch applies and builds, 3. demo fails with the patch,
#   4. sozu's own suite still passes with the patch (stable baseline tests; fuzz tests are environmental here),
#   5. ./check <property> --tier quick run against HEAD+patch (tools/mutant_run.sh) -> detected (exit 1) or missed (exit 0).
# Results are written to <seed-dir>/verify.json and <seed-dir>/verify.log. Scratch: /tmp/sv-* (removed at the end,
# except the shared build cache /tmp/sv-target).
set -u
SD="$(cd "$1" && pwd)"; SLOT="$2"; SKIP="${3:-}"
NAME="$(basename "$SD")"
PROP="$(python3 -c "import json;print(json.load(open('$SD/meta.json'))['property'])")"
WT=/tmp/sv-repo-$SLOT
LOG="$SD/verify.log"; [ "$SKIP" = "--suite-only" ] || : > "$LOG"
export CARGO_TARGET_DIR=/tmp/sv-target-$SLOT
export CARGO_INCREMENTAL=0 CARGO_PROFILE_DEV_DEBUG=0 CARGO_PROFILE_TEST_DEBUG=0
say() { echo "[seed_verify $NAME] $*" | tee -a "$LOG"; }
git -C /repo worktree remove --force "$WT" 2>/dev/null; rm -rf "$WT"; git -C /repo worktree prune
git -C /repo worktree add -q --detach "$WT" HEAD || exit 2
HEAD_SHA=$(git -C /repo rev-parse --short HEAD)
cp -r "$SD/demo/." "$WT/" 2>/dev/null
DEMO="$(cat "$SD/demo.cmd")"
cd "$WT"
say "demo on unchanged tree ($HEAD_SHA): $DEMO"
( eval "$DEMO" ) >> "$LOG" 2>&1; D0=$?
# a demonstration that depends on timing may fail on a loaded machine: it counts as passing on the unchanged tree
# if one of three runs passes (the with-patch run below must still fail)
for _try in 2 3; do [ $D0 = 0 ] && break; say "demo failed on the unchanged tree (exit $D0), retry $_try"; ( eval "$DEMO" ) >> "$LOG" 2>&1; D0=$?; done
say "demo exit on unchanged tree: $D0"
if ! git apply "$SD/patch.diff" 2>>"$LOG"; then say "PATCH DOES NOT APPLY"; APPLY=0; else APPLY=1; fi
D1=-1; SUITE="skipped"; REGR="[]"
if [ $APPLY = 1 ]; then
  ( eval "$DEMO" ) >> "$LOG" 2>&1; D1=$?
  say "demo exit with patch: $D1"
  if [ "$SKIP" != "--skip-suite" ]; then
    say "running sozu's suite with the patch"
    cargo nextest run --workspace --no-fail-fast --tool-config-file pb:/w/lib/nextest.toml --profile pb --test-threads 8 --offline > /tmp/sv-suite-$SLOT.log 2>&1
    REGR=$(python3 - <<'PY'
import json,os
import xml.etree.ElementTree as ET
base=json.load(open('/root/.vp/BASELINE.json')); stable=set(base['stable_pass'])
j=os.path.join(os.getcwd(),'target','nextest','pb','junit.xml')
if not os.path.exists(j): j=os.path.join(os.environ['CARGO_TARGET_DIR'],'nextest','pb','junit.xml')
res={}
try:
    for ts in ET.parse(j).getroot().iter('testsuite'):
        for tc in ts.iter('testcase'):
            res[ts.get('name')+'::'+tc.get('name')]= tc.find('failure') is None and tc.find('error') is None
except Exception as e:
    print(json.dumps(["NO-JUNIT "+str(e)])); raise SystemExit
bad=[s for s in stable if 'fuzz_tests' not in s and (s not in res or not res[s])]
print(json.dumps(sorted(bad)))
PY
)
    # re-run regressions alone (load-induced flakiness)
    if [ "$REGR" != "[]" ]; then
      say "first pass regressions: $REGR ; re-running them alone"
      REGR=$(python3 - "$REGR" <<'PY'
import json,subprocess,sys
bad=json.loads(sys.argv[1]); still=[]
for t in bad:
    if t.startswith("NO-JUNIT"): still.append(t); continue
    crate,_,name=t.partition("::")
    ok=False
    for _ in range(2):
        p=subprocess.run(["cargo","nextest","run","--offline","-p",crate,"-E","test(=%s)"%name,"--no-fail-fast"],capture_output=True,text=True)
        if p.returncode==0: ok=True;break
    if not ok: still.append(t)
print(json.dumps(still))
PY
)
    fi
    SUITE="ran"
    say "stable-baseline regressions with patch: $REGR"
  fi
fi
cd /verif
git -C /repo worktree remove --force "$WT" 2>/dev/null; rm -rf "$WT"; git -C /repo worktree prune
CHK=-1
if [ "$SKIP" = "--suite-only" ] && [ -f "$SD/verify.json" ]; then
  CHK=$(python3 -c "import json;print(json.load(open('$SD/verify.json')).get('check_quick_exit',-1))")
  say "suite-only pass: keeping the recorded check exit $CHK"
elif [ $APPLY = 1 ]; then
  say "running ./check $PROP --tier quick against HEAD+patch"
  /verif/tools/mutant_run.sh "$SLOT" "$SD/patch.diff" "$PROP" --tier quick > /tmp/sv-check-$SLOT.log 2>&1; CHK=$?
  grep -E "^(VIOLATION|KNOWN-FINDING|TOOL-ERROR|C[0-9]+:|Traceback|[A-Za-z]*Error:)" /tmp/sv-check-$SLOT.log | cut -c1-400 | head -12 >> "$LOG"
  # exit 1 only counts with a VIOLATION line (anything else is a broken run of the machinery)
  if [ $CHK = 1 ] && ! grep -q "^VIOLATION property=$PROP " /tmp/sv-check-$SLOT.log; then say "exit 1 WITHOUT a VIOLATION line: treated as tool error"; CHK=2; fi
  say "check exit: $CHK"
fi
# neighbouring checks named in meta.json "also_check": a change may break a clause another property owns
ALSO=$(python3 -c "import json;print(' '.join(json.load(open('$SD/meta.json')).get('also_check',[])))")
ALSO_HIT=""
if [ $APPLY = 1 ] && [ "$SKIP" != "--suite-only" ] && [ "$CHK" != 1 ]; then
  for Q in $ALSO; do
    say "running ./check $Q --tier quick against HEAD+patch (also_check)"
    /verif/tools/mutant_run.sh "$SLOT" "$SD/patch.diff" "$Q" --tier quick > /tmp/sv-check-$SLOT-$Q.log 2>&1; QC=$?
    grep -E "^(VIOLATION|TOOL-ERROR|C[0-9]+:)" /tmp/sv-check-$SLOT-$Q.log | cut -c1-400 | head -6 >> "$LOG"
    say "check $Q exit: $QC"
    if [ $QC = 1 ] && grep -q "^VIOLATION property=$Q " /tmp/sv-check-$SLOT-$Q.log; then ALSO_HIT="$ALSO_HIT $Q"; fi
  done
fi
export ALSO_HIT
python3 - "$SD" "$HEAD_SHA" "$D0" "$APPLY" "$D1" "$SUITE" "$REGR" "$CHK" <<'PY'
import json,sys
sd,head,d0,app,d1,suite,regr,chk=sys.argv[1:]
v={"repo_head":head,"demo_exit_unchanged":int(d0),"patch_applies":app=="1","demo_exit_with_patch":int(d1),
   "suite":suite,"stable_baseline_regressions":json.loads(regr),"check_quick_exit":int(chk),
   "valid_seed": int(d0)==0 and app=="1" and int(d1)!=0 and (suite=="skipped" or json.loads(regr)==[]),
   "detected": int(chk)==1}
import os
hit=os.environ.get("ALSO_HIT","").split()
prev={}
try: prev=json.load(open(sd+"/verify.json"))
except Exception: pass
v["detected_by_other_checks"]= hit if hit else prev.get("detected_by_other_checks",[])
if app!="1" and prev.get("patch_applies"):
    # /repo moved on (a later fix rewrote the lines the seed edits): keep the verification made when it applied
    prev["superseded_at"]=head
    prev["note"]="the patch applied and was verified at %s; it no longer applies at %s because /repo changed the same lines" % (prev.get("repo_head"), head)
    v=prev
json.dump(v,open(sd+"/verify.json","w"),indent=1)
print(json.dumps(v))
PY
