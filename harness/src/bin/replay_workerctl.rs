//! S->I replayer for spec/WorkerCtl.tla (property C08).
//!
//! stdin: ndjson, one line per spec transition printed by the TLC generator:
//!   {"hist":[{"req":{"k":..,"a":..},"st":"ok|failure","accepted":bool,"base":n}...],
//!    "state":{"cfg":{..},"base":n,"slab":n,"rcl":[..],"rbe":[..],"probes":{l:{host:[admissible..]}},
//!             "shut":id,"stopped":bool,"handed":bool,"allOk":bool}}
//! For every line a REAL sozu worker (`sozu_lib::server::Server` on its own thread, real command
//! channel) receives the requests of `hist` back-to-back. The replayer then
//!   * counts the responses per request id: exactly one terminal status, equal to the spec's,
//!   * compares, per request, the `worker_cmd` hook event: responses pushed for the id,
//!     base_sessions_count == the spec's base, slab length == base (no client session yet),
//!   * compares the verdict of the real ConfigState::dispatch (main-process side) with the spec's,
//!   * compares the worker's answers to QueryClustersHashes / QueryClusterById with the real
//!     main-process ConfigState for the same sequence, and that state's projection with the spec's cfg,
//!   * probes every listener address (connect, one HTTP request per host, one TCP exchange) and
//!     checks the outcome against the spec's admissible set,
//!   * ends with SoftStop: at most one Processing, exactly one Ok, the worker thread exits.
//!
//! Fault families (C07, `--faults`): `hist` also holds environment steps
//!   {"req":{"k":"EnvHold"|"EnvRelease","a":"<address letter>"},"st":"env",..}
//! At such a step the replayer waits until everything sent so far has been answered and then
//! binds (drops) a plain std socket - no SO_REUSEPORT - on the listener address, the way a foreign
//! process would; `state.held` lists the addresses still held at the end (not probed: the harness
//! itself is bound there); udp listeners are probed too (is a socket bound?).
//!
//! stdout: ndjson {"kind":"violation",...} lines and one {"kind":"summary",...} line.

use std::collections::BTreeMap;
use std::io::{BufRead, BufReader};
use std::panic::{AssertUnwindSafe, catch_unwind};
use std::sync::atomic::{AtomicBool, AtomicU64, AtomicUsize, Ordering};
use std::sync::{Arc, Mutex};
use std::time::{Duration, Instant};

use serde_json::{Value, json};
use sozu_command_lib::proto::command::{
    QueryClustersHashes, Request, ResponseStatus, SoftStop, WorkerResponse, request::RequestType,
    response_content::ContentType,
};
use vh::wctl::{self, Addrs, MockBackends};
use vh::worker::Worker;

struct Opts {
    threads: usize,
    seed: u64,
    sample: usize,
    wait_ms: u64,
    verbose: bool,
    index_base: u64,
    faults: bool,
}

fn parse_opts() -> Opts {
    let mut o = Opts { threads: 16, seed: 1, sample: 0, wait_ms: 4000, verbose: false, index_base: 0, faults: false };
    let a: Vec<String> = std::env::args().collect();
    let mut i = 1;
    while i < a.len() {
        match a[i].as_str() {
            "--threads" => { o.threads = a[i + 1].parse().unwrap(); i += 1 }
            "--seed" => { o.seed = a[i + 1].parse().unwrap(); i += 1 }
            "--sample" => { o.sample = a[i + 1].parse().unwrap(); i += 1 }
            "--wait-ms" => { o.wait_ms = a[i + 1].parse().unwrap(); i += 1 }
            "--index-base" => { o.index_base = a[i + 1].parse().unwrap(); i += 1 }
            "--verbose" => o.verbose = true,
            "--faults" => o.faults = true,
            _ => {}
        }
        i += 1;
    }
    o
}

/// set once enough failing runs were collected: the remaining behaviours are skipped (a broken
/// tree makes most soft stops hang, and every hang costs its full deadline)
static ENOUGH: AtomicBool = AtomicBool::new(false);
static FAILING_RUNS: AtomicUsize = AtomicUsize::new(0);
/// fault runs not executed because their addresses were in use by another process
static SKIPPED: AtomicUsize = AtomicUsize::new(0);
const MAX_FAILING_RUNS: usize = 48;

struct Viol {
    class: String,
    detail: Value,
}

fn viol(out: &mut Vec<Viol>, class: &str, detail: Value) {
    out.push(Viol { class: class.to_string(), detail });
}

#[derive(Default)]
struct Stats {
    requests: u64,
    responses: u64,
    probes: u64,
    hook_events: u64,
    soft_stops: u64,
}

fn terminal(r: &WorkerResponse) -> bool {
    r.status != ResponseStatus::Processing as i32
}

/// Read responses until every id of `ids[from..]` has a terminal answer, the worker exited, or
/// nothing arrived for `quiet`.
fn collect(w: &mut Worker, ids: &[String], got: &mut BTreeMap<String, Vec<WorkerResponse>>, quiet: Duration) {
    let mut last = Instant::now();
    loop {
        let all = ids.iter().all(|id| got.get(id).map(|v| v.iter().any(terminal)).unwrap_or(false));
        if all {
            return;
        }
        match w.read(Duration::from_millis(50)) {
            Some(r) => {
                last = Instant::now();
                got.entry(r.id.clone()).or_default().push(r);
            }
            None => {
                if w.is_finished() {
                    // drain what is left in the socket
                    while let Some(r) = w.read(Duration::from_millis(20)) {
                        got.entry(r.id.clone()).or_default().push(r);
                    }
                    return;
                }
                if last.elapsed() > quiet {
                    return;
                }
            }
        }
    }
}

fn run_one(idx: u64, line: &Value, opts: &Opts, port: u16, stats: &mut Stats) -> Vec<Viol> {
    let mut out = Vec::new();
    let hist = line["hist"].as_array().cloned().unwrap_or_default();
    let state = &line["state"];
    let listeners: Vec<String> = state["cfg"]["lst"].as_object().map(|o| o.keys().cloned().collect()).unwrap_or_default();
    let ad = if opts.faults {
        // a busy address would look like a hold the spec knows nothing about: take free ones or skip
        match wctl::free_addrs_for(opts.index_base + idx, port) {
            Some(ad) => ad,
            None => {
                SKIPPED.fetch_add(1, Ordering::SeqCst);
                return out;
            }
        }
    } else {
        Addrs::for_index(opts.index_base + idx, port)
    };
    let name = format!("w{}", opts.index_base + idx);
    let quiet = Duration::from_millis(opts.wait_ms);

    let rbe: Vec<String> = state["rbe"].as_array().map(|a| a.iter().filter_map(|x| x.as_str().map(String::from)).collect()).unwrap_or_default();
    let _mocks = MockBackends::start(&ad, &rbe);
    // the udp data path: every backend of the universe listens for datagrams (a datagram forwarded to a
    // backend the configuration no longer holds must be seen too)
    // (a listener that never got a frontend cannot route: histories without AddUFront are not probed with datagrams)
    let fronted = hist.iter().any(|s| s["req"]["k"] == "AddUFront");
    let udp_ls = if opts.faults || !fronted { Vec::new() } else { wctl::udp_listeners(&ad, &listeners) };
    let mut udp_mocks = if udp_ls.is_empty() {
        None
    } else {
        Some(wctl::UdpMocks::start(&ad, &wctl::BDEF.iter().map(|d| d.0.to_string()).collect::<Vec<_>>()))
    };

    let mut w = Worker::start_empty(&name);
    // ---- the sequence, back-to-back
    let mut ids: Vec<String> = Vec::new();
    let mut accepted: Vec<bool> = Vec::new();
    let mut got: BTreeMap<String, Vec<WorkerResponse>> = BTreeMap::new();
    let mut holders: BTreeMap<String, wctl::Holder> = BTreeMap::new();
    for step in &hist {
        let k = step["req"]["k"].as_str().unwrap_or("");
        let a = step["req"]["a"].as_str().unwrap_or("");
        if k == "EnvHold" || k == "EnvRelease" {
            // an environment step lies between two requests: everything sent so far has been handled
            let pending: Vec<String> = ids.iter().filter(|s| !s.is_empty()).cloned().collect();
            collect(&mut w, &pending, &mut got, quiet);
            if k == "EnvHold" {
                match wctl::hold_address(&ad, a) {
                    Ok(h) => {
                        holders.insert(a.to_string(), h);
                    }
                    // the spec says no proxy listener is bound there
                    Err(e) => viol(&mut out, "env:hold-refused", json!({"address": a, "error": e})),
                }
            } else {
                holders.remove(a);
            }
            ids.push(String::new());
            accepted.push(true);
            continue;
        }
        let request: Request = wctl::build_request_full(k, a, &ad);
        // the main process's side of the same sequence
        let verdict = catch_unwind(AssertUnwindSafe(|| w.state.dispatch(&request).is_ok()));
        match verdict {
            Ok(v) => accepted.push(v),
            Err(e) => {
                viol(&mut out, "panic:config-state", json!({"step": k, "arg": a, "panic": vh::util::panic_message(e)}));
                accepted.push(false);
            }
        }
        ids.push(w.send_raw(request));
        stats.requests += 1;
    }
    let mut real_ids: Vec<String> = ids.iter().filter(|s| !s.is_empty()).cloned().collect();
    // A sentinel behind the history: requests are handled and answered in order, so once the sentinel
    // has its answer a request of the history without one will never get it (a verdict that does not
    // rest on a time-out), and the worker still answers after whatever the history contained.
    let sentinel = if !state["stopped"].as_bool().unwrap_or(false) && state["shut"].as_i64().unwrap_or(0) == 0 {
        let id = w.send_raw(RequestType::Status(sozu_command_lib::proto::command::Status {}).into());
        real_ids.push(id.clone());
        Some(id)
    } else {
        None
    };
    if let Some(sid) = &sentinel {
        // (waiting for the sentinel alone is enough: every earlier answer is ahead of it in the channel)
        collect(&mut w, std::slice::from_ref(sid), &mut got, quiet);
        let answered = |got: &BTreeMap<String, Vec<WorkerResponse>>| got.get(sid).map(|v| v.iter().any(terminal)).unwrap_or(false);
        if !answered(&got) && !w.is_finished() {
            // a stalled machine, or a worker that stopped answering: give it three more quiet periods
            collect(&mut w, std::slice::from_ref(sid), &mut got, quiet * 3);
        }
        if !answered(&got) {
            viol(&mut out, "sentinel:unanswered", json!({"what": "the Status request sent behind the history got no answer", "finished": w.is_finished()}));
        }
    } else {
        collect(&mut w, &real_ids, &mut got, quiet);
    }

    // ---- (a) exactly one terminal answer per request, with the predicted status
    let first_soft = hist.iter().position(|s| s["req"]["k"] == "SoftStop" && s["st"] == "ok");
    let mut unanswered_tail = false;
    for (i, step) in hist.iter().enumerate() {
        let k = step["req"]["k"].as_str().unwrap_or("");
        if ids[i].is_empty() {
            continue; // environment step
        }
        let rs = got.get(&ids[i]).cloned().unwrap_or_default();
        stats.responses += rs.len() as u64;
        let terms: Vec<&WorkerResponse> = rs.iter().filter(|r| terminal(r)).collect();
        let procs = rs.len() - terms.len();
        let after_stop = first_soft.map(|p| i > p).unwrap_or(false);
        if Some(i) == first_soft {
            // its final Ok arrives when the worker exits (checked below, with the epilogue)
            continue;
        }
        if terms.is_empty() && after_stop && w.is_finished() {
            // sent after the soft stop and never read by the worker, which has exited: admissible
            // as long as no later request was answered either
            unanswered_tail = true;
            continue;
        }
        if unanswered_tail && !terms.is_empty() {
            viol(&mut out, "exactly-once:gap-after-stop", json!({"step": i, "verb": k}));
        }
        if terms.len() != 1 {
            viol(
                &mut out,
                &format!("exactly-once:{}:{}", k, if terms.is_empty() { "none" } else { "several" }),
                json!({"step": i, "verb": k, "terminal": terms.len(), "processing": procs,
                       "messages": rs.iter().map(|r| r.message.clone()).collect::<Vec<_>>()}),
            );
            continue;
        }
        let st = wctl::status_name(terms[0].status);
        // "final": the one answer of a malformed request is Ok or Failure, the property does not say which
        if st != step["st"].as_str().unwrap_or("") && step["st"] != "final" {
            viol(
                &mut out,
                &format!("status:{k}"),
                json!({"step": i, "verb": k, "arg": step["req"]["a"], "expected": step["st"], "got": st, "message": terms[0].message}),
            );
        }
        if procs != 0 && k != "HardStop" {
            viol(&mut out, &format!("processing:{k}"), json!({"step": i, "processing": procs}));
        }
        if accepted[i] != step["accepted"].as_bool().unwrap_or(false) {
            viol(
                &mut out,
                &format!("accepted:{k}"),
                json!({"step": i, "verb": k, "arg": step["req"]["a"], "spec": step["accepted"], "config_state": accepted[i]}),
            );
        }
    }

    // ---- hook: per request, the responses pushed and the soft-stop quantities
    let events = wctl::peek_events(&name);
    if !events.is_empty() || !hist.is_empty() {
        for (i, step) in hist.iter().enumerate() {
            let k = step["req"]["k"].as_str().unwrap_or("");
            if ids[i].is_empty() {
                continue; // environment step
            }
            let evs: Vec<&wctl::CmdEvent> = events.iter().filter(|e| e.id == ids[i]).collect();
            stats.hook_events += evs.len() as u64;
            let answered = got.get(&ids[i]).map(|v| !v.is_empty()).unwrap_or(false);
            if evs.is_empty() {
                if answered {
                    viol(&mut out, "hook:missing", json!({"step": i, "verb": k}));
                }
                continue;
            }
            if evs.len() > 1 {
                viol(&mut out, "hook:handled-twice", json!({"step": i, "verb": k, "events": evs.len()}));
            }
            let e = evs[0];
            let expect_base = step["base"].as_i64().unwrap_or(-1);
            if e.base != expect_base {
                viol(&mut out, &format!("base:{k}"), json!({"step": i, "verb": k, "arg": step["req"]["a"], "spec_base": expect_base, "base_sessions_count": e.base, "slab": e.slab}));
            } else if e.slab != e.base {
                viol(&mut out, &format!("slab:{k}"), json!({"step": i, "verb": k, "arg": step["req"]["a"], "base_sessions_count": e.base, "slab": e.slab}));
            }
            let pushed_terminal = e.ok + e.failure;
            let expect_terminal = if (Some(i) == first_soft) || k == "HardStop" { 0 } else { 1 };
            let expect_processing = if (Some(i) == first_soft) || k == "HardStop" { 1 } else { 0 };
            if pushed_terminal != expect_terminal || e.processing != expect_processing {
                viol(
                    &mut out,
                    &format!("pushed:{k}"),
                    json!({"step": i, "verb": k, "ok": e.ok, "failure": e.failure, "processing": e.processing}),
                );
            }
        }
    }

    let stopped = state["stopped"].as_bool().unwrap_or(false);
    let shut = state["shut"].as_i64().unwrap_or(0);
    let handed = state["handed"].as_bool().unwrap_or(false);

    if !stopped && shut == 0 && !w.is_finished() && out.is_empty() {
        // ---- (b) the worker's queryable view == the main process's state == the spec's cfg
        let mut qids = Vec::new();
        let hid = w.send_raw(RequestType::QueryClustersHashes(QueryClustersHashes {}).into());
        qids.push(hid.clone());
        let clusters = ["c1", "c2"];
        let mut cids = Vec::new();
        for c in clusters {
            let id = w.send_raw(RequestType::QueryClusterById(c.to_string()).into());
            cids.push(id.clone());
            qids.push(id);
        }
        stats.requests += qids.len() as u64;
        collect(&mut w, &qids, &mut got, quiet);
        for id in &qids {
            let n = got.get(id).map(|v| v.iter().filter(|r| terminal(r)).count()).unwrap_or(0);
            if n != 1 {
                viol(&mut out, "exactly-once:query", json!({"id": id, "terminal": n}));
            }
        }
        let content = |id: &String| -> Option<ContentType> {
            got.get(id)?.iter().find(|r| terminal(r))?.content.clone()?.content_type
        };
        match content(&hid) {
            Some(ContentType::ClusterHashes(h)) => {
                let mine = w.state.hash_state();
                if h.map != mine {
                    viol(&mut out, "view:hashes", json!({"worker": format!("{:?}", h.map), "main": format!("{mine:?}")}));
                }
            }
            other => viol(&mut out, "view:hashes-content", json!({"got": format!("{other:?}")})),
        }
        for (c, id) in clusters.iter().zip(cids.iter()) {
            match content(id) {
                Some(ContentType::Clusters(ci)) => {
                    let mine: Vec<_> = w.state.cluster_state(c).into_iter().collect();
                    if ci.vec != mine {
                        viol(&mut out, "view:cluster", json!({"cluster": c, "worker": format!("{:?}", ci.vec), "main": format!("{mine:?}")}));
                    }
                }
                other => viol(&mut out, "view:cluster-content", json!({"cluster": c, "got": format!("{other:?}")})),
            }
        }
        let real = wctl::normalise(&wctl::project_config(&w.state, &ad, &listeners));
        let spec = wctl::normalise(&state["cfg"]);
        if real != spec {
            viol(&mut out, "view:config-state-vs-spec", json!({"config_state": real, "spec": spec}));
        }

        // ---- behaviour: what a client sees on every listener address
        if handed {
            // the sockets were handed to us over the SCM socket (one message per
            // ReturnListenSockets): take them and close them
            // (the answers to the ReturnListenSockets requests have been read, so the messages are
            // already in the socket)
            wctl::drain_scm(w.scm_main_to_worker.raw_fd());
        }
        let seen = if opts.faults {
            let held: Vec<String> = holders.keys().cloned().collect();
            let spec_held: Vec<String> = state["held"].as_array().map(|a| a.iter().filter_map(|x| x.as_str().map(String::from)).collect()).unwrap_or_default();
            if wctl::normalise(&json!(held)) != wctl::normalise(&json!(spec_held)) {
                viol(&mut out, "env:held", json!({"harness": held, "spec": spec_held}));
            }
            wctl::run_probes_faults(&ad, &listeners, Duration::from_millis(opts.wait_ms), &held)
        } else {
            wctl::run_probes(&ad, &listeners, Duration::from_millis(opts.wait_ms))
        };
        let mut seen = seen;
        if let Some(mocks) = udp_mocks.as_mut() {
            // one datagram of a new flow through every udp listener; a round trip on the command channel
            // (the worker has handled the datagrams by the time it answers); then what the backends got
            let shots: Vec<wctl::UdpShot> = udp_ls.iter().map(|l| wctl::udp_shoot(&ad, l)).collect();
            let bid = w.send_raw(RequestType::Status(sozu_command_lib::proto::command::Status {}).into());
            collect(&mut w, std::slice::from_ref(&bid), &mut got, quiet);
            let expect: Vec<bool> = udp_ls
                .iter()
                .map(|l| state["probes"][l]["d"].as_array().map(|a| a.iter().any(|x| x != "drop")).unwrap_or(false))
                .collect();
            let outs = wctl::udp_collect(mocks, &shots, &expect, Duration::from_millis(opts.wait_ms.max(4000) * 2), Duration::from_millis((opts.wait_ms / 27).max(100)));
            for (l, o) in udp_ls.iter().zip(outs) {
                seen.entry(l.clone()).or_default().insert("d".to_string(), o);
            }
        }
        for (l, m) in &seen {
            for (h, outcome) in m {
                stats.probes += 1;
                let adm: Vec<String> = state["probes"][l][h]
                    .as_array()
                    .map(|a| a.iter().filter_map(|x| x.as_str().map(String::from)).collect())
                    .unwrap_or_default();
                if !adm.contains(outcome) {
                    viol(
                        &mut out,
                        &format!("probe:{}:{}", adm.first().cloned().unwrap_or_default(), outcome),
                        json!({"listener": l, "host": h, "admissible": adm, "got": outcome}),
                    );
                }
            }
        }
    }

    // ---- epilogue: soft stop (unless already stopping / stopped), then the thread must exit
    if !stopped {
        stats.soft_stops += 1;
        let sid = if shut == 0 && !w.is_finished() {
            Some(w.send_raw(RequestType::SoftStop(SoftStop {}).into()))
        } else {
            first_soft.map(|p| ids[p].clone())
        };
        if let Some(sid) = sid {
            let patience = if out.is_empty() { opts.wait_ms.max(5000) } else { 1500 };
            collect(&mut w, std::slice::from_ref(&sid), &mut got, Duration::from_millis(patience));
            let rs = got.get(&sid).cloned().unwrap_or_default();
            let terms: Vec<&WorkerResponse> = rs.iter().filter(|r| terminal(r)).collect();
            let procs = rs.len() - terms.len();
            if terms.len() != 1 {
                viol(
                    &mut out,
                    &format!("exactly-once:SoftStop:{}", if terms.is_empty() { "none" } else { "several" }),
                    json!({"terminal": terms.len(), "processing": procs, "finished": w.is_finished()}),
                );
            } else if wctl::status_name(terms[0].status) != "ok" {
                viol(&mut out, "status:SoftStop", json!({"got": wctl::status_name(terms[0].status), "message": terms[0].message}));
            }
            if procs > 1 {
                viol(&mut out, "processing:SoftStop", json!({"processing": procs}));
            }
        }
    }
    let patience = if out.is_empty() { opts.wait_ms.max(5000) } else { 1500 };
    match w.join_within(Duration::from_millis(patience)) {
        Ok(true) => {
            // ScmSocket does not own its descriptor: close both ends now that the worker is gone
            unsafe {
                libc::close(w.scm_main_to_worker.raw_fd());
                libc::close(w.scm_worker_to_main.raw_fd());
            }
        }
        Ok(false) => viol(&mut out, "worker-hang", json!({"what": "worker thread still running after the stop"})),
        Err(p) => viol(&mut out, "panic:worker", json!({"panic": p})),
    }
    let _ = wctl::take_events(&name);
    if opts.verbose {
        for (i, step) in hist.iter().enumerate() {
            let rs = got.get(&ids[i]).cloned().unwrap_or_default();
            if ids[i].is_empty() {
                eprintln!("  env {}({})", step["req"]["k"].as_str().unwrap_or(""), step["req"]["a"].as_str().unwrap_or(""));
                continue;
            }
            eprintln!(
                "  {} {}({}) -> {:?}",
                ids[i],
                step["req"]["k"].as_str().unwrap_or(""),
                step["req"]["a"].as_str().unwrap_or(""),
                rs.iter().map(|r| format!("{}:{}", wctl::status_name(r.status), r.message)).collect::<Vec<_>>()
            );
        }
    }
    out
}

fn main() {
    vh::util::quiet_panics();
    let opts = parse_opts();
    let hooked = wctl::install_cmd_sink();
    let mut lines: Vec<Value> = Vec::new();
    for l in BufReader::new(std::io::stdin()).lines() {
        let l = l.expect("stdin");
        let l = l.trim();
        if !l.starts_with('{') {
            continue;
        }
        let v: Value = serde_json::from_str(l).expect("json line");
        if v.get("hist").is_some() {
            lines.push(v);
        }
    }
    let total_lines = lines.len();
    // seeded sample (deterministic for a seed)
    if opts.sample > 0 && lines.len() > opts.sample {
        let mut x = opts.seed.wrapping_mul(0x9E3779B97F4A7C15) | 1;
        let mut keyed: Vec<(u64, Value)> = lines
            .into_iter()
            .map(|v| {
                x ^= x << 13;
                x ^= x >> 7;
                x ^= x << 17;
                (x, v)
            })
            .collect();
        keyed.sort_by_key(|k| k.0);
        keyed.truncate(opts.sample);
        lines = keyed.into_iter().map(|k| k.1).collect();
    }
    // ports: one block per process (the loopback IP is private to each run)
    let port = {
        let mut p = vh::worker::free_port();
        while p > 60_000 {
            p = vh::worker::free_port();
        }
        p
    };
    let lines = Arc::new(lines);
    let next = Arc::new(AtomicUsize::new(0));
    let results: Arc<Mutex<Vec<(usize, Vec<Viol>)>>> = Arc::new(Mutex::new(Vec::new()));
    let totals: Arc<[AtomicU64; 5]> = Arc::new(Default::default());
    let done = Arc::new(AtomicUsize::new(0));
    let opts = Arc::new(opts);
    let t0 = Instant::now();
    let mut handles = Vec::new();
    for _ in 0..opts.threads.max(1) {
        let lines = lines.clone();
        let next = next.clone();
        let results = results.clone();
        let totals = totals.clone();
        let opts = opts.clone();
        let done = done.clone();
        handles.push(std::thread::spawn(move || {
            loop {
                let i = next.fetch_add(1, Ordering::SeqCst);
                if i >= lines.len() || ENOUGH.load(Ordering::SeqCst) {
                    break;
                }
                let mut stats = Stats::default();
                let r = catch_unwind(AssertUnwindSafe(|| run_one(i as u64, &lines[i], &opts, port, &mut stats)));
                let v = match r {
                    Ok(v) => v,
                    Err(e) => vec![Viol { class: "harness-panic".to_string(), detail: json!({"panic": vh::util::panic_message(e)}) }],
                };
                totals[0].fetch_add(stats.requests, Ordering::Relaxed);
                totals[1].fetch_add(stats.responses, Ordering::Relaxed);
                totals[2].fetch_add(stats.probes, Ordering::Relaxed);
                totals[3].fetch_add(stats.hook_events, Ordering::Relaxed);
                totals[4].fetch_add(stats.soft_stops, Ordering::Relaxed);
                if !v.is_empty() {
                    results.lock().unwrap().push((i, v));
                    if FAILING_RUNS.fetch_add(1, Ordering::SeqCst) + 1 >= MAX_FAILING_RUNS {
                        ENOUGH.store(true, Ordering::SeqCst);
                    }
                }
                done.fetch_add(1, Ordering::SeqCst);
            }
        }));
    }
    for h in handles {
        let _ = h.join();
    }
    let mut res = results.lock().unwrap();
    res.sort_by_key(|r| r.0);
    // A verdict must not depend on how long the machine stalled a worker thread (every
    // wait of the replayer is a deadline). A failing run is re-executed alone, twice, with four
    // times the patience; only the violation classes seen in EVERY execution are reported. A run
    // that conforms when re-executed is counted as unstable, not as a violation.
    let mut unstable = 0u64;
    let mut unstable_classes: BTreeMap<String, u64> = BTreeMap::new();
    if !opts.verbose {
        let patient = Opts { threads: 1, seed: opts.seed, sample: 0, wait_ms: opts.wait_ms * 4, verbose: false,
                             index_base: opts.index_base + 47_000, faults: opts.faults };
        let mut retried: BTreeMap<String, u64> = BTreeMap::new();
        let mut todo: Vec<(usize, Vec<Viol>)> = Vec::new();
        for (i, vs) in res.drain(..) {
            // the report shows at most three runs per class: re-execute those, drop the rest
            let wanted = vs.iter().any(|v| retried.get(&v.class).copied().unwrap_or(0) < 3);
            if !wanted {
                continue;
            }
            for v in &vs {
                *retried.entry(v.class.clone()).or_insert(0) += 1;
            }
            todo.push((i, vs));
        }
        let lines_ref = &lines;
        let patient_ref = &patient;
        let outcomes: Vec<(usize, Vec<Viol>, Vec<String>)> = std::thread::scope(|sc| {
            let handles: Vec<_> = todo
                .into_iter()
                .enumerate()
                .map(|(slot, (i, vs))| {
                    sc.spawn(move || {
                        let mut classes: Vec<String> = vs.iter().map(|v| v.class.clone()).collect();
                        for attempt in 0..2u64 {
                            let mut stats = Stats::default();
                            let idx = (slot as u64) * 2 + attempt;
                            let again = catch_unwind(AssertUnwindSafe(|| run_one(idx, &lines_ref[i], patient_ref, port, &mut stats)))
                                .unwrap_or_else(|e| vec![Viol { class: "harness-panic".to_string(), detail: json!({"panic": vh::util::panic_message(e)}) }]);
                            classes.retain(|c| again.iter().any(|v| &v.class == c));
                            if classes.is_empty() {
                                break;
                            }
                        }
                        let first: Vec<String> = vs.iter().map(|v| v.class.clone()).collect();
                        (i, vs.into_iter().filter(|v| classes.contains(&v.class)).collect::<Vec<Viol>>(), first)
                    })
                })
                .collect();
            handles.into_iter().map(|h| h.join().expect("retry thread")).collect()
        });
        let mut kept: Vec<(usize, Vec<Viol>)> = Vec::new();
        for (i, stable, first) in outcomes {
            if stable.is_empty() {
                unstable += 1;
                for c in first {
                    *unstable_classes.entry(c).or_insert(0) += 1;
                }
            } else {
                kept.push((i, stable));
            }
        }
        kept.sort_by_key(|r| r.0);
        *res = kept;
    }
    let mut n_viol = 0;
    let mut classes: BTreeMap<String, u64> = BTreeMap::new();
    for (i, vs) in res.iter() {
        for v in vs {
            n_viol += 1;
            let c = classes.entry(v.class.clone()).or_insert(0);
            *c += 1;
            if *c <= 3 {
                vh::util::emit(&json!({"kind": "violation", "class": v.class, "detail": v.detail, "line": lines[*i]}));
            }
        }
    }
    let picks: Vec<usize> = if lines.is_empty() { vec![] } else { vec![lines.len() / 3, 2 * lines.len() / 3, lines.len() - 1] };
    let samples: Vec<Value> = picks
        .iter()
        .map(|i| &lines[*i])
        .map(|l| {
            json!(l["hist"].as_array().map(|h| h.iter().map(|s| format!("{}({})->{}", s["req"]["k"].as_str().unwrap_or(""), s["req"]["a"].as_str().unwrap_or(""), s["st"].as_str().unwrap_or(""))).collect::<Vec<_>>().join(" ")).unwrap_or_default())
        })
        .collect();
    vh::util::emit(&json!({
        "kind": "summary", "lines": total_lines, "runs": done.load(Ordering::SeqCst), "selected": lines.len(),
        "aborted": ENOUGH.load(Ordering::SeqCst), "violations": n_viol, "classes": classes,
        "requests": totals[0].load(Ordering::Relaxed), "responses": totals[1].load(Ordering::Relaxed),
        "probes": totals[2].load(Ordering::Relaxed), "hook_events": totals[3].load(Ordering::Relaxed),
        "soft_stops": totals[4].load(Ordering::Relaxed), "hooked": hooked, "skipped": SKIPPED.load(Ordering::SeqCst), "unstable": unstable, "unstable_classes": unstable_classes,
        "open_fds": std::fs::read_dir("/proc/self/fd").map(|d| d.count()).unwrap_or(0),
        "wall_s": t0.elapsed().as_secs_f64(), "samples": samples,
    }));
    if std::env::var("C08_FD_DEBUG").is_ok() {
        let mut kinds: BTreeMap<String, u64> = BTreeMap::new();
        if let Ok(d) = std::fs::read_dir("/proc/self/fd") {
            for e in d.flatten() {
                let t = std::fs::read_link(e.path()).map(|p| p.to_string_lossy().to_string()).unwrap_or_default();
                let k = t.split(':').next().unwrap_or("").to_string();
                *kinds.entry(k).or_insert(0) += 1;
            }
        }
        eprintln!("open descriptors by kind: {kinds:?}");
    }
    // worker threads that never exited (violations) must not keep the process alive
    std::process::exit(0);
}
