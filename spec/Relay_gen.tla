------------------------------ MODULE Relay_gen ------------------------------
(***************************************************************************)
(* S->I generator for Relay (property C01).  TLC -simulate walks behaviours *)
(* of Relay in LOCK STEP: an environment action (a peer writes, ends its    *)
(* message, reads, grants window) is taken only when sozu is parked - no    *)
(* Mux action enabled, every kernel edge delivered - so that each recorded  *)
(* step carries what the specification says the peers can observe once sozu *)
(* has gone back to sleep.  One line                                        *)
(*     <<"REPLAY", ToJson(hist)>>                                           *)
(* is printed per behaviour of Depth environment steps.  harness/           *)
(* replay_relay executes the steps against a real worker, one unit = U      *)
(* bytes, and compares after every step:                                    *)
(*   R  the receiver must be able to read exactly the item the spec         *)
(*      delivers (U bytes at that offset, or the end of the message);       *)
(*   W/C/G  the peer's write must be accepted; nothing may be delivered     *)
(*      that the spec's sender has not sent.                                *)
(* The spec's queues are smaller than the kernel's, and more room never     *)
(* delivers less: what the spec delivers is a lower bound, what was sent    *)
(* the upper bound.                                                         *)
(***************************************************************************)
EXTENDS Relay, Json

CONSTANT Depth

VARIABLE hist
gvars == <<vars, hist>>

Quiet == SozuParked

\* the observable state the replayer compares (pipes as "req"/"resp" of stream 1..N)
ObsRec == [p \in {"1req", "1resp", "2req", "2resp"} |->
             LET q == <<IF p \in {"1req", "1resp"} THEN 1 ELSE 2, IF p \in {"1req", "2req"} THEN "req" ELSE "resp">> IN
             IF q[1] \in Streams THEN [sent |-> sent[q], rcvd |-> rcvd[q], endSent |-> endSent[q], endRcvd |-> endRcvd[q]]
             ELSE [sent |-> 0, rcvd |-> 0, endSent |-> "none", endRcvd |-> "none"]]

\* a step records the pipe's counters as they were when sozu was parked before it
Step(op, s, d, k) == hist' = Append(hist, [op |-> op, s |-> s, d |-> d, k |-> k,
                                           sent |-> sent[<<s, d>>], rcvd |-> rcvd[<<s, d>>], wr |-> wr[<<s, d>>]])

G_Write == \E p \in Pipes : \E k \in Ws : Peer_Write(p, k) /\ Step("W", p[1], p[2], k)
G_Close == \E p \in Pipes : Peer_Close(p, "clean") /\ Step("C", p[1], p[2], 0)
\* the item the receiver is about to take tells the replayer what to expect
G_Read == \E e \in Endpoints :
            /\ Peer_Read(e)
            /\ LET it == Head(outK[e]) IN
               Step(IF it.t = "d" THEN "R" ELSE "E", it.s, DirWritten(e), IF it.t = "d" THEN it.o ELSE 0)
G_Grant == \E e \in Endpoints : \E s \in Streams : \E n \in Ws :
             Peer_Grant(e, s, n) /\ Step("G", s, DirWritten(e), n)

EnvStep == Quiet /\ Len(hist) < Depth /\ (G_Write \/ G_Close \/ G_Read \/ G_Grant)
SozuStepG == (Any_Mux_Readable \/ Any_Mux_Writable \/ Any_Epoll_Edge) /\ UNCHANGED hist

GInit == Init /\ hist = <<>>
GNext == EnvStep \/ SozuStepG
GenSpec == GInit /\ [][GNext]_gvars

\* emitted when the behaviour has Depth environment steps and sozu is parked again (so the last step's effect is settled)
EmitBehaviour ==
  (Len(hist) = Depth /\ Quiet) =>
     PrintT(<<"REPLAY", ToJson([steps |-> hist, final |-> ObsRec, front |-> FrontProto, back |-> BackProto, n |-> N])>>)
\* stop a simulated behaviour once it was printed
Done == ~(Len(hist) = Depth /\ Quiet)
=============================================================================
