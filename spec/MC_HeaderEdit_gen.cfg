SPECIFICATION Spec
CONSTANTS
  MaxReq = 2
  MaxTr = 1
  MaxResp = 2
  Deviations = {"H1TrailerIdentity", "TrailerCorr", "NominatedToH2"}
  Emit = TRUE
  SampleMod = 40
  SampleRes = 1
  Shape = "quick"
INVARIANTS EmitCase
CHECK_DEADLOCK FALSE
