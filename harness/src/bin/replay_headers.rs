//! S->I replayer for spec/HeaderEdit.tla (property C13).
//!
//! Input (--cases FILE): ndjson, one TLC-generated case per line:
//!   {"k":{cfg}, "req":[tokens], "tr":[tokens], "resp":[tokens], "h":hash, "found":..,
//!    "ereq":{"outcome","hdrs":[{n,v,src}],"cookies":[crumbs],"trailers":[{n,v,src}]},
//!    "eresp":{"hdrs":[{n,v,src}]}, "devs":[...]}
//!
//! Every case is concretised (case variants of names, values with commas/quotes, one Cookie field or
//! one per crumb on H2, trailers on chunked / H2 bodies) and sent through REAL sozu workers (one per
//! group of listener configurations) to recording backends (H1 raw bytes, h2c via vh::h2). The header
//! list the backend parsed (names lower-cased, order kept) is compared with the spec's prediction
//! modulo the freedom the spec leaves (position of proxy-added fields, Cookie re-crumbing), and the
//! response header list seen by the client likewise.
//!
//! Output: ndjson on stdout: {"kind":"violation",...}* then {"kind":"summary",...}.

use std::collections::{BTreeMap, BTreeSet, HashMap, HashSet};
use std::io::{BufRead, BufReader, Read, Write};
use std::net::{SocketAddr, TcpListener, TcpStream};
use std::sync::atomic::{AtomicU64, AtomicUsize, Ordering};
use std::sync::{Arc, Mutex};
use std::time::{Duration, Instant};

use serde_json::{Value, json};
use sozu_command_lib::config::ListenerBuilder;
use sozu_command_lib::proto::command::{
    ActivateListener, AddBackend, AddCertificate, CertificateAndKey, Cluster, Header, HeaderPosition, HstsConfig,
    ListenerType, LoadBalancingParams, PathRule, RequestHttpFrontend, RulePosition, SoftStop, request::RequestType,
};
use sozu_lib::protocol::proxy_protocol::header::{Command, HeaderV2};
use vh::h2::{self, Frame, H2Conn};
use vh::worker::{LOCAL_CERT, LOCAL_KEY, Worker, free_port, ok};

const STICKY_DEFAULT: &str = "SOZUBALANCEID";
const STICKY_CUSTOM: &str = "STKY";
const CORR_DEFAULT: &str = "Sozu-Id";
const CORR_CUSTOM: &str = "X-Edge-Id";
const SID_GOOD: &str = "sid-good";
const HSTS_VALUE: &str = "max-age=1000; includeSubDomains";
static MISSING_LAST_CHUNK: AtomicU64 = AtomicU64::new(0);
static TIMEOUT_MS: AtomicU64 = AtomicU64::new(15_000);
fn exchange_timeout() -> Duration {
    Duration::from_millis(TIMEOUT_MS.load(Ordering::Relaxed))
}

// ---------------------------------------------------------------------------------------------
// cases

#[derive(Clone, Debug, PartialEq, Eq, Hash, PartialOrd, Ord)]
struct ListenerKey {
    tls: bool,
    fam: u8, // 0 = 127.0.0.1 direct, 1 = [::1] direct, 2 = expects a PROXY header
    elide: bool,
    send: bool,
    corr_custom: bool,
    sticky_custom: bool,
    hsts: bool,
}

#[derive(Clone, Debug)]
struct Cfg {
    h2_front: bool,
    tls: bool,
    h2c_back: bool,
    peer: String,
    elide: bool,
    send: bool,
    corr_custom: bool,
    sticky_custom: bool,
    sticky_cluster: bool,
    edits: String,
    hsts: bool,
}

impl Cfg {
    fn from(v: &Value) -> Cfg {
        Cfg {
            h2_front: v["fp"]["front"] == "h2",
            tls: v["fp"]["tls"].as_bool().unwrap(),
            h2c_back: v["back"] == "h2c",
            peer: v["peer"].as_str().unwrap().to_string(),
            elide: v["elide"].as_bool().unwrap(),
            send: v["send"].as_bool().unwrap(),
            corr_custom: v["corrName"] == "custom",
            sticky_custom: v["stickyName"] == "custom",
            sticky_cluster: v["stickyCluster"].as_bool().unwrap(),
            edits: v["edits"].as_str().unwrap().to_string(),
            hsts: v["hsts"].as_bool().unwrap(),
        }
    }
    fn lkey(&self) -> ListenerKey {
        let fam = match self.peer.as_str() {
            "v4" => 0,
            "v6" => 1,
            _ => 2,
        };
        ListenerKey { tls: self.tls, fam, elide: self.elide, send: self.send, corr_custom: self.corr_custom, sticky_custom: self.sticky_custom, hsts: self.hsts }
    }
    fn corr(&self) -> &'static str {
        if self.corr_custom { CORR_CUSTOM } else { CORR_DEFAULT }
    }
    fn sticky(&self) -> &'static str {
        if self.sticky_custom { STICKY_CUSTOM } else { STICKY_DEFAULT }
    }
    fn prefix(&self) -> String {
        format!("/{}-s{}-{}/", if self.h2c_back { "h2c" } else { "h1" }, self.sticky_cluster as u8, self.edits)
    }
    fn cluster(&self) -> String {
        format!("c-{}-s{}", if self.h2c_back { "h2c" } else { "h1" }, self.sticky_cluster as u8)
    }
}

struct Case {
    idx: usize,
    k: Cfg,
    req: Vec<String>,
    tr: Vec<String>,
    resp: Vec<String>,
    raw: Value,
}

fn strs(v: &Value) -> Vec<String> {
    v.as_array().map(|a| a.iter().map(|x| x.as_str().unwrap_or("").to_string()).collect()).unwrap_or_default()
}

// ---------------------------------------------------------------------------------------------
// concretisation: token -> (name, value)

fn vary_case(name: &str, variant: u64) -> String {
    match variant % 4 {
        0 => name.to_string(),
        1 => name.to_ascii_lowercase(),
        2 => name.to_ascii_uppercase(),
        _ => name.chars().enumerate().map(|(i, c)| if i % 2 == 0 { c.to_ascii_lowercase() } else { c.to_ascii_uppercase() }).collect(),
    }
}

/// canonical (H1 spelling) name and value of a token; `alt` picks the second value variant
fn token_field(tok: &str, k: &Cfg, alt: bool) -> (String, String) {
    let s = |a: &str, b: &str| (a.to_string(), b.to_string());
    match tok {
        "a1" => s("X-A", if alt { "a1" } else { "a1, \"q;1\", z=\"\\\"\"" }),
        "a2" => s("X-A", if alt { "a2,b" } else { "a2" }),
        "hop" => s("X-Hop", "hopv"),
        "ckO" => s("Cookie", "o1=v1"),
        "ckS" => ("Cookie".into(), format!("{}={}", k.sticky(), SID_GOOD)),
        "ckB" => ("Cookie".into(), format!("o2=v2; {}=sid-bad; o3=v3", k.sticky())),
        "ckD" => ("Cookie".into(), format!("{STICKY_DEFAULT}=zzz")),
        "xff" => s("X-Forwarded-For", if alt { "6.6.6.6" } else { "6.6.6.6, 7.7.7.7" }),
        "fwd" => s("Forwarded", if alt { "for=6.6.6.6" } else { "for=\"[2001:db8::666]:1\";proto=ftp, for=7.7.7.7" }),
        "xri" => s("X-Real-IP", "6.6.6.6"),
        "xfproto" => s("X-Forwarded-Proto", "gopher"),
        "xfport" => s("X-Forwarded-Port", "1"),
        "rid1" => s("X-Request-Id", "client-rid-1"),
        "rid2" => s("X-Request-Id", "client-rid-2"),
        "corr" => (k.corr().to_string(), "client-corr".into()),
        "cClose" => s("Connection", "close"),
        "cKA" => s("Connection", "keep-alive"),
        "cHop" => s("Connection", "x-hop"),
        "teTr" => s("TE", "trailers"),
        "teGz" => s("TE", "gzip"),
        "upg" => s("Upgrade", "foo/1"),
        // the rest of the connection-specific names (RFC 9113 8.2.2, RFC 7540 3.2.1)
        "pconn" => s("Proxy-Connection", if alt { "keep-alive" } else { "Keep-Alive" }),
        "ka" => s("Keep-Alive", if alt { "timeout=5" } else { "timeout=5, max=100" }),
        "h2s" => s("HTTP2-Settings", "AAMAAABkAAQCAAAAAAIAAAAA"),
        "cUpg" => s("Connection", if alt { "Upgrade, HTTP2-Settings" } else { "upgrade,http2-settings" }),
        // the request is sent with a chunked body on HTTP/1.1 (h1_exchange), as a literal field on HTTP/2
        "tenc" => s("Transfer-Encoding", "chunked"),
        // trailers
        "tPlain" => s("X-T", "tv"),
        "tXri" => s("X-Real-IP", "6.6.6.7"),
        "tXff" => s("X-Forwarded-For", "6.6.6.8"),
        "tFwd" => s("Forwarded", "for=6.6.6.9"),
        "tRid" => s("X-Request-Id", "trailer-rid"),
        "tCorr" => (k.corr().to_string(), "trailer-corr".into()),
        "tKA" => s("Keep-Alive", "timeout=9"),
        // responses
        "r1" => s("X-R", if alt { "r1" } else { "r1, \"a,b\"" }),
        "r2" => s("X-R", "r2"),
        "sc" => s("Set-Cookie", "app=1; Path=/x"),
        "sts" => s("Strict-Transport-Security", "max-age=5"),
        "rcorr" => (k.corr().to_string(), "backend-corr".into()),
        "rClose" => s("Connection", "close"),
        "rKA" => s("Keep-Alive", if alt { "timeout=5" } else { "timeout=5, max=100" }),
        "rPconn" => s("Proxy-Connection", "keep-alive"),
        "rUpg" => s("Upgrade", "foo/2"),
        // the HTTP/1.1 backend answers with a chunked body (h1_backend_conn)
        "rTenc" => s("Transfer-Encoding", "chunked"),
        "rCHop" => s("Connection", if alt { "x-rhop" } else { "X-Rhop" }),
        "rHop" => s("X-Rhop", "rhopv"),
        other => panic!("unknown token {other}"),
    }
}

fn crumb_text(c: &str, k: &Cfg) -> String {
    match c {
        "o1" => "o1=v1".into(),
        "o2" => "o2=v2".into(),
        "o3" => "o3=v3".into(),
        "S:good" => format!("{}={}", k.sticky(), SID_GOOD),
        "S:bad" => format!("{}=sid-bad", k.sticky()),
        "D" => format!("{STICKY_DEFAULT}=zzz"),
        other => panic!("unknown crumb {other}"),
    }
}

fn splitmix(mut x: u64) -> u64 {
    x = x.wrapping_add(0x9E37_79B9_7F4A_7C15);
    let mut z = x;
    z = (z ^ (z >> 30)).wrapping_mul(0xBF58_476D_1CE4_E5B9);
    z = (z ^ (z >> 27)).wrapping_mul(0x94D0_49BB_1331_11EB);
    z ^ (z >> 31)
}

// ---------------------------------------------------------------------------------------------
// shared state

#[derive(Clone, Debug, Default)]
struct BackendRecord {
    headers: Vec<(String, String)>,
    trailers: Vec<(String, String)>,
    h2: bool,
}

struct Shared {
    cases: Vec<Case>,
    seed: u64,
    records: Mutex<HashMap<u64, BackendRecord>>,
    verbose: bool,
}

impl Shared {
    fn alt(&self, case: &Case, salt: u64) -> u64 {
        splitmix(self.seed ^ (case.raw["h"].as_u64().unwrap_or(0) << 8) ^ salt)
    }
}

/// exchange id -> (case idx, attempt)
fn xid(case: usize, attempt: u64) -> u64 {
    case as u64 * 4 + attempt
}

fn parse_xid(path: &str) -> Option<u64> {
    let p = path.rsplit('/').next()?;
    p.strip_prefix('x')?.parse().ok()
}

/// the header fields the backend is scripted to answer with (H1 spelling)
fn scripted_response(sh: &Shared, id: u64) -> Vec<(String, String)> {
    let Some(case) = sh.cases.get((id / 4) as usize) else { return vec![] };
    case.resp
        .iter()
        .enumerate()
        .map(|(i, t)| {
            let (n, v) = token_field(t, &case.k, sh.alt(case, 77) % 2 == 1);
            // spelling of the name: canonical / lower / upper / alternating, by position
            (vary_case(&n, sh.alt(case, 300 + i as u64 * 13) >> 3), v)
        })
        .collect()
}

// ---------------------------------------------------------------------------------------------
// recording backends

fn find(hay: &[u8], needle: &[u8]) -> Option<usize> {
    hay.windows(needle.len()).position(|w| w == needle)
}

struct ByteConn {
    s: TcpStream,
    buf: Vec<u8>,
}

impl ByteConn {
    fn fill(&mut self) -> bool {
        let mut tmp = [0u8; 16384];
        match self.s.read(&mut tmp) {
            Ok(0) => false,
            Ok(n) => {
                self.buf.extend_from_slice(&tmp[..n]);
                true
            }
            Err(_) => false,
        }
    }
    fn read_until(&mut self, needle: &[u8]) -> Option<Vec<u8>> {
        loop {
            if let Some(p) = find(&self.buf, needle) {
                let out = self.buf[..p].to_vec();
                self.buf.drain(..p + needle.len());
                return Some(out);
            }
            if !self.fill() {
                return None;
            }
        }
    }
    fn read_n(&mut self, n: usize) -> Option<Vec<u8>> {
        while self.buf.len() < n {
            if !self.fill() {
                return None;
            }
        }
        Some(self.buf.drain(..n).collect())
    }
}

fn parse_fields(block: &[u8]) -> Vec<(String, String)> {
    let mut out = Vec::new();
    for line in block.split(|&b| b == b'\n') {
        let line = if line.ends_with(b"\r") { &line[..line.len() - 1] } else { line };
        if line.is_empty() {
            continue;
        }
        let l = String::from_utf8_lossy(line).to_string();
        match l.find(':') {
            Some(p) => out.push((l[..p].to_ascii_lowercase(), l[p + 1..].trim_matches(|c| c == ' ' || c == '\t').to_string())),
            None => out.push((format!("!malformed:{l}"), String::new())),
        }
    }
    out
}

/// body framing shared by request (backend side) and response (client side) parsing.
/// Returns trailers.
fn read_h1_body(c: &mut ByteConn, headers: &[(String, String)], close_delimited_ok: bool) -> Option<Vec<(String, String)>> {
    let chunked = headers.iter().any(|(n, v)| n == "transfer-encoding" && v.to_ascii_lowercase().contains("chunked"));
    if chunked {
        loop {
            let line = c.read_until(b"\r\n")?;
            let l = String::from_utf8_lossy(&line).to_string();
            let parsed = usize::from_str_radix(l.split(';').next().unwrap_or("").trim(), 16).ok();
            if parsed.is_none() && l.is_empty() {
                // same anomaly with every trailer field filtered out: the section is just the empty line
                MISSING_LAST_CHUNK.fetch_add(1, Ordering::Relaxed);
                return Some(vec![]);
            }
            if parsed.is_none() && l.contains(':') {
                // sozu currently omits the last-chunk line ("0") in front of a trailer section converted
                // from HTTP/2 (request framing: C03's subject). Stay lenient so that the trailer FIELDS,
                // which are C13's subject, can still be observed; the anomaly is counted.
                MISSING_LAST_CHUNK.fetch_add(1, Ordering::Relaxed);
                let mut trailers = parse_fields(&line);
                loop {
                    let t = c.read_until(b"\r\n")?;
                    if t.is_empty() {
                        return Some(trailers);
                    }
                    trailers.extend(parse_fields(&t));
                }
            }
            let size = parsed?;
            if size == 0 {
                // trailer section up to the empty line
                let mut trailers = Vec::new();
                loop {
                    let t = c.read_until(b"\r\n")?;
                    if t.is_empty() {
                        return Some(trailers);
                    }
                    trailers.extend(parse_fields(&t));
                }
            }
            c.read_n(size + 2)?;
        }
    }
    if let Some((_, v)) = headers.iter().find(|(n, _)| n == "content-length") {
        let n: usize = v.trim().parse().ok()?;
        c.read_n(n)?;
        return Some(vec![]);
    }
    if close_delimited_ok {
        while c.fill() {}
    }
    Some(vec![])
}

fn h1_backend_conn(sh: Arc<Shared>, s: TcpStream) {
    s.set_read_timeout(Some(Duration::from_secs(30))).ok();
    s.set_nodelay(true).ok();
    let mut c = ByteConn { s, buf: Vec::new() };
    loop {
        if sh.verbose {
            c.fill();
            std::thread::sleep(Duration::from_millis(200));
            c.s.set_read_timeout(Some(Duration::from_millis(200))).ok();
            c.fill();
            eprintln!("h1 backend raw: {:?}", String::from_utf8_lossy(&c.buf));
        }
        let Some(head) = c.read_until(b"\r\n\r\n") else { return };
        let mut lines = head.splitn(2, |&b| b == b'\n');
        let reqline = String::from_utf8_lossy(lines.next().unwrap_or(b"")).trim().to_string();
        let fields = parse_fields(lines.next().unwrap_or(b""));
        let path = reqline.split(' ').nth(1).unwrap_or("").to_string();
        let Some(trailers) = read_h1_body(&mut c, &fields, false) else { return };
        let id = parse_xid(&path);
        if let Some(id) = id {
            sh.records.lock().unwrap().insert(id, BackendRecord { headers: fields, trailers, h2: false });
        }
        let scripted = id.map(|id| scripted_response(&sh, id)).unwrap_or_default();
        let mut out = b"HTTP/1.1 200 OK\r\n".to_vec();
        // After "Connection: close" the backend leaves the closing to sozu: closing here races with
        // sozu's connection reuse (a failed reuse marks the backend down and later requests get 503),
        // which is connection management (C02/C12), not header editing.
        let mut chunked = false;
        for (n, v) in &scripted {
            chunked |= n.eq_ignore_ascii_case("transfer-encoding");
            out.extend_from_slice(format!("{n}: {v}\r\n").as_bytes());
        }
        if chunked {
            out.extend_from_slice(b"\r\n2\r\nok\r\n0\r\n\r\n");
        } else {
            out.extend_from_slice(b"Content-Length: 2\r\n\r\nok");
        }
        if c.s.write_all(&out).is_err() {
            return;
        }
    }
}

#[derive(Default)]
struct H2Stream {
    block: Vec<u8>,
    headers: Option<Vec<(String, String)>>,
    trailers: Vec<(String, String)>,
    path: String,
}

fn lc_fields(h: Vec<(Vec<u8>, Vec<u8>)>) -> Vec<(String, String)> {
    h.into_iter().map(|(k, v)| (String::from_utf8_lossy(&k).to_string(), String::from_utf8_lossy(&v).to_string())).collect()
}

fn h2c_backend_conn(sh: Arc<Shared>, s: TcpStream) {
    s.set_nodelay(true).ok();
    let mut b = H2Conn::new(s);
    if !b.read_client_preface(Duration::from_secs(10)) {
        return;
    }
    b.send(&Frame::settings(&[]));
    let mut streams: HashMap<u32, H2Stream> = HashMap::new();
    loop {
        let Some(f) = b.read_frame(Duration::from_secs(30)) else { return };
        if sh.verbose {
            eprintln!("h2c backend: frame ty={} flags={:#x} sid={} len={}", f.ty, f.flags, f.sid, f.payload.len());
        }
        let mut finished: Option<u32> = None;
        match f.ty {
            h2::SETTINGS => {
                if f.flags & h2::FLAG_ACK == 0 {
                    b.send(&Frame::settings_ack());
                }
            }
            h2::PING => {
                if f.flags & h2::FLAG_ACK == 0 {
                    let mut d = [0u8; 8];
                    d.copy_from_slice(&f.payload[..8.min(f.payload.len())]);
                    b.send(&Frame::ping(d, true));
                }
            }
            h2::HEADERS | h2::CONTINUATION => {
                let st = streams.entry(f.sid).or_default();
                let mut payload = f.payload.as_slice();
                if f.ty == h2::HEADERS {
                    let mut skip = 0;
                    let mut pad = 0usize;
                    if f.flags & h2::FLAG_PADDED != 0 {
                        pad = payload[0] as usize;
                        skip += 1;
                    }
                    if f.flags & h2::FLAG_PRIORITY != 0 {
                        skip += 5;
                    }
                    payload = &payload[skip..payload.len() - pad];
                }
                st.block.extend_from_slice(payload);
                let es = f.ty == h2::HEADERS && f.flags & h2::FLAG_END_STREAM != 0;
                if f.end_headers() {
                    let block = std::mem::take(&mut st.block);
                    let fields = match b.hp.decode(&block) {
                        Ok(h) => lc_fields(h),
                        Err(e) => vec![(format!("!hpack:{e}"), String::new())],
                    };
                    if st.headers.is_none() {
                        st.path = fields.iter().find(|(n, _)| n == ":path").map(|(_, v)| v.clone()).unwrap_or_default();
                        st.headers = Some(fields);
                    } else {
                        st.trailers = fields;
                    }
                }
                // A request converted from HTTP/1.1 without Content-Length arrives as HEADERS without
                // END_STREAM and the stream is only ended later (request framing is C03's subject):
                // answer as soon as the header block is complete unless the case carries trailers.
                let expects_more = parse_xid(&st.path).and_then(|id| sh.cases.get((id / 4) as usize)).map(|c| !c.tr.is_empty() || c.req.iter().any(|t| t == "tenc")).unwrap_or(false);
                if es || (f.end_headers() && st.headers.is_some() && !expects_more) {
                    finished = Some(f.sid);
                }
            }
            h2::DATA => {
                if f.end_stream() && streams.contains_key(&f.sid) {
                    finished = Some(f.sid);
                }
            }
            h2::GOAWAY => return,
            _ => {}
        }
        if let Some(sid) = finished {
            if let Some(st) = streams.remove(&sid) {
                let id = parse_xid(&st.path);
                if let Some(id) = id {
                    sh.records.lock().unwrap().insert(id, BackendRecord { headers: st.headers.unwrap_or_default(), trailers: st.trailers, h2: true });
                }
                let scripted = id.map(|id| scripted_response(&sh, id)).unwrap_or_default();
                let mut hs: Vec<(Vec<u8>, Vec<u8>)> = vec![(b":status".to_vec(), b"200".to_vec())];
                for (n, v) in scripted {
                    hs.push((n.to_ascii_lowercase().into_bytes(), v.into_bytes()));
                }
                hs.push((b"content-length".to_vec(), b"2".to_vec()));
                let blk = b.hp.encode_owned(&hs);
                b.send(&Frame::headers(sid, blk, true, false));
                b.send(&Frame::data(sid, b"ok".to_vec(), true));
            }
        }
    }
}

fn spawn_backend(sh: Arc<Shared>, h2c: bool) -> SocketAddr {
    let l = TcpListener::bind("127.0.0.1:0").expect("bind backend");
    let addr = l.local_addr().unwrap();
    std::thread::spawn(move || {
        for s in l.incoming() {
            let Ok(s) = s else { continue };
            let sh = sh.clone();
            std::thread::spawn(move || if h2c { h2c_backend_conn(sh, s) } else { h1_backend_conn(sh, s) });
        }
    });
    addr
}

// ---------------------------------------------------------------------------------------------
// sozu workers

fn free_addr_for(fam: u8) -> SocketAddr {
    if fam == 1 {
        loop {
            let p = free_port();
            let a: SocketAddr = format!("[::1]:{p}").parse().unwrap();
            if TcpListener::bind(a).is_ok() {
                return a;
            }
        }
    } else {
        SocketAddr::from(([127, 0, 0, 1], free_port()))
    }
}

fn frontend_headers(edits: &str) -> Vec<Header> {
    match edits {
        "set" => vec![
            Header { position: HeaderPosition::Request as i32, key: "X-Op".into(), val: "opv".into() },
            Header { position: HeaderPosition::Response as i32, key: "X-Rop".into(), val: "ropv".into() },
        ],
        "del" => vec![
            Header { position: HeaderPosition::Request as i32, key: "X-A".into(), val: String::new() },
            Header { position: HeaderPosition::Response as i32, key: "X-R".into(), val: String::new() },
        ],
        _ => vec![],
    }
}

/// Start one sozu worker serving the given listener configurations. Returns the worker and the
/// address of each listener.
fn start_worker(
    name: &str,
    keys: &[(ListenerKey, BTreeSet<(String, String, String)>)], // (prefix, cluster, edits) needed on each
    back_h1: SocketAddr,
    back_h2c: SocketAddr,
) -> Result<(Worker, HashMap<ListenerKey, SocketAddr>), String> {
    let t = Duration::from_secs(20);
    let mut w = Worker::start_empty(name);
    let mut addrs = HashMap::new();
    for h2c in [false, true] {
        for sticky in [false, true] {
            let id = format!("c-{}-s{}", if h2c { "h2c" } else { "h1" }, sticky as u8);
            let cl = Cluster { cluster_id: id.clone(), sticky_session: sticky, https_redirect: false, http2: if h2c { Some(true) } else { None }, ..Default::default() };
            if !ok(&w.request(RequestType::AddCluster(cl), t)) {
                return Err(format!("AddCluster {id} failed"));
            }
            let be = AddBackend {
                cluster_id: id.clone(),
                backend_id: format!("{id}-0"),
                address: (if h2c { back_h2c } else { back_h1 }).into(),
                load_balancing_parameters: Some(LoadBalancingParams::default()),
                sticky_id: Some(SID_GOOD.to_string()),
                backup: None,
            };
            if !ok(&w.request(RequestType::AddBackend(be), t)) {
                return Err(format!("AddBackend {id} failed"));
            }
        }
    }
    for (key, fronts) in keys {
        let addr = free_addr_for(key.fam);
        let sticky = if key.sticky_custom { STICKY_CUSTOM } else { STICKY_DEFAULT };
        let corr = if key.corr_custom { Some(CORR_CUSTOM.to_string()) } else { None };
        if key.tls {
            let mut b = ListenerBuilder::new_https(addr.into());
            b.with_elide_x_real_ip(key.elide).with_send_x_real_ip(key.send).with_expect_proxy(key.fam == 2).with_sticky_name(Some(sticky));
            let mut l = b.to_tls(None).map_err(|e| format!("https listener: {e}"))?;
            l.sozu_id_header = corr;
            if key.hsts {
                l.hsts = Some(HstsConfig { enabled: Some(true), max_age: Some(1000), include_subdomains: Some(true), preload: None, force_replace_backend: None });
            }
            let a = w.request(RequestType::AddHttpsListener(l), t);
            let b2 = w.request(RequestType::ActivateListener(ActivateListener { address: addr.into(), proxy: ListenerType::Https.into(), from_scm: false }), t);
            let c = w.request(
                RequestType::AddCertificate(AddCertificate {
                    address: addr.into(),
                    certificate: CertificateAndKey { certificate: LOCAL_CERT.to_string(), key: LOCAL_KEY.to_string(), certificate_chain: vec![], versions: vec![], names: vec![] },
                    expired_at: None,
                }),
                t,
            );
            if !(ok(&a) && ok(&b2) && ok(&c)) {
                return Err(format!("https listener setup failed for {key:?}: {a:?} {b2:?} {c:?}"));
            }
        } else {
            let mut b = ListenerBuilder::new_http(addr.into());
            b.with_elide_x_real_ip(key.elide).with_send_x_real_ip(key.send).with_expect_proxy(key.fam == 2).with_sticky_name(Some(sticky));
            let mut l = b.to_http(None).map_err(|e| format!("http listener: {e}"))?;
            l.sozu_id_header = corr;
            let a = w.request(RequestType::AddHttpListener(l), t);
            let b2 = w.request(RequestType::ActivateListener(ActivateListener { address: addr.into(), proxy: ListenerType::Http.into(), from_scm: false }), t);
            if !(ok(&a) && ok(&b2)) {
                return Err(format!("http listener setup failed for {key:?}: {a:?} {b2:?}"));
            }
        }
        for (prefix, cluster, edits) in fronts {
            let f = RequestHttpFrontend {
                cluster_id: Some(cluster.clone()),
                address: addr.into(),
                hostname: "localhost".into(),
                path: PathRule::prefix(prefix.clone()),
                position: RulePosition::Tree.into(),
                headers: frontend_headers(edits),
                ..Default::default()
            };
            let r = if key.tls { w.request(RequestType::AddHttpsFrontend(f), t) } else { w.request(RequestType::AddHttpFrontend(f), t) };
            if !ok(&r) {
                return Err(format!("frontend {prefix} on {key:?} failed: {r:?}"));
            }
        }
        addrs.insert(key.clone(), addr);
    }
    Ok((w, addrs))
}

// ---------------------------------------------------------------------------------------------
// client side

enum Stream {
    Plain(TcpStream),
    Tls(Box<h2::TlsStream>),
}

impl Read for Stream {
    fn read(&mut self, b: &mut [u8]) -> std::io::Result<usize> {
        match self {
            Stream::Plain(s) => s.read(b),
            Stream::Tls(s) => s.read(b),
        }
    }
}
impl Write for Stream {
    fn write(&mut self, b: &[u8]) -> std::io::Result<usize> {
        match self {
            Stream::Plain(s) => s.write(b),
            Stream::Tls(s) => s.write(b),
        }
    }
    fn flush(&mut self) -> std::io::Result<()> {
        match self {
            Stream::Plain(s) => s.flush(),
            Stream::Tls(s) => s.flush(),
        }
    }
}
impl h2::SetTimeout for Stream {
    fn set_timeout(&mut self, t: Duration) {
        match self {
            Stream::Plain(s) => {
                s.set_read_timeout(Some(t)).ok();
            }
            Stream::Tls(s) => {
                s.sock.set_read_timeout(Some(t)).ok();
            }
        }
    }
}

/// concrete addresses of one client connection
#[derive(Clone, Debug)]
struct Truth {
    peer: SocketAddr,   // true client address (socket local address, or PROXY source)
    public: SocketAddr, // address the listener was reached on (listener address, or PROXY destination)
}

fn connect(addr: SocketAddr, peer_class: &str, tls: bool, alpn: &[u8], salt: u64) -> Result<(Stream, Truth), String> {
    let tcp = TcpStream::connect_timeout(&addr, Duration::from_secs(5)).map_err(|e| format!("connect {addr}: {e}"))?;
    tcp.set_nodelay(true).ok();
    tcp.set_read_timeout(Some(exchange_timeout())).ok();
    tcp.set_write_timeout(Some(exchange_timeout())).ok();
    let mut truth = Truth { peer: tcp.local_addr().map_err(|e| e.to_string())?, public: addr };
    let mut tcp = tcp;
    if peer_class == "pv4" || peer_class == "pv6" {
        let port = 20000 + (salt % 30000) as u16;
        let (src, dst): (SocketAddr, SocketAddr) = if peer_class == "pv4" {
            (format!("203.0.113.7:{port}").parse().unwrap(), "198.51.100.9:8443".parse().unwrap())
        } else {
            (format!("[2001:db8::7]:{port}").parse().unwrap(), "[2001:db8::9]:9443".parse().unwrap())
        };
        let bytes = HeaderV2::new(Command::Proxy, src, dst).into_bytes();
        // the PROXY header travels in its own segment, ahead of the first protocol byte
        tcp.write_all(&bytes).and_then(|_| tcp.flush()).map_err(|e| format!("write proxy header: {e}"))?;
        std::thread::sleep(Duration::from_millis(4));
        truth = Truth { peer: src, public: dst };
    }
    if !tls {
        return Ok((Stream::Plain(tcp), truth));
    }
    let _ = rustls::crypto::ring::default_provider().install_default();
    let verifier = Arc::new(h2::RecordingVerifier { leaf: Mutex::new(None) });
    let mut config = rustls::ClientConfig::builder().dangerous().with_custom_certificate_verifier(verifier).with_no_client_auth();
    config.alpn_protocols = vec![alpn.to_vec()];
    let name = rustls::pki_types::ServerName::try_from("localhost".to_string()).map_err(|e| format!("{e}"))?;
    let conn = rustls::ClientConnection::new(Arc::new(config), name).map_err(|e| format!("{e}"))?;
    let mut s = rustls::StreamOwned::new(conn, tcp);
    while s.conn.is_handshaking() {
        s.conn.complete_io(&mut s.sock).map_err(|e| format!("tls handshake: {e}"))?;
    }
    if s.conn.alpn_protocol() != Some(alpn) {
        return Err(format!("ALPN {:?} not negotiated", String::from_utf8_lossy(alpn)));
    }
    Ok((Stream::Tls(Box::new(s)), truth))
}

#[derive(Debug, Default)]
struct ClientSeen {
    status: String,
    headers: Vec<(String, String)>,
    trailers: Vec<(String, String)>,
    reset: Option<String>, // H2: RST_STREAM / GOAWAY description
}

/// what was sent for each token of the case (canonical lower-case name, value)
struct Sent {
    req: Vec<(String, String)>,
    tr: Vec<(String, String)>,
}

fn build_fields(sh: &Shared, case: &Case, toks: &[String], lower: bool, salt: u64) -> (Vec<(String, String)>, Vec<(String, String)>) {
    // returns (wire fields, canonical fields)
    let mut wire = Vec::new();
    let mut canon = Vec::new();
    for (i, t) in toks.iter().enumerate() {
        // the value variant depends on the token only (a token occurring twice carries one value), the
        // spelling of the name on the position too
        let tv = sh.alt(case, t.bytes().fold(7u64, |a, b| a.wrapping_mul(31).wrapping_add(b as u64)));
        let r = sh.alt(case, salt + i as u64 * 13);
        let (n, v) = token_field(t, &case.k, tv % 2 == 1);
        canon.push((n.to_ascii_lowercase(), v.clone()));
        let name = if lower { n.to_ascii_lowercase() } else { vary_case(&n, r >> 3) };
        if lower && n == "Cookie" && (r >> 7) % 2 == 1 {
            // HTTP/2 clients may send one cookie field per crumb
            for c in v.split("; ") {
                wire.push((name.clone(), c.to_string()));
            }
        } else {
            wire.push((name, v));
        }
    }
    (wire, canon)
}

struct H1Lane {
    conn: Option<(ByteConn2, Truth)>,
}

struct ByteConn2 {
    s: Stream,
    buf: Vec<u8>,
}

impl ByteConn2 {
    fn fill(&mut self) -> bool {
        let mut tmp = [0u8; 16384];
        match self.s.read(&mut tmp) {
            Ok(0) => false,
            Ok(n) => {
                self.buf.extend_from_slice(&tmp[..n]);
                true
            }
            Err(_) => false,
        }
    }
    fn read_until(&mut self, needle: &[u8]) -> Option<Vec<u8>> {
        loop {
            if let Some(p) = find(&self.buf, needle) {
                let out = self.buf[..p].to_vec();
                self.buf.drain(..p + needle.len());
                return Some(out);
            }
            if !self.fill() {
                return None;
            }
        }
    }
    fn read_n(&mut self, n: usize) -> Option<Vec<u8>> {
        while self.buf.len() < n {
            if !self.fill() {
                return None;
            }
        }
        Some(self.buf.drain(..n).collect())
    }
    fn read_body(&mut self, headers: &[(String, String)]) -> Option<Vec<(String, String)>> {
        let chunked = headers.iter().any(|(n, v)| n == "transfer-encoding" && v.to_ascii_lowercase().contains("chunked"));
        if chunked {
            loop {
                let line = self.read_until(b"\r\n")?;
                let l = String::from_utf8_lossy(&line).to_string();
                let size = usize::from_str_radix(l.split(';').next().unwrap_or("").trim(), 16).ok()?;
                if size == 0 {
                    let mut trailers = Vec::new();
                    loop {
                        let t = self.read_until(b"\r\n")?;
                        if t.is_empty() {
                            return Some(trailers);
                        }
                        trailers.extend(parse_fields(&t));
                    }
                }
                self.read_n(size + 2)?;
            }
        }
        if let Some((_, v)) = headers.iter().find(|(n, _)| n == "content-length") {
            let n: usize = v.trim().parse().ok()?;
            self.read_n(n)?;
            return Some(vec![]);
        }
        while self.fill() {}
        Some(vec![])
    }
}

fn h1_exchange(sh: &Shared, lane: &mut H1Lane, addr: SocketAddr, case: &Case, attempt: u64) -> Result<(ClientSeen, Sent, Truth), String> {
    if lane.conn.is_none() {
        let (s, truth) = connect(addr, &case.k.peer, case.k.tls, b"http/1.1", sh.alt(case, 5))?;
        lane.conn = Some((ByteConn2 { s, buf: Vec::new() }, truth));
    }
    let id = xid(case.idx, attempt);
    let (wire, canon) = build_fields(sh, case, &case.req, false, 100);
    let (twire, tcanon) = build_fields(sh, case, &case.tr, false, 200);
    let mut out = format!("GET {}x{} HTTP/1.1\r\nHost: localhost\r\n", case.k.prefix(), id).into_bytes();
    // "tenc": the Transfer-Encoding field is written where the token stands (any spelling) and the body is chunked
    let tenc = case.req.iter().any(|t| t == "tenc");
    for (n, v) in &wire {
        out.extend_from_slice(format!("{n}: {v}\r\n").as_bytes());
    }
    if tenc {
        out.extend_from_slice(b"\r\n3\r\nabc\r\n0\r\n");
        for (n, v) in &twire {
            out.extend_from_slice(format!("{n}: {v}\r\n").as_bytes());
        }
        out.extend_from_slice(b"\r\n");
    } else if case.tr.is_empty() {
        if std::env::var("C13_CL0").is_ok() {
            out.extend_from_slice(b"Content-Length: 0\r\n");
        }
        out.extend_from_slice(b"\r\n");
    } else {
        out.extend_from_slice(b"Transfer-Encoding: chunked\r\n\r\n3\r\nabc\r\n0\r\n");
        for (n, v) in &twire {
            out.extend_from_slice(format!("{n}: {v}\r\n").as_bytes());
        }
        out.extend_from_slice(b"\r\n");
    }
    // (a second request on a kept-alive H1 connection toward an H2 backend currently fails in sozu with
    // "CANNOT RECEIVE Headers ON THIS STREAM": an exchange-lifecycle matter outside C13, so those lanes
    // use one connection per case)
    let keep = !case.k.h2c_back
        && !case.req.iter().any(|t| ["cClose", "cKA", "cHop", "cUpg", "upg", "h2s", "teTr", "teGz"].contains(&t.as_str()))
        && !case.resp.iter().any(|t| ["rClose", "rCHop", "rUpg"].contains(&t.as_str()));
    let (c, truth) = lane.conn.as_mut().unwrap();
    let truth = truth.clone();
    let res = (|| -> Result<ClientSeen, String> {
        c.s.write_all(&out).and_then(|_| c.s.flush()).map_err(|e| format!("write request: {e}"))?;
        let head = c.read_until(b"\r\n\r\n").ok_or("no response head (connection closed or timed out)")?;
        let mut lines = head.splitn(2, |&b| b == b'\n');
        let status = String::from_utf8_lossy(lines.next().unwrap_or(b"")).trim().to_string();
        let headers = parse_fields(lines.next().unwrap_or(b""));
        let trailers = c.read_body(&headers).ok_or("truncated response body")?;
        Ok(ClientSeen { status, headers, trailers, reset: None })
    })();
    if !keep || res.is_err() || res.as_ref().map(|r| r.headers.iter().any(|(n, v)| n == "connection" && v.eq_ignore_ascii_case("close"))).unwrap_or(true) {
        lane.conn = None;
    }
    res.map(|r| (r, Sent { req: canon, tr: tcanon }, truth))
}

struct H2Lane {
    conn: Option<(H2Conn<Stream>, Truth)>,
    next_sid: u32,
}

fn h2_exchange(sh: &Shared, lane: &mut H2Lane, addr: SocketAddr, case: &Case, attempt: u64) -> Result<(ClientSeen, Sent, Truth), String> {
    if lane.conn.is_none() {
        let (s, truth) = connect(addr, &case.k.peer, true, b"h2", sh.alt(case, 5))?;
        let mut c = H2Conn::new(s);
        if !c.client_preface(&[]) {
            return Err("could not send the H2 preface".into());
        }
        lane.conn = Some((c, truth));
        lane.next_sid = 1;
    }
    let id = xid(case.idx, attempt);
    let (wire, canon) = build_fields(sh, case, &case.req, true, 100);
    let (twire, tcanon) = build_fields(sh, case, &case.tr, true, 200);
    let sid = lane.next_sid;
    lane.next_sid += 2;
    let (c, truth) = lane.conn.as_mut().unwrap();
    let truth = truth.clone();
    let path = format!("{}x{}", case.k.prefix(), id);
    let mut hs: Vec<(Vec<u8>, Vec<u8>)> = vec![
        (b":method".to_vec(), if case.tr.is_empty() { b"GET".to_vec() } else { b"POST".to_vec() }),
        (b":scheme".to_vec(), b"https".to_vec()),
        (b":authority".to_vec(), b"localhost".to_vec()),
        (b":path".to_vec(), path.into_bytes()),
    ];
    for (n, v) in &wire {
        hs.push((n.clone().into_bytes(), v.clone().into_bytes()));
    }
    let res = (|| -> Result<ClientSeen, String> {
        let block = c.hp.encode_owned(&hs);
        let mut bytes = Frame::headers(sid, block, true, case.tr.is_empty()).encode();
        if !case.tr.is_empty() {
            bytes.extend_from_slice(&Frame::data(sid, b"abc".to_vec(), false).encode());
            let t: Vec<(Vec<u8>, Vec<u8>)> = twire.iter().map(|(n, v)| (n.clone().into_bytes(), v.clone().into_bytes())).collect();
            let tb = c.hp.encode_owned(&t);
            bytes.extend_from_slice(&Frame::headers(sid, tb, true, true).encode());
        }
        if !c.send_raw(&bytes) {
            return Err(format!("write request: {:?}", c.io_error));
        }
        let deadline = Instant::now() + exchange_timeout();
        let mut seen = ClientSeen::default();
        let mut blocks: HashMap<u32, Vec<u8>> = HashMap::new();
        let mut got_headers = false;
        loop {
            let now = Instant::now();
            if now >= deadline {
                return Err("timed out waiting for the H2 response".into());
            }
            let Some(f) = c.read_frame(deadline - now) else {
                if c.eof {
                    return Err(format!("H2 connection closed ({:?})", c.io_error));
                }
                continue;
            };
            match f.ty {
                h2::SETTINGS => {
                    if f.flags & h2::FLAG_ACK == 0 {
                        c.send(&Frame::settings_ack());
                    }
                }
                h2::PING => {
                    if f.flags & h2::FLAG_ACK == 0 && f.payload.len() == 8 {
                        let mut d = [0u8; 8];
                        d.copy_from_slice(&f.payload);
                        c.send(&Frame::ping(d, true));
                    }
                }
                h2::HEADERS | h2::CONTINUATION => {
                    let mut payload = f.payload.as_slice();
                    if f.ty == h2::HEADERS {
                        let mut skip = 0;
                        let mut pad = 0usize;
                        if f.flags & h2::FLAG_PADDED != 0 {
                            pad = payload[0] as usize;
                            skip += 1;
                        }
                        if f.flags & h2::FLAG_PRIORITY != 0 {
                            skip += 5;
                        }
                        payload = &payload[skip..payload.len() - pad];
                    }
                    blocks.entry(f.sid).or_default().extend_from_slice(payload);
                    let es = f.ty == h2::HEADERS && f.flags & h2::FLAG_END_STREAM != 0;
                    if f.end_headers() {
                        let block = blocks.remove(&f.sid).unwrap_or_default();
                        let fields = c.hp.decode(&block).map(lc_fields).map_err(|e| format!("hpack decode: {e}"))?;
                        if f.sid == sid {
                            if !got_headers {
                                seen.status = fields.iter().find(|(n, _)| n == ":status").map(|(_, v)| v.clone()).unwrap_or_default();
                                seen.headers = fields;
                                got_headers = true;
                            } else {
                                seen.trailers = fields;
                            }
                        }
                    }
                    if es && f.sid == sid {
                        return Ok(seen);
                    }
                }
                h2::DATA => {
                    if f.sid == sid && f.end_stream() {
                        return Ok(seen);
                    }
                }
                h2::RST_STREAM => {
                    if f.sid == sid {
                        seen.reset = Some(format!("RST_STREAM code={}", f.u32_at(0).unwrap_or(999)));
                        return Ok(seen);
                    }
                }
                h2::GOAWAY => {
                    seen.reset = Some(format!("GOAWAY code={}", f.u32_at(4).unwrap_or(999)));
                    return Err(format!("GOAWAY code={}", f.u32_at(4).unwrap_or(999)));
                }
                _ => {}
            }
        }
    })();
    if res.is_err() || lane.next_sid > 4000 {
        lane.conn = None;
    }
    res.map(|r| (r, Sent { req: canon, tr: tcanon }, truth))
}

// ---------------------------------------------------------------------------------------------
// comparison with the spec's prediction

fn is_ulid(s: &str) -> bool {
    s.len() == 26 && s.bytes().all(|b| b.is_ascii_digit() || (b.is_ascii_uppercase() && !b"ILOU".contains(&b)))
}

fn ip_literal(a: &SocketAddr) -> String {
    match a {
        SocketAddr::V4(x) => x.ip().to_string(),
        SocketAddr::V6(x) => format!("[{}]", x.ip()),
    }
}

struct Resolver<'a> {
    k: &'a Cfg,
    truth: &'a Truth,
    toks: HashMap<String, String>, // token -> value as sent
}

impl Resolver<'_> {
    fn name(&self, n: &str) -> String {
        if n == "CORR" { self.k.corr().to_ascii_lowercase() } else { n.to_string() }
    }
    /// None = the ID wildcard
    fn value(&self, v: &Value) -> Option<String> {
        let mut parts = Vec::new();
        for a in v.as_array().unwrap() {
            let x = a["x"].as_str().unwrap();
            if a["t"] == "tok" {
                parts.push(self.toks.get(x).cloned().unwrap_or_else(|| format!("?{x}")));
                continue;
            }
            match x {
                "ID" => return None,
                "IP" => parts.push(self.truth.peer.ip().to_string()),
                "FWD" => {
                    let by = match &self.truth.public {
                        SocketAddr::V4(p) => p.ip().to_string(),
                        SocketAddr::V6(p) => format!("\"[{}]\"", p.ip()),
                    };
                    parts.push(format!("proto={};for=\"{}:{}\";by={}", a["proto"].as_str().unwrap(), ip_literal(&self.truth.peer), self.truth.peer.port(), by));
                }
                "PORT" => parts.push(self.truth.public.port().to_string()),
                "SCHEME" => parts.push(a["a"].as_str().unwrap().to_string()),
                "STICKYSET" => parts.push(format!("{}={}; Path=/", self.k.sticky(), SID_GOOD)),
                "HSTS" => parts.push(HSTS_VALUE.to_string()),
                "LIT" => parts.push(a["a"].as_str().unwrap().to_string()),
                other => parts.push(format!("?sym:{other}")),
            }
        }
        Some(parts.join(", "))
    }
}

const FRAMING: [&str; 3] = ["host", "content-length", "transfer-encoding"];

/// Compare an observed field list with the predicted elements. Returns a list of discrepancies and
/// the id values bound to the ID wildcard.
fn compare_fields(
    what: &str,
    expected: &Value,
    actual: &[(String, String)],
    res: &Resolver,
    ignore_cookie: bool,
    h2_leg: bool,
    may: Option<&Value>,
    ids: &mut Vec<String>,
    problems: &mut Vec<String>,
) -> usize {
    let mut rest: Vec<(String, String)> = Vec::new();
    for (n, v) in actual {
        if n.starts_with(':') {
            continue;
        }
        if FRAMING.contains(&n.as_str()) {
            if h2_leg && n == "transfer-encoding" {
                problems.push(format!("{what}: connection-specific field transfer-encoding on an HTTP/2 leg"));
            }
            continue;
        }
        if ignore_cookie && n == "cookie" {
            continue;
        }
        rest.push((n.clone(), v.clone()));
    }
    let exp: Vec<(String, Option<String>, String)> = expected
        .as_array()
        .unwrap()
        .iter()
        .map(|e| (res.name(e["n"].as_str().unwrap()), res.value(&e["v"]), e["src"].as_str().unwrap().to_string()))
        // framing fields are not compared on HTTP/1.1 legs (C03); on an HTTP/2 leg the spec never predicts one
        // and an observed transfer-encoding was flagged above
        .filter(|e| !FRAMING.contains(&e.0.as_str()))
        .collect();
    // 1. proxy / operator elements: anywhere, exactly once each
    for (n, v, src) in exp.iter().filter(|e| e.2 == "proxy" || e.2 == "op") {
        let pos = rest.iter().position(|(an, av)| an == n && match v {
            Some(v) => av == v,
            None => is_ulid(av),
        });
        match pos {
            Some(p) => {
                let (_, av) = rest.remove(p);
                if v.is_none() {
                    ids.push(av);
                }
            }
            None => problems.push(format!("{what}: expected {src}-added field {n}: {} is missing", v.clone().unwrap_or_else(|| "<request id>".into()))),
        }
    }
    // 1b. elements the spec leaves free: at most once each
    let mut optional_seen = 0;
    if let Some(may) = may.and_then(|m| m.as_array()) {
        for e in may {
            let (n, v) = (res.name(e["n"].as_str().unwrap()), res.value(&e["v"]));
            if let Some(p) = rest.iter().position(|(an, av)| *an == n && Some(av) == v.as_ref()) {
                rest.remove(p);
                optional_seen += 1;
            }
        }
    }
    // 2. what remains must be exactly the peer's fields, in the peer's order
    let peer_fields: Vec<(String, String)> = exp.iter().filter(|e| e.2 != "proxy" && e.2 != "op").map(|e| (e.0.clone(), e.1.clone().unwrap_or_default())).collect();
    if rest != peer_fields {
        problems.push(format!("{what}: fields other than the proxy's additions differ: expected {peer_fields:?}, observed {rest:?}"));
    }
    optional_seen
}

fn check_case(sh: &Shared, case: &Case, seen: &ClientSeen, sent: &Sent, truth: &Truth, rec: Option<&BackendRecord>, stats: &Stats) -> Vec<String> {
    let mut problems = Vec::new();
    let ereq = &case.raw["ereq"];
    let mut toks: HashMap<String, String> = HashMap::new();
    for (t, (_, v)) in case.req.iter().zip(sent.req.iter()) {
        toks.insert(t.clone(), v.clone());
    }
    for (t, (_, v)) in case.tr.iter().zip(sent.tr.iter()) {
        toks.insert(t.clone(), v.clone());
    }
    let alt = sh.alt(case, 77) % 2 == 1;
    for t in &case.resp {
        toks.insert(t.clone(), token_field(t, &case.k, alt).1);
    }
    let res = Resolver { k: &case.k, truth, toks };
    let mut ids: Vec<String> = Vec::new();
    if ereq["outcome"] == "reject" {
        stats.rejects.fetch_add(1, Ordering::Relaxed);
        if rec.is_some() {
            problems.push("request: the spec rejects this request at the frontend, but a backend received it".into());
        }
        if seen.reset.is_none() && !seen.status.starts_with('4') {
            problems.push(format!("request: expected a stream error or 4xx, client saw status {:?}", seen.status));
        }
        return problems;
    }
    let Some(rec) = rec else {
        problems.push(format!("request: no backend received the request (client saw status {:?} reset {:?})", seen.status, seen.reset));
        return problems;
    };
    if rec.h2 != case.k.h2c_back {
        problems.push("request reached the wrong kind of backend".into());
    }
    // request header fields
    compare_fields("request", &ereq["hdrs"], &rec.headers, &res, true, rec.h2, None, &mut ids, &mut problems);
    // cookies: crumbs in order, however they are packed into fields
    let mut crumbs: Vec<String> = Vec::new();
    for (n, v) in &rec.headers {
        if n == "cookie" {
            if v.trim().is_empty() {
                stats.empty_cookie.fetch_add(1, Ordering::Relaxed);
            }
            crumbs.extend(v.split(';').map(|c| c.trim().to_string()).filter(|c| !c.is_empty()));
        }
    }
    let ecrumbs: Vec<String> = strs(&ereq["cookies"]).iter().map(|c| crumb_text(c, &case.k)).collect();
    if crumbs != ecrumbs {
        problems.push(format!("request: cookie crumbs differ: expected {ecrumbs:?}, observed {crumbs:?}"));
    }
    // trailers
    compare_fields("request trailers", &ereq["trailers"], &rec.trailers, &res, false, rec.h2, None, &mut ids, &mut problems);
    // response
    if seen.reset.is_some() || !(seen.status.contains("200")) {
        problems.push(format!("response: client saw status {:?} reset {:?} instead of the backend's 200", seen.status, seen.reset));
    } else {
        let n = compare_fields("response", &case.raw["eresp"]["hdrs"], &seen.headers, &res, false, case.k.h2_front, Some(&case.raw["eresp"]["may"]), &mut ids, &mut problems);
        stats.sticky_set.fetch_add(n as u64, Ordering::Relaxed);
        if case.raw["eresp"]["may"].as_array().map(|a| !a.is_empty()).unwrap_or(false) {
            stats.sticky_due.fetch_add(1, Ordering::Relaxed);
        }
        if !seen.trailers.is_empty() {
            problems.push(format!("response: unexpected trailers {:?}", seen.trailers));
        }
    }
    // the request id is one value per exchange, on both sides, and is not client-chosen
    if let Some(first) = ids.first() {
        if ids.iter().any(|i| i != first) {
            problems.push(format!("request id differs between the fields that carry it: {ids:?}"));
        }
        if let Some(prev) = stats.ids.lock().unwrap().insert(first.clone(), case.idx) {
            problems.push(format!("request id reused: {first} was already used by the exchange of case {prev}"));
        }
    }
    problems
}

#[derive(Default)]
struct Stats {
    rejects: AtomicU64,
    empty_cookie: AtomicU64,
    exchanges: AtomicU64,
    retried: AtomicU64,
    inconclusive: AtomicU64,
    sticky_set: AtomicU64,
    sticky_due: AtomicU64,
    retry_reasons: Mutex<BTreeMap<String, u64>>,
    ids: Mutex<HashMap<String, usize>>,
}

// ---------------------------------------------------------------------------------------------

fn arg(args: &[String], name: &str) -> Option<String> {
    args.iter().position(|a| a == name).and_then(|i| args.get(i + 1).cloned())
}

fn main() {
    let args: Vec<String> = std::env::args().collect();
    let cases_path = arg(&args, "--cases").expect("--cases FILE");
    let seed: u64 = arg(&args, "--seed").and_then(|s| s.parse().ok()).unwrap_or(1);
    let n_workers: usize = arg(&args, "--workers").and_then(|s| s.parse().ok()).unwrap_or(6);
    let n_clients: usize = arg(&args, "--clients").and_then(|s| s.parse().ok()).unwrap_or(24);
    let verbose = args.iter().any(|a| a == "--verbose");
    let only: Option<usize> = arg(&args, "--only").and_then(|s| s.parse().ok());
    if let Some(ms) = arg(&args, "--timeout-ms").and_then(|s| s.parse().ok()) {
        TIMEOUT_MS.store(ms, Ordering::Relaxed);
    }
    vh::util::quiet_panics();

    let mut cases = Vec::new();
    for line in BufReader::new(std::fs::File::open(&cases_path).expect("open cases")).lines() {
        let line = line.expect("read");
        if !line.starts_with('{') {
            continue;
        }
        let raw: Value = serde_json::from_str(&line).expect("case json");
        if raw.get("k").is_none() {
            continue;
        }
        let idx = cases.len();
        cases.push(Case { idx, k: Cfg::from(&raw["k"]), req: strs(&raw["req"]), tr: strs(&raw["tr"]), resp: strs(&raw["resp"]), raw });
    }
    let sh = Arc::new(Shared { cases, seed, records: Mutex::new(HashMap::new()), verbose });
    let back_h1 = spawn_backend(sh.clone(), false);
    let back_h2c = spawn_backend(sh.clone(), true);

    // listener configurations and the frontends each needs
    let mut needs: BTreeMap<ListenerKey, BTreeSet<(String, String, String)>> = BTreeMap::new();
    for c in sh.cases.iter().filter(|c| only.map(|o| o == c.idx).unwrap_or(true)) {
        needs.entry(c.k.lkey()).or_default().insert((c.k.prefix(), c.k.cluster(), c.k.edits.clone()));
    }
    let keys: Vec<(ListenerKey, BTreeSet<(String, String, String)>)> = needs.into_iter().collect();
    let n_workers = n_workers.min(keys.len()).max(1);
    let mut parts: Vec<Vec<(ListenerKey, BTreeSet<(String, String, String)>)>> = vec![Vec::new(); n_workers];
    for (i, k) in keys.into_iter().enumerate() {
        parts[i % n_workers].push(k);
    }
    let t_setup = Instant::now();
    let handles: Vec<_> = parts
        .into_iter()
        .enumerate()
        .map(|(i, part)| std::thread::spawn(move || start_worker(&format!("c13w{i}"), &part, back_h1, back_h2c)))
        .collect();
    let mut workers = Vec::new();
    let mut addrs: HashMap<ListenerKey, SocketAddr> = HashMap::new();
    for h in handles {
        match h.join().expect("setup thread") {
            Ok((w, a)) => {
                workers.push(w);
                addrs.extend(a);
            }
            Err(e) => {
                eprintln!("worker setup failed: {e}");
                std::process::exit(3);
            }
        }
    }
    let setup_s = t_setup.elapsed().as_secs_f64();

    // lanes: cases grouped by (listener, front protocol, peer class), chunked
    let mut groups: BTreeMap<(ListenerKey, bool, String), Vec<usize>> = BTreeMap::new();
    for c in sh.cases.iter().filter(|c| only.map(|o| o == c.idx).unwrap_or(true)) {
        groups.entry((c.k.lkey(), c.k.h2_front, c.k.peer.clone())).or_default().push(c.idx);
    }
    let mut chunks: Vec<Vec<usize>> = Vec::new();
    for (_, v) in groups {
        for ch in v.chunks(48) {
            chunks.push(ch.to_vec());
        }
    }
    // interleave so that the sozu workers are loaded evenly
    let chunks = Arc::new(chunks);
    let next = Arc::new(AtomicUsize::new(0));
    let stats = Arc::new(Stats::default());
    let violations: Arc<Mutex<Vec<Value>>> = Arc::new(Mutex::new(Vec::new()));
    let samples: Arc<Mutex<Vec<Value>>> = Arc::new(Mutex::new(Vec::new()));
    let addrs = Arc::new(addrs);
    let t_run = Instant::now();
    let mut threads = Vec::new();
    for _ in 0..n_clients {
        let (sh, chunks, next, stats, violations, samples, addrs) = (sh.clone(), chunks.clone(), next.clone(), stats.clone(), violations.clone(), samples.clone(), addrs.clone());
        threads.push(std::thread::spawn(move || {
            loop {
                let i = next.fetch_add(1, Ordering::SeqCst);
                if i >= chunks.len() {
                    break;
                }
                let mut h1 = H1Lane { conn: None };
                let mut h2l = H2Lane { conn: None, next_sid: 1 };
                for &ci in &chunks[i] {
                    let case = &sh.cases[ci];
                    let addr = addrs[&case.k.lkey()];
                    let mut attempt = 0;
                    loop {
                        let r = if case.k.h2_front { h2_exchange(&sh, &mut h2l, addr, case, attempt) } else { h1_exchange(&sh, &mut h1, addr, case, attempt) };
                        stats.exchanges.fetch_add(1, Ordering::Relaxed);
                        let id = xid(case.idx, attempt);
                        match r {
                            Ok((seen, sent, truth)) => {
                                let rec = sh.records.lock().unwrap().get(&id).cloned();
                                // 502/503/504 without any backend record: sozu could not reach the backend
                                // (backend marked down, connect failure): the harness environment, not the
                                // header edit. Retry once on a fresh connection, then give up as inconclusive.
                                let gateway = rec.is_none() && ["502", "503", "504"].iter().any(|c| seen.status.contains(c))
                                    && case.raw["ereq"]["outcome"] == "forward";
                                // RST_STREAM(REFUSED_STREAM) without any backend record: sozu declined the stream before
                                // processing it (RFC 9113 8.7: safe to retry) - momentary concurrency back-pressure on the
                                // shared HTTP/2 connection of the lane under load, not a header edit.
                                let refused = rec.is_none() && seen.reset.as_deref().is_some_and(|r| r.contains("code=7"))
                                    && case.raw["ereq"]["outcome"] == "forward";
                                if gateway || refused {
                                    h1.conn = None;
                                    if attempt == 0 {
                                        attempt = 1;
                                        stats.retried.fetch_add(1, Ordering::Relaxed);
                                        std::thread::sleep(Duration::from_millis(200));
                                        continue;
                                    }
                                    stats.inconclusive.fetch_add(1, Ordering::Relaxed);
                                    eprintln!("inconclusive case {}: gateway error {} / refused stream {:?} twice", case.idx, seen.status, seen.reset);
                                    break;
                                }
                                let problems = check_case(&sh, case, &seen, &sent, &truth, rec.as_ref(), &stats);
                                if sh.verbose || (ci % 997 == 0 && samples.lock().unwrap().len() < 6) {
                                    let s = json!({"case": {"k": case.raw["k"], "req": case.req, "tr": case.tr, "resp": case.resp},
                                        "sent": sent.req, "backend_saw": rec.as_ref().map(|r| &r.headers), "backend_trailers": rec.as_ref().map(|r| &r.trailers),
                                        "client_saw": seen.headers, "status": seen.status, "reset": seen.reset, "problems": problems});
                                    if sh.verbose {
                                        eprintln!("{}", serde_json::to_string_pretty(&s).unwrap());
                                    }
                                    samples.lock().unwrap().push(s);
                                }
                                if !problems.is_empty() {
                                    violations.lock().unwrap().push(json!({"kind": "violation", "class": classify(&problems), "case": case.raw, "idx": case.idx,
                                        "detail": {"problems": problems, "sent": sent.req, "sent_trailers": sent.tr, "backend_saw": rec.as_ref().map(|r| &r.headers),
                                                   "backend_trailers": rec.as_ref().map(|r| &r.trailers), "client_saw": seen.headers, "status": seen.status, "reset": seen.reset,
                                                   "peer": truth.peer.to_string(), "public": truth.public.to_string()}}));
                                }
                                break;
                            }
                            Err(e) => {
                                // connection-level failure: retry once on a fresh connection
                                if attempt == 0 {
                                    attempt = 1;
                                    stats.retried.fetch_add(1, Ordering::Relaxed);
                                    let key = format!("{}:{}", if case.k.h2_front { "h2" } else { "h1" }, e.chars().filter(|c| !c.is_ascii_digit()).take(60).collect::<String>());
                                    *stats.retry_reasons.lock().unwrap().entry(key).or_default() += 1;
                                    continue;
                                }
                                let expected_reject = case.raw["ereq"]["outcome"] == "reject";
                                let rec = sh.records.lock().unwrap().get(&id).cloned();
                                if expected_reject && rec.is_none() {
                                    stats.rejects.fetch_add(1, Ordering::Relaxed);
                                } else if e.contains("timed out") {
                                    stats.inconclusive.fetch_add(1, Ordering::Relaxed);
                                    eprintln!("inconclusive case {}: {e}", case.idx);
                                } else {
                                    violations.lock().unwrap().push(json!({"kind": "violation", "class": "exchange-failed", "case": case.raw, "idx": case.idx,
                                        "detail": {"problems": [format!("the exchange failed twice: {e}")], "backend_saw": rec.as_ref().map(|r| &r.headers)}}));
                                }
                                break;
                            }
                        }
                    }
                }
            }
        }));
    }
    for t in threads {
        let _ = t.join();
    }
    let run_s = t_run.elapsed().as_secs_f64();
    // final sweep: a request the spec rejects must never have reached a backend
    {
        let recs = sh.records.lock().unwrap();
        for c in sh.cases.iter().filter(|c| c.raw["ereq"]["outcome"] == "reject") {
            for a in 0..2 {
                if recs.contains_key(&xid(c.idx, a)) {
                    violations.lock().unwrap().push(json!({"kind": "violation", "class": "rejected-request-forwarded", "case": c.raw, "idx": c.idx,
                        "detail": {"problems": ["a request the spec rejects at the frontend reached a backend"], "backend_saw": recs[&xid(c.idx, a)].headers}}));
                }
            }
        }
    }
    // the workers must still be alive (a panic in sozu is data)
    let mut worker_panics = Vec::new();
    for w in workers.iter_mut() {
        if w.is_finished() {
            match w.join_within(Duration::from_millis(100)) {
                Err(p) => worker_panics.push(p),
                Ok(_) => worker_panics.push("worker thread exited".to_string()),
            }
        } else {
            let _ = w.send_type(RequestType::SoftStop(SoftStop {}));
        }
    }
    for p in &worker_panics {
        vh::util::emit(&json!({"kind": "violation", "class": "worker-panic", "case": Value::Null, "detail": {"problems": [p]}}));
    }
    let v = violations.lock().unwrap();
    // at most 40 violations per class are printed (all are counted)
    let mut classes: BTreeMap<String, u64> = BTreeMap::new();
    for x in v.iter() {
        let n = classes.entry(x["class"].as_str().unwrap_or("?").to_string()).or_default();
        *n += 1;
        if *n <= 40 {
            vh::util::emit(x);
        }
    }
    let n_cases = sh.cases.iter().filter(|c| only.map(|o| o == c.idx).unwrap_or(true)).count();
    let mut distinct: HashSet<String> = HashSet::new();
    let mut dev_explained: BTreeMap<String, u64> = BTreeMap::new();
    for c in sh.cases.iter() {
        distinct.insert(format!("{:?}|{:?}|{:?}|{}|{}", c.req, c.tr, c.resp, c.k.h2_front, c.k.h2c_back));
        for d in strs(&c.raw["devs"]) {
            *dev_explained.entry(d).or_default() += 1;
        }
    }
    vh::util::emit(&json!({"kind": "summary", "cases": n_cases, "exchanges": stats.exchanges.load(Ordering::Relaxed),
        "violations": v.len() + worker_panics.len(), "classes": classes, "rejects": stats.rejects.load(Ordering::Relaxed),
        "empty_cookie_fields": stats.empty_cookie.load(Ordering::Relaxed), "retried": stats.retried.load(Ordering::Relaxed), "retry_reasons": *stats.retry_reasons.lock().unwrap(),
        "inconclusive": stats.inconclusive.load(Ordering::Relaxed), "missing_last_chunk_before_trailers": MISSING_LAST_CHUNK.load(Ordering::Relaxed), "sticky_cookie_due": stats.sticky_due.load(Ordering::Relaxed), "sticky_cookie_set": stats.sticky_set.load(Ordering::Relaxed), "listeners": addrs.len(), "workers": workers.len(),
        "distinct_token_lists": distinct.len(), "deviation_explained": dev_explained,
        "setup_s": setup_s, "run_s": run_s, "samples": samples.lock().unwrap().iter().take(4).collect::<Vec<_>>()}));
    std::process::exit(0);
}

fn classify(problems: &[String]) -> String {
    let p = problems.join(" | ");
    if p.contains("no backend received") {
        "request-not-delivered".into()
    } else if p.contains("request trailers") {
        "request-trailers".into()
    } else if p.contains("cookie crumbs") {
        "request-cookies".into()
    } else if p.contains("request:") && p.contains("proxy-added") {
        "request-proxy-metadata".into()
    } else if p.contains("request:") {
        "request-fields".into()
    } else if p.contains("response") {
        "response-fields".into()
    } else if p.contains("request id") {
        "request-id".into()
    } else {
        "other".into()
    }
}
