//! Worker-level leg of C07: a real in-process sozu worker (vh::worker) receives seeded random configuration
//! commands over the real command channel. After every command the worker's queryable view
//! (QueryClustersHashes, QueryClusterById, QueryCertificatesFromWorkers by fingerprint) is read back.
//!   * a command answered Failure must leave that view exactly as it was;
//!   * the view must equal the one computed from a library ConfigState that received the same commands
//!     (the worker keeps a ConfigState of its own, this is what a later diff/resync is computed against).
//! stdout: {"kind":"violation"} lines, {"kind":"summary"} with the outcome table verb x library result x answer.

use std::collections::BTreeMap;
use std::time::Duration;

use serde_json::{Value, json};
use sozu_command_lib::proto::command::{
    QueryCertificatesFilters, Request, ResponseStatus, WorkerResponse, request::RequestType, response_content::ContentType,
};
use sozu_command_lib::state::ConfigState;
use vh::cfgmodel::*;
use vh::worker::{Worker, free_addr};

const T: Duration = Duration::from_secs(5);

fn universe() -> Vec<Value> {
    let ldef = |k: &str, a: &str| json!({"k": k, "a": a, "active": false, "ft": 60, "exp": false, "sid": "none", "knob": 0, "shr": 0,
        "ansP": false, "a404": "-", "a503": "-", "alpn": [], "sni": "none", "mf": 0});
    let front = |p: &str, a: &str, pos: &str, cl: &str| json!({"p": p, "a": a, "h": "h1", "pk": "prefix", "pv": "/", "m": "none",
        "cl": cl, "pos": pos, "tg": "t0", "rd": "none"});
    let mut u = vec![
        json!({"verb": "AddHttpListener", "v": ldef("http", "A1")}),
        json!({"verb": "AddHttpsListener", "v": ldef("https", "A2")}),
        json!({"verb": "AddTcpListener", "v": ldef("tcp", "A3")}),
    ];
    for (k, a) in [("http", "A1"), ("https", "A2"), ("tcp", "A3"), ("http", "A3")] {
        for verb in ["ActivateListener", "DeactivateListener", "RemoveListener"] {
            u.push(json!({"verb": verb, "k": k, "a": a}));
        }
    }
    for p in [json!({"ft": 77}), json!({"ft": 77, "sid": "bad header"}), json!({"ft": 78, "knob": 0}), json!({"sid": "X-Id"})] {
        u.push(json!({"verb": "UpdateHttpListener", "a": "A1", "p": p}));
        u.push(json!({"verb": "UpdateHttpsListener", "a": "A2", "p": p}));
    }
    u.push(json!({"verb": "UpdateHttpsListener", "a": "A2", "p": {"ft": 79, "alpn": ["spdy"]}}));
    u.push(json!({"verb": "UpdateTcpListener", "a": "A3", "p": {"ft": 77}}));
    u.push(json!({"verb": "UpdateTcpListener", "a": "A1", "p": {"ft": 77}}));
    for c in ["c1", "c2"] {
        for hc in ["none", "h1", "hbad"] {
            u.push(json!({"verb": "AddCluster", "v": {"c": c, "sticky": false, "lb": "rr", "hc": hc}}));
        }
        u.push(json!({"verb": "RemoveCluster", "c": c}));
        u.push(json!({"verb": "SetHealthCheck", "c": c, "hc": "h2"}));
        u.push(json!({"verb": "SetHealthCheck", "c": c, "hc": "hbad"}));
        u.push(json!({"verb": "RemoveHealthCheck", "c": c}));
        for (b, x) in [("b1", "x1"), ("b1", "x2")] {
            u.push(json!({"verb": "AddBackend", "c": c, "b": b, "x": x, "w": 0}));
            u.push(json!({"verb": "RemoveBackend", "c": c, "b": b, "x": x}));
        }
        u.push(json!({"verb": "AddTcpFrontend", "c": c, "a": "A3", "t": "t0"}));
        u.push(json!({"verb": "AddTcpFrontend", "c": c, "a": "A1", "t": "t0"}));
        u.push(json!({"verb": "RemoveTcpFrontend", "c": c, "a": "A3", "t": "t0"}));
        for (p, a) in [("http", "A1"), ("http", "A3"), ("https", "A2"), ("https", "A1")] {
            let (add, rem) = if p == "http" { ("AddHttpFrontend", "RemoveHttpFrontend") } else { ("AddHttpsFrontend", "RemoveHttpsFrontend") };
            u.push(json!({"verb": add, "f": front(p, a, "tree", c)}));
            u.push(json!({"verb": rem, "f": front(p, a, "tree", c)}));
        }
    }
    u.push(json!({"verb": "AddHttpFrontend", "f": front("http", "A1", "bad", "c1")}));
    for a in ["A2", "A1"] {
        // (one names list per certificate: the by-fingerprint query returns a single entry per fingerprint)
        for (k, n) in [("k1", json!([])), ("k2", json!(["ov"])), ("kp", json!(["ov"])), ("kb", json!([]))] {
            u.push(json!({"verb": "AddCertificate", "a": a, "k": k, "n": n}));
        }
        for fp in ["k1", "k2", "kp", "nothex"] {
            u.push(json!({"verb": "RemoveCertificate", "a": a, "fp": fp}));
        }
        for (old, k) in [("k1", "k2"), ("k1", "kb"), ("k1", "kp"), ("k2", "k1")] {
            u.push(json!({"verb": "ReplaceCertificate", "a": a, "old": old, "k": k, "n": if k == "kp" || k == "k2" { json!(["ov"]) } else { json!([]) }}));
        }
    }
    u
}

fn content(r: &Option<WorkerResponse>) -> Value {
    match r {
        None => json!("no answer"),
        Some(r) => match r.content.as_ref().and_then(|c| c.content_type.as_ref()) {
            Some(ContentType::ClusterHashes(h)) => json!(h.map),
            Some(ContentType::Clusters(c)) => serde_json::to_value(&c.vec).unwrap_or(json!("unserialisable")),
            Some(ContentType::CertificatesWithFingerprints(c)) => json!(c.certs.iter().map(|(k, v)| (k.clone(), v.names.clone())).collect::<BTreeMap<_, _>>()),
            Some(_) => json!("other content"),
            None => json!({"status": r.status}),
        },
    }
}

fn worker_view(w: &mut Worker, conc: &Conc) -> Value {
    let mut v = serde_json::Map::new();
    let r = w.request_raw(RequestType::QueryClustersHashes(Default::default()), T);
    v.insert("hashes".into(), content(&r));
    for c in ["cluster_1", "cluster-2"] {
        let r = w.request_raw(RequestType::QueryClusterById(c.to_string()), T);
        v.insert(format!("cluster:{c}"), content(&r));
    }
    for k in ["k1", "k2", "kp"] {
        let r = w.request_raw(RequestType::QueryCertificatesFromWorkers(QueryCertificatesFilters {
            domain: None, fingerprint: Some(conc.certs[k].fp_hex.clone()) }), T);
        v.insert(format!("cert:{k}"), match &r {
            Some(x) if x.status == ResponseStatus::Ok as i32 => content(&r),
            _ => json!({}),
        });
    }
    Value::Object(v)
}

fn library_view(st: &ConfigState, conc: &Conc) -> Value {
    let mut v = serde_json::Map::new();
    v.insert("hashes".into(), json!(st.hash_state()));
    for c in ["cluster_1", "cluster-2"] {
        v.insert(format!("cluster:{c}"), serde_json::to_value(st.cluster_state(c).map_or(vec![], |ci| vec![ci])).unwrap());
    }
    for k in ["k1", "k2", "kp"] {
        let certs = st.get_certificates(QueryCertificatesFilters { domain: None, fingerprint: Some(conc.certs[k].fp_hex.clone()) });
        v.insert(format!("cert:{k}"), json!(certs.iter().map(|(k, v)| (k.clone(), v.names.clone())).collect::<BTreeMap<_, _>>()));
    }
    Value::Object(v)
}

trait RawRequest {
    fn request_raw(&mut self, rt: RequestType, t: Duration) -> Option<WorkerResponse>;
}
impl RawRequest for Worker {
    /// like Worker::request but without touching the scaffolding's own mirror state
    fn request_raw(&mut self, rt: RequestType, t: Duration) -> Option<WorkerResponse> {
        let req: Request = rt.into();
        let id = self.send_raw(req);
        self.wait_for(&id, t).into_iter().find(|r| r.status != ResponseStatus::Processing as i32)
    }
}

fn main() {
    vh::util::quiet_panics();
    let args: Vec<String> = std::env::args().collect();
    let (mut seed, mut runs, mut steps, mut out) = (1u64, 3usize, 150usize, String::from("/dev/null"));
    let mut i = 1;
    while i < args.len() {
        match args[i].as_str() {
            "--seed" => { seed = args[i + 1].parse().unwrap_or(1); i += 1; }
            "--runs" => { runs = args[i + 1].parse().unwrap(); i += 1; }
            "--steps" => { steps = args[i + 1].parse().unwrap(); i += 1; }
            "--out" => { out = args[i + 1].clone(); i += 1; }
            _ => {}
        }
        i += 1;
    }
    let uni = universe();
    use std::io::Write;
    let mut f = std::io::BufWriter::new(std::fs::File::create(&out).expect("trace file"));
    let mut seqno = 0usize;
    let mut table: BTreeMap<String, u64> = BTreeMap::new();
    let mut classes: BTreeMap<String, u64> = BTreeMap::new();
    let mut violations: Vec<Value> = Vec::new();
    let (mut n_cmds, mut n_fail, mut n_noanswer) = (0u64, 0u64, 0u64);
    for run in 0..runs {
        let mut rng = Rng((seed.wrapping_mul(7919) + run as u64).wrapping_mul(0x9E3779B97F4A7C15) | 1);
        let mut conc = Conc::new(0);
        conc.set_addr("A1", free_addr());
        conc.set_addr("A2", free_addr());
        conc.set_addr("A3", free_addr());
        let mut w = Worker::start_empty(&format!("c07w{run}"));
        let mut lib = ConfigState::new();
        let mut hist: Vec<Value> = Vec::new();
        let mut before = worker_view(&mut w, &conc);
        writeln!(f, "{}", json!({"ev": "reset", "run": run, "seq": seqno})).unwrap();
        seqno += 1;
        for step in 0..steps {
            let cmd = uni[rng.next(uni.len())].clone();
            let verb = cmd["verb"].as_str().unwrap().to_string();
            let req = conc.request(&cmd);
            hist.push(cmd.clone());
            let lib_ok = match dispatch(&mut lib, &req) { Ok(b) => b, Err(p) => { violations.push(json!({"kind": "violation", "class": format!("panic:{verb}"), "detail": {"panic": p}, "commands": hist})); break } };
            let resp = w.request_raw(req.request_type.clone().unwrap(), T);
            n_cmds += 1;
            let status = match &resp {
                None => { n_noanswer += 1; "none" }
                Some(r) if r.status == ResponseStatus::Ok as i32 => "ok",
                Some(_) => { n_fail += 1; "failure" }
            };
            if w.is_finished() {
                let why = w.join_within(Duration::from_secs(1));
                violations.push(json!({"kind": "violation", "class": format!("worker-died:{verb}"), "detail": {"join": format!("{why:?}")}, "commands": hist}));
                break;
            }
            let after = worker_view(&mut w, &conc);
            let changed = after != before;
            *table.entry(format!("{verb}|library={}|worker={status}|view_changed={changed}", if lib_ok { "ok" } else { "err" })).or_insert(0) += 1;
            let mut report = |class: String, detail: Value| {
                let n = classes.entry(class.clone()).or_insert(0);
                *n += 1;
                if *n <= 2 {
                    violations.push(json!({"kind": "violation", "class": class, "run": run, "step": step, "detail": detail, "commands": hist}));
                }
            };
            if status == "failure" && changed {
                let keys: Vec<&String> = after.as_object().unwrap().keys().filter(|k| after[*k] != before[*k]).collect();
                // the worker's own ConfigState accepted the command, its proxies refused it, the change stayed:
                // this is what the spec's deviation WorkerKeepsRefused describes; anything else is a class of its own
                let class = if lib_ok { "dev:WorkerKeepsRefused".to_string() } else { format!("worker:failure-changed-view:{verb}") };
                report(class, json!({"cmd": cmd, "answer": resp.as_ref().map(|r| r.message.clone()),
                    "changed": keys, "before": keys.iter().map(|k| before[*k].clone()).collect::<Vec<_>>(), "after": keys.iter().map(|k| after[*k].clone()).collect::<Vec<_>>()}));
            }
            if status == "none" {
                report(format!("worker:no-answer:{verb}"), json!({"cmd": cmd}));
            }
            let libv = library_view(&lib, &conc);
            if libv != after {
                let keys: Vec<&String> = after.as_object().unwrap().keys().filter(|k| after[*k] != libv[*k]).collect();
                report(format!("worker:view-differs-from-library:{verb}"), json!({"cmd": cmd, "differs": keys}));
                break;
            }
            before = after;
            if status != "none" {
                writeln!(f, "{}", json!({"ev": "worker", "run": run, "seq": seqno, "cmd": cmd, "res": if status == "ok" { "ok" } else { "err" },
                                         "post": conc.project(&lib)})).unwrap();
                seqno += 1;
            }
        }
        let _ = w.request_raw(RequestType::HardStop(Default::default()), Duration::from_secs(2));
        let _ = w.join_within(Duration::from_secs(3));
    }
    f.flush().unwrap();
    for v in &violations { vh::util::emit(v); }
    vh::util::emit(&json!({"kind": "summary", "runs": runs, "commands": n_cmds, "failures": n_fail, "no_answer": n_noanswer,
        "outcomes": table, "classes": classes}));
}
