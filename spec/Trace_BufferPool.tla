-------------------------- MODULE Trace_BufferPool --------------------------
(***************************************************************************)
(* I->S trace validation for BufferPool.tla (property C16, pool part).     *)
(*                                                                         *)
(* The trace (ndjson, env TRACE) is what `replay_pool --drive` recorded on *)
(* a real sozu_lib::pool::Pool and its Checkout guards: one event per call *)
(* with its arguments, what the call answered and, afterwards,             *)
(* Pool::used(), Pool::capacity(), the buffer.in_use gauge and every held  *)
(* buffer's available_data / available_space / data() bytes.  Accepted iff *)
(* every event is the spec action of the same name with that result and    *)
(* that post-state; every P_C16p property is evaluated after every event.  *)
(* Runs are concatenated; `reset` starts a fresh pool with the recorded    *)
(* minimum (the maximum is the constant MaxBuf).                           *)
(***************************************************************************)
EXTENDS BufferPool, Json, IOUtils

Rec == ndJsonDeserialize(IOEnv.TRACE)

T_Guards == {"g1", "g2", "g3", "g4"}
T_Alpha == 1..26
T_AllOps == {"Write", "Consume", "Read", "Shift", "Reset", "Sync", "Delete", "Replace", "Insert"}

VARIABLES l        \* number of consumed events
ASSUME TLCSet(1, 0)
tvars == <<vars, l>>

BProj(g) == IF held[g] = NoIdx THEN [held |-> FALSE, avail |-> 0, space |-> 0, data |-> <<>>]
            ELSE [held |-> TRUE, avail |-> Avail(B(g)), space |-> Space(B(g)), data |-> Data(B(g))]

PostOK(e) ==
  /\ e.used = used' /\ e.cap = cap' /\ e.gauge = gauge'
  /\ \A g \in Guards : LET p == e.bufs[g] IN
       IF held'[g] = NoIdx THEN ~p.held
       ELSE LET b == buf'[held'[g]] IN
            /\ p.held /\ p.avail = Avail(b) /\ p.space = Space(b)
            /\ Len(p.data) = Avail(b) /\ \A i \in 1..Avail(b) : p.data[i] = Data(b)[i]
  /\ "inconsistent" \notin DOMAIN e

T_Reset(e) ==
  /\ e.ev = "reset" /\ e.max = MaxBuf /\ e.min <= MaxBuf
  /\ cap' = e.min /\ init' = 0 /\ freel' = <<>> /\ used' = 0 /\ gauge' = 0 /\ buf' = <<>>
  /\ held' = [g \in Guards |-> NoIdx] /\ logical' = [g \in Guards |-> <<>>] /\ ovf' = FALSE
  /\ steps' = 0 /\ last' = [op |-> "Init"]

T_Op(e) ==
  /\ e.ev # "reset" /\ e.g \in Guards
  /\ CASE e.ev = "Checkout" -> Checkout(e.g) /\ last'.ok = e.ok
       [] e.ev = "Drop"     -> DropG(e.g)
       [] e.ev = "Write"    -> Write(e.g, e.data) /\ last'.ret = e.ret
       [] e.ev = "Consume"  -> Consume(e.g, e.n) /\ last'.ret = e.ret
       [] e.ev = "Read"     -> Read(e.g, e.n) /\ last'.ret = e.ret
                               /\ Len(e.bytes) = Len(last'.bytes) /\ \A i \in 1..Len(e.bytes) : e.bytes[i] = last'.bytes[i]
       [] e.ev = "Shift"    -> Shift(e.g)
       [] e.ev = "Reset"    -> Reset(e.g)
       [] e.ev = "Sync"     -> Sync(e.g, e.e, e.p)
       [] e.ev = "Delete"   -> Delete(e.g, e.s, e.l) /\ last'.ret = e.ret
       [] e.ev = "Replace"  -> Replace(e.g, e.data, e.s, e.l) /\ last'.ret = e.ret
       [] e.ev = "Insert"   -> Insert(e.g, e.data, e.s) /\ last'.ret = e.ret
       [] OTHER -> FALSE

TraceNext ==
  /\ l < Len(Rec)
  /\ l' = l + 1
  /\ LET e == Rec[l + 1] IN T_Reset(e) \/ (T_Op(e) /\ PostOK(e))

TraceInit == Init /\ l = 0
TraceSpec == TraceInit /\ [][TraceNext]_tvars

Track == (l > TLCGet(1) => TLCSet(1, l)) /\ TRUE

TraceAccepted ==
  /\ IF TLCGet(1) = Len(Rec)
     THEN PrintT(<<"TRACE-ACCEPTED", TLCGet(1)>>)
     ELSE /\ PrintT(<<"TRACE-REJECTED", TLCGet(1), Len(Rec)>>)
          /\ PrintT(<<"FIRST-UNEXPLAINED", Rec[TLCGet(1) + 1]>>)
  /\ TRUE
=============================================================================
