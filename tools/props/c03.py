"""C03 - client and backend always agree on request boundaries (spec/HttpFraming.tla).

1. TLC checks P_C03 (the wire sozu writes has exactly one strict reading, and it is what sozu understood)
   and P_C03_Rfc (sozu's outcome is one of the RFC-admissible ones) on every case of the token grammar,
   with no deviation. Every case carries a METHOD token (GET HEAD POST CONNECT OPTIONS, an extension method, a
   lower-case spelling): the slices over every header token are sent with POST, the method slices cross every method
   with the request-target forms / pseudo-header shapes, the framing-relevant Content-Length / Transfer-Encoding
   tokens, every DATA shape and trailer shapes.
2. Sensitivity: every deviation switch of the spec (= how the code behaved before the fix: commits, or still
   behaves for open findings) is switched on alone and TLC must produce a counterexample.
3. Generator run: one REPLAY line per case with the admissible relation and the prediction (open deviations on).
4. harness/replay_framing concretises every case (several spellings per token, seeded segmentation, pipelined
   or sequential sentinel) and sends it to a live H1 / TLS+H2 frontend of a real worker; recording backends
   log raw bytes (they answer HEAD from the head and keep the connection, refuse CONNECT with 405; an H2 probe is
   followed by a late request that sozu writes on the backend connection the probe used; `interim` cases: the backends send
   100 Continue (to `Expect: 100-continue`) or 100 / 103 of their own accord after the request head, and the client sends
   the body / DATA / trailers only once sozu relayed it; `late` cases: the trailer frame is held back until a backend
   holds head and DATA, the backends keep their answer back meanwhile); the harness's strict RFC 9112 reader (or its h2c frame reader) computes what a conforming
   backend reads; the result must be admissible.
"""
import json
import os
import threading

import vlib

PID = "C03"
ALL_DEVIATIONS = ["NoLenUntilClose", "ClPlus", "TeLenient", "LenientName",
                  "H2DupCl", "H2PathSpace", "TrailerAfterCl", "TrailerNoLastChunk",
                  # method dimension: a HEAD *request* exempted from the content-length vs DATA reconciliation (a defect
                  # class, never the code's behaviour); an HTTP/2 CONNECT with :scheme/:path forwarded as an ordinary
                  # request (the code's behaviour before fix: commit 2577ced)
                  "HeadRequestExempt", "H2ConnectOrdinary",
                  # the response complete before the request (a backend answering from the request head): the frontend
                  # connection kept alive with part of the body unread / the backend connection pooled with the request not
                  # written completely (the code before fix: commits 54f6c21, f073bfa)
                  "ReuseFrontUnread", "ReuseBackUnwritten",
                  # environment dimensions `interim` (the backend sends 100 Continue / 103 after the request head, the body /
                  # DATA / trailers are read by sozu after it relayed that response head) and `late` (the trailer frame is
                  # held back until the backend holds head and DATA): the 1xx arm of h2.rs content_length_exempt applied
                  # to the REQUEST read on the frontend connection (the code before the fix, finding
                  # c03-interim-status-exempts-request); trailers behind a Content-Length body written when the head has
                  # already left the queue (a defect class, never the code's behaviour)
                  "InterimStatusExempt", "TrailerAfterClLate"]

CFG = """SPECIFICATION Spec
CONSTANTS
  MaxHdr = %(n)d
  Deviations = %(dev)s
  Emit = %(emit)s
INVARIANTS %(inv)s
CHECK_DEADLOCK FALSE
"""


def tla_set(xs):
    return "{" + ", ".join('"%s"' % x for x in xs) + "}"


def write_cfg(wd, name, n, dev, emit, inv):
    path = os.path.join(wd, name)
    with open(path, "w") as f:
        f.write(CFG % {"n": n, "dev": tla_set(dev), "emit": "TRUE" if emit else "FALSE", "inv": inv})
    return path


def run(tier, replay=None):
    rep = vlib.Report(PID, tier)
    wd = vlib.workdir(PID)
    bins = vlib.cargo_build(["replay_framing"])
    devs = vlib.open_deviations(PID)
    thorough = tier == "thorough"
    n = 3 if thorough else 2
    workers = 12 if thorough else 6

    # 1. design level, no deviation
    r = vlib.tlc("HttpFraming", write_cfg(wd, "mc.cfg", n, [], False, "TypeOK P_C03 P_C03_Rfc"), PID,
                 workers=workers, timeout=1500)
    rep.add_tlc(r)
    if r["violated"]:
        rep.violation("spec:" + r["violated"], "the specification itself violates %s" % r["violated"], r["out"])

    # 2. sensitivity: each deviation alone must break P_C03 or P_C03_Rfc in the model (run in parallel, small)
    results = {}

    def one(d):
        try:
            results[d] = vlib.tlc("HttpFraming", write_cfg(wd, "dev_%s.cfg" % d, 2, [d], False, "P_C03 P_C03_Rfc"),
                                  PID + "/dev_" + d, workers=2, timeout=600)
        except Exception as e:  # noqa
            results[d] = e
    threads = [threading.Thread(target=one, args=(d,)) for d in ALL_DEVIATIONS]
    for t in threads:
        t.start()
    for t in threads:
        t.join()
    for d in ALL_DEVIATIONS:
        rd = results.get(d)
        if isinstance(rd, Exception) or rd is None:
            raise vlib.ToolError("TLC failed for deviation %s: %s" % (d, rd))
        rep.add_tlc(rd)
        if not rd["violated"]:
            raise vlib.ToolError("deviation %s no longer violates P_C03 in the model (vacuous property?)" % d)
    vlib.log("all %d deviation switches produce counterexamples" % len(ALL_DEVIATIONS))

    # --replay <violation file written by an earlier run>: same case, same concretisation, verbose
    if replay:
        with open(replay) as f:
            v = json.load(f)
        if "case" not in v:
            raise vlib.ToolError("%s is not a C03 violation file" % replay)
        one = os.path.join(wd, "one.ndjson")
        with open(one, "w") as f:
            f.write(json.dumps({"c": v["case"], "adm": v["adm"], "code": v["code"]}) + "\n")
        backend = "h2c" if os.path.basename(replay).startswith("h2c_") else "h1"
        out = vlib.run_harness(bins["replay_framing"], ["--seed", str(v.get("seed", 1)), "--lanes", "1", "--backend", backend,
                                                        "--force-index", str(v.get("index", 0)), "--force-variant", str(v.get("variant", 0))],
                               stdin_path=one, timeout=300)
        for o in out:
            if o.get("kind") == "replayed":
                print(json.dumps(o, indent=1))
            if o.get("kind") == "violation":
                rep.violation(o["class"], "%s (replayed) case=%s" % (o["class"], json.dumps(o.get("case"))), o, name="replayed_%s.json" % o["class"].replace(":", "_"))
        rep.cov["traces_validated_against_impl"] = 1
        rep.cov["evaluations"] = 1
        rep.cov["rule"] = "single replay of " + replay
        rep.add_samples([v["case"]], 1)
        rep.finish()

    # 3. generator (prediction with the open deviations on)
    beh = os.path.join(wd, "cases.ndjson")
    if True:
        with open(beh, "w") as f:
            g = vlib.tlc("HttpFraming", write_cfg(wd, "gen.cfg", n, devs, True, "EmitCase"), PID, workers=workers,
                         timeout=1500, want_replay=True, replay_sink=lambda o: f.write(json.dumps(o) + "\n"))
        rep.add_tlc(g)
        if g["violated"]:
            raise vlib.ToolError("generator run reported a violation: %s" % g["violated"])
        if g["n_replays"] == 0:
            raise vlib.ToolError("generator produced no case")

    # 4. replay on a real worker
    # H1 backends (the smuggling-relevant side) and h2c backends (mux/converter.rs towards HTTP/2 backends)
    legs = [("h1", 3 if thorough else 1), ("h2c", 1)]
    total = 0
    distinct = 0
    vacuous = []
    for backend, variants in legs:
        out = vlib.run_harness(bins["replay_framing"],
                               ["--seed", str(vlib.seed()), "--lanes", "32", "--variants", str(variants),
                                "--backend", backend, "--deviations", ",".join(devs)],
                               stdin_path=beh, timeout=2400)
        summ = [o for o in out if o.get("kind") == "summary"]
        if not summ:
            raise vlib.ToolError("replay_framing produced no summary")
        summ = summ[0]
        if summ["probes"] == 0:
            raise vlib.ToolError("replay_framing replayed nothing")
        total += summ["probes"]
        unavailable = sum(v for k, v in summ["classes"].items() if k.endswith(":unavailable"))
        if unavailable * 50 > summ["probes"]:
            raise vlib.ToolError("%d of %d probes could not be judged (backend held unavailable by sozu)" % (unavailable, summ["probes"]))
        distinct = max(distinct, summ["distinct_case_outcomes"])
        # vacuity of the environment dimensions: the interim response must really have been relayed to the client before
        # the rest of the request was sent, and the backend must really have held head + DATA when the trailers went out,
        # in a fair share of the cases that ask for it (cases whose head sozu refuses never reach a backend)
        envd = {k: summ.get(k, 0) for k in ("interim_cases", "interim_relayed", "late_cases", "late_held")}
        rep.extra.setdefault("environment", {})[backend] = envd
        if backend == "h1":   # (h2c backends send no interim response, and their log is decoded frames, not bytes: see replay_framing)
            if envd["interim_cases"] == 0 or envd["late_cases"] == 0:
                vacuous.append("no interim / late-trailer case was replayed (backend %s): %s" % (backend, envd))
            elif envd["interim_relayed"] * 4 < envd["interim_cases"] or envd["late_held"] * 4 < envd["late_cases"]:
                vacuous.append("the interim response / the held-back trailers did not happen in the replay (backend %s): %s" % (backend, envd))
        rep.cov["evaluations"] += summ["probes"]
        rep.extra.setdefault("observed_classes", {})[backend] = summ["classes"]
        rep.extra.setdefault("replay_wall_s", {})[backend] = round(summ["wall_s"], 1)
        if backend == "h1":
            rep.add_samples(summ["samples"], 4)
        seen = {}
        for v in out:
            if v.get("kind") != "violation":
                continue
            k = v["class"]
            seen[k] = seen.get(k, 0) + 1
            if seen[k] > 3:
                continue
            desc = "%s backend=%s case=%s" % (k, backend, json.dumps(v.get("case")))
            rep.violation(k, desc, v, name="%s_%s_%d.json" % (backend, k.replace(":", "_").replace("/", "_"), seen[k]))
        vlib.log("replay backend=%s: %d probes, classes %s, violation classes %s" % (
            backend, summ["probes"], summ["classes"], summ["violation_classes"]))
    # (a tool error never hides a violation: only a run without one is refused for vacuity)
    if vacuous and not rep.violations:
        raise vlib.ToolError("; ".join(vacuous))
    rep.cov["traces_validated_against_impl"] = total
    rep.cov["distinct_nontrivial"] = distinct
    rep.cov["exhaustive"] = True
    rep.cov["rule"] = ("every case of spec/HttpFraming.tla's token grammar with <= %d free header tokens (H1: 8 request-line "
                       "shapes x 6 Host shapes x header-token sequences x 5 chunked-body shapes; H2: 18 pseudo-header shapes x "
                       "header-token sequences x 5 DATA shapes x 7 trailer shapes; method slices: 7 method tokens x request-target "
                       "forms / pseudo-header shapes x framing-relevant tokens x DATA x trailer shapes), each concretised with seeded spellings / "
                       "segmentation / pipelined-or-sequential sentinel and sent to a live frontend of a real worker; "
                       "distinct_nontrivial = distinct (case, observed outcome class) pairs whose case differs from the plain valid "
                       "skeleton in at least one token" % n)
    rep.assumptions += [
        "the quantifier 'all byte strings' is covered through the token grammar x its concretisations only; a byte-level parser quirk that no token exercises is out of reach (fuzzing's territory)",
        "the recording backend stands for 'any RFC 9112 conforming backend': its reader is strict (every MAY-reject is a reject), so anything it cannot read, or reads differently from sozu, is reported",
        "a request is taken as 'understood by sozu' iff it carries the Sozu-Id field sozu appends to each request it parsed (probes never send one)",
        "HTTPS listener runs with strict_sni_binding=false so that :authority may name either cluster (the SNI binding is C13/C17's subject)",
    ]
    rep.finish()
