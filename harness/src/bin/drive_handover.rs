//! C10, protocol leg (I->S): drives the real hand-over protocol between two real worker threads
//! (the in-process replica of `sozu worker upgrade`, as e2e's `Worker::upgrade` /
//! bin/src/command/upgrade.rs do it: ReturnListenSockets -> receive_listeners -> start the successor with
//! the descriptors -> ActivateListener -> SoftStop of the old worker), and the plain soft stop, while
//! clients hold requests at chosen stages and hammer every listener. One JSON line per scenario ("run")
//! goes to stdout; spec/Trace_Handover.tla decides with TLC whether the run is a behaviour of
//! spec/Handover.tla.
//!
//! Observers and ordering (DESIGN 2.4): never a wall clock across threads.
//!  * "ctl": the orchestrating thread. It performs the master's steps AND the scripted clients' I/O
//!    inline, so its events are totally ordered by its own program order.
//!  * "ham"[i]: hammer threads, each sequential. Every hammer event carries `lo`/`hi`: the number of ctl
//!    events that had been logged when the hammer looked before / after the operation (one atomic counter,
//!    incremented by ctl after each of its events). Event k of ctl happened-before an operation with
//!    lo >= k, and an operation with hi = k ended before ctl began its (k+2)-th action. The trace spec may
//!    place a hammer operation anywhere inside that window, nowhere else.
//!  * which worker served a request is read from the response body (each worker is configured with its own
//!    mock backend, "old" / "new"); whether the head of a request reached a backend is read, once the
//!    scenario is over, from the table the mock backends fill (`be`).
use std::collections::HashMap;
use std::io::{Read, Write};
use std::net::{SocketAddr, TcpListener, TcpStream};
use std::sync::atomic::{AtomicBool, AtomicUsize, Ordering};
use std::sync::{Arc, Condvar, Mutex, OnceLock};
use std::thread;
use std::time::{Duration, Instant};

use rand::rngs::StdRng;
use rand::{RngExt, SeedableRng};
use serde_json::{Value, json};
use sozu_command_lib::channel::Channel;
use sozu_command_lib::config::ListenerBuilder;
use sozu_command_lib::proto::command::{
    ActivateListener, AddCertificate, CertificateAndKey, HardStop, ListenerType, RemoveBackend, Request,
    ResponseStatus, ReturnListenSockets, SoftStop, WorkerRequest, WorkerResponse, request::RequestType,
};
use sozu_command_lib::scm_socket::Listeners;
use vh::h2::{self, Frame, H2Conn, TlsStream};
use vh::worker::{LOCAL_CERT, LOCAL_KEY, Worker, free_addr, ok};

const T_CMD: Duration = Duration::from_secs(8);
const T_IO: Duration = Duration::from_secs(10);
const T_ACK: Duration = Duration::from_secs(20);
const BACKEND_DELAY_MS: u64 = 350;

// ------------------------------------------------------------------------------------------------
// mock backends

struct Seen {
    map: Mutex<HashMap<String, String>>,
    cv: Condvar,
}
static SEEN: OnceLock<Seen> = OnceLock::new();
fn seen() -> &'static Seen {
    SEEN.get_or_init(|| Seen { map: Mutex::new(HashMap::new()), cv: Condvar::new() })
}
fn mark_seen(req: &str, who: &str) {
    let s = seen();
    s.map.lock().unwrap().insert(req.to_string(), who.to_string());
    s.cv.notify_all();
}
fn wait_seen(req: &str, timeout: Duration) -> Option<String> {
    let s = seen();
    let deadline = Instant::now() + timeout;
    let mut g = s.map.lock().unwrap();
    loop {
        if let Some(w) = g.get(req) {
            return Some(w.clone());
        }
        let now = Instant::now();
        if now >= deadline {
            return None;
        }
        g = s.cv.wait_timeout(g, deadline - now).unwrap().0;
    }
}
fn lookup_seen(req: &str) -> String {
    seen().map.lock().unwrap().get(req).cloned().unwrap_or_else(|| "none".to_string())
}

fn find(hay: &[u8], needle: &[u8]) -> Option<usize> {
    hay.windows(needle.len()).position(|w| w == needle)
}

fn header<'a>(head: &'a str, name: &str) -> Option<&'a str> {
    for l in head.split("\r\n").skip(1) {
        if let Some((k, v)) = l.split_once(':') {
            if k.trim().eq_ignore_ascii_case(name) {
                return Some(v.trim());
            }
        }
    }
    None
}

/// HTTP/1.1 backend: records the request id as soon as the head is complete, reads the body, waits
/// X-Delay milliseconds, answers `200` with body "<who>:<req>". Keep-alive.
fn backend_conn(mut s: TcpStream, who: &'static str) {
    s.set_read_timeout(Some(Duration::from_secs(60))).ok();
    let mut buf: Vec<u8> = Vec::new();
    let mut tmp = [0u8; 8192];
    loop {
        let head_end = loop {
            if let Some(p) = find(&buf, b"\r\n\r\n") {
                break p + 4;
            }
            match s.read(&mut tmp) {
                Ok(0) | Err(_) => return,
                Ok(n) => buf.extend_from_slice(&tmp[..n]),
            }
        };
        let head = String::from_utf8_lossy(&buf[..head_end]).to_string();
        let req = header(&head, "x-req").unwrap_or("?").to_string();
        let delay: u64 = header(&head, "x-delay").and_then(|v| v.parse().ok()).unwrap_or(0);
        let clen: Option<usize> = header(&head, "content-length").and_then(|v| v.parse().ok());
        let chunked = header(&head, "transfer-encoding").map(|v| v.to_ascii_lowercase().contains("chunked")).unwrap_or(false);
        let flow = header(&head, "x-flow").unwrap_or("").to_string();
        mark_seen(&req, who);
        buf.drain(..head_end);
        // life stages of an exchange beyond "request, then response" (see `open_flow_slot`): what the backend sends
        // next waits for the gate of the request, which the orchestrating thread opens at the release moment
        match flow.as_str() {
            // the client withholds its body until the interim response
            "expect" => {
                if !flow_gate(&req) || s.write_all(b"HTTP/1.1 100 Continue\r\n\r\n").is_err() {
                    return;
                }
            }
            // protocol upgrade: 101, then the connection is a tunnel (every piece received is answered by a line)
            "upgrade" => {
                if !flow_gate(&req) {
                    return;
                }
                let r = format!("HTTP/1.1 101 Switching Protocols\r\nConnection: Upgrade\r\nUpgrade: websocket\r\nX-Be: {who}\r\n\r\n");
                if s.write_all(r.as_bytes()).is_err() {
                    return;
                }
                s.set_read_timeout(Some(Duration::from_secs(20))).ok();
                loop {
                    match s.read(&mut tmp) {
                        Ok(0) | Err(_) => return,
                        Ok(_) => {
                            if s.write_all(format!("{who}:{req}\n").as_bytes()).is_err() {
                                return;
                            }
                        }
                    }
                }
            }
            // final response from the request head, while the client is still uploading the body
            "early" => {
                if !flow_gate(&req) {
                    return;
                }
                let body = format!("{who}:{req}");
                let r = format!("HTTP/1.1 200 OK\r\nContent-Length: {}\r\nContent-Type: text/plain\r\nConnection: close\r\n\r\n{}", body.len(), body);
                if s.write_all(r.as_bytes()).is_err() {
                    return;
                }
                // no reset under the response: half-close, then wait for the proxy's close
                let _ = s.shutdown(std::net::Shutdown::Write);
                s.set_read_timeout(Some(Duration::from_secs(20))).ok();
                while let Ok(n) = s.read(&mut tmp) {
                    if n == 0 {
                        break;
                    }
                }
                return;
            }
            _ => {}
        }
        if chunked {
            loop {
                if let Some(p) = find(&buf, b"0\r\n\r\n") {
                    buf.drain(..p + 5);
                    break;
                }
                match s.read(&mut tmp) {
                    Ok(0) | Err(_) => return,
                    Ok(n) => buf.extend_from_slice(&tmp[..n]),
                }
            }
        } else {
            let need = clen.unwrap_or(0);
            while buf.len() < need {
                match s.read(&mut tmp) {
                    Ok(0) | Err(_) => return,
                    Ok(n) => buf.extend_from_slice(&tmp[..n]),
                }
            }
            buf.drain(..need);
        }
        if delay > 0 {
            thread::sleep(Duration::from_millis(delay));
        }
        match flow.as_str() {
            // one or two 103 Early Hints, the final response well after them (more than two shutdown passes)
            "hints" | "hints2" => {
                if !flow_gate(&req) {
                    return;
                }
                for k in 0..(if flow == "hints2" { 2usize } else { 1 }) {
                    if s.write_all(b"HTTP/1.1 103 Early Hints\r\nLink: </c10.css>; rel=preload; as=style\r\n\r\n").is_err() {
                        return;
                    }
                    // the next message leaves once the client holds this one (it says so: `allow` counts the interim
                    // responses it has read; at most 8 s are waited for that) and FLOW_FINAL_DELAY_MS later: however
                    // late the worker's thread runs, it never finds two messages in one read
                    let _ = resp_wait(&req, Duration::from_secs(8), |st| st.allow > k);
                    thread::sleep(Duration::from_millis(FLOW_FINAL_DELAY_MS));
                }
            }
            // one or two 103 Early Hints and the final response in ONE write: the proxy reads them all at once
            // (the stage "interim relayed, final response awaited" lasts no time at all)
            "hints0" | "hints00" => {
                if !flow_gate(&req) {
                    return;
                }
                let body = format!("{who}:{req}");
                let hint = "HTTP/1.1 103 Early Hints\r\nLink: </c10.css>; rel=preload; as=style\r\n\r\n";
                let resp = format!("{}HTTP/1.1 200 OK\r\nContent-Length: {}\r\nContent-Type: text/plain\r\n\r\n{}", hint.repeat(if flow == "hints00" { 2 } else { 1 }), body.len(), body);
                if s.write_all(resp.as_bytes()).is_err() {
                    return;
                }
                continue;
            }
            // a plain exchange whose answer waits for the gate (the first of two pipelined requests)
            "gate" => {
                if !flow_gate(&req) {
                    return;
                }
            }
            _ => {}
        }
        if let Some(spec) = header(&head, "x-resp").and_then(RespSpec::parse) {
            if serve_big(&mut s, who, &req, &spec) {
                continue;
            }
            return;
        }
        let body = format!("{who}:{req}");
        let resp = format!("HTTP/1.1 200 OK\r\nContent-Length: {}\r\nContent-Type: text/plain\r\n\r\n{}", body.len(), body);
        if s.write_all(resp.as_bytes()).is_err() {
            return;
        }
    }
}

/// the final response follows an interim one after this long: more than two passes of shut_down_sessions
const FLOW_FINAL_DELAY_MS: u64 = 250;

/// waits until the orchestrating thread opens the gate of `req`; false: it never did
fn flow_gate(req: &str) -> bool {
    let ok = resp_wait(req, Duration::from_secs(60), |st| st.gate);
    if !ok {
        resp_update(req, |st| st.failed = Some("the gate was never opened".into()));
    }
    ok
}

fn spawn_http_backend(who: &'static str) -> SocketAddr {
    let l = TcpListener::bind("127.0.0.1:0").expect("backend bind");
    let addr = l.local_addr().unwrap();
    thread::Builder::new().name(format!("be-{who}")).spawn(move || {
        for c in l.incoming().flatten() {
            thread::spawn(move || backend_conn(c, who));
        }
    }).unwrap();
    addr
}

/// TCP backend: sends "<who>\n" at once, then swallows whatever comes until EOF.
fn spawn_tcp_backend(who: &'static str) -> SocketAddr {
    let l = TcpListener::bind("127.0.0.1:0").expect("backend bind");
    let addr = l.local_addr().unwrap();
    thread::Builder::new().name(format!("tbe-{who}")).spawn(move || {
        for mut c in l.incoming().flatten() {
            thread::spawn(move || {
                let _ = c.write_all(format!("{who}\n").as_bytes());
                c.set_read_timeout(Some(Duration::from_secs(30))).ok();
                let mut t = [0u8; 256];
                while let Ok(n) = c.read(&mut t) {
                    if n == 0 {
                        break;
                    }
                }
            });
        }
    }).unwrap();
    addr
}

struct Backends {
    http_old: SocketAddr,
    http_new: SocketAddr,
    tcp_old: SocketAddr,
    tcp_new: SocketAddr,
}

// ------------------------------------------------------------------------------------------------
// client side helpers

fn h1_head(req: &str, delay: u64, body_len: usize, close: bool) -> String {
    h1_head_x(req, delay, body_len, close, None)
}

fn h1_head_x(req: &str, delay: u64, body_len: usize, close: bool, resp: Option<&RespSpec>) -> String {
    format!(
        "POST /c10 HTTP/1.1\r\nHost: localhost\r\nX-Req: {req}\r\nX-Delay: {delay}\r\nContent-Length: {body_len}\r\n{}{}\r\n",
        if close { "Connection: close\r\n" } else { "" },
        resp.map(|r| format!("X-Resp: {}\r\n", r.directive())).unwrap_or_default()
    )
}

/// (outcome, by): outcome "done" iff a complete 200 answer whose body names the request
fn h1_read_response(s: &mut TcpStream, req: &str, timeout: Duration) -> (String, String) {
    h1_read_response_a(s, req, timeout, &|| false)
}

/// `abort` is polled every 200 ms: the observation is abandoned ("aborted") when it says so
fn h1_read_response_a(s: &mut TcpStream, req: &str, timeout: Duration, abort: &dyn Fn() -> bool) -> (String, String) {
    s.set_read_timeout(Some(Duration::from_millis(200))).ok();
    let mut buf: Vec<u8> = Vec::new();
    let mut tmp = [0u8; 4096];
    let deadline = Instant::now() + timeout;
    loop {
        if let Some(p) = find(&buf, b"\r\n\r\n") {
            let head = String::from_utf8_lossy(&buf[..p + 4]).to_string();
            let clen: usize = header(&head, "content-length").and_then(|v| v.parse().ok()).unwrap_or(0);
            if buf.len() >= p + 4 + clen {
                let body = String::from_utf8_lossy(&buf[p + 4..p + 4 + clen]).to_string();
                let status = head.split(' ').nth(1).unwrap_or("").to_string();
                if status == "200" {
                    if let Some((who, r)) = body.split_once(':') {
                        if r == req {
                            return ("done".into(), who.to_string());
                        }
                    }
                }
                return (format!("status{status}"), "none".into());
            }
        }
        if Instant::now() >= deadline {
            return ("timeout".into(), "none".into());
        }
        match s.read(&mut tmp) {
            Ok(0) => return ("cut".into(), "none".into()),
            Ok(n) => buf.extend_from_slice(&tmp[..n]),
            Err(e) if e.kind() == std::io::ErrorKind::WouldBlock || e.kind() == std::io::ErrorKind::TimedOut => {
                if abort() {
                    return ("aborted".into(), "none".into());
                }
            }
            Err(_) => return ("cut".into(), "none".into()),
        }
    }
}

fn tls_over(tcp: TcpStream, timeout: Duration) -> Result<H2Conn<TlsStream>, String> {
    tls_over_a(tcp, timeout, &|| false)
}

fn tls_over_a(tcp: TcpStream, timeout: Duration, abort: &dyn Fn() -> bool) -> Result<H2Conn<TlsStream>, String> {
    let _ = rustls::crypto::ring::default_provider().install_default();
    let verifier = Arc::new(h2::RecordingVerifier { leaf: Mutex::new(None) });
    let mut config = rustls::ClientConfig::builder().dangerous().with_custom_certificate_verifier(verifier).with_no_client_auth();
    config.alpn_protocols = vec![b"h2".to_vec()];
    let name = rustls::pki_types::ServerName::try_from("localhost".to_owned()).map_err(|e| format!("sni: {e}"))?;
    let conn = rustls::ClientConnection::new(Arc::new(config), name).map_err(|e| format!("{e}"))?;
    tcp.set_read_timeout(Some(Duration::from_millis(200))).ok();
    tcp.set_write_timeout(Some(timeout)).ok();
    tcp.set_nodelay(true).ok();
    let deadline = Instant::now() + timeout;
    let mut s = rustls::StreamOwned::new(conn, tcp);
    while s.conn.is_handshaking() {
        match s.conn.complete_io(&mut s.sock) {
            Ok(_) => {}
            Err(e) if e.kind() == std::io::ErrorKind::WouldBlock || e.kind() == std::io::ErrorKind::TimedOut => {
                if abort() {
                    return Err("aborted".into());
                }
                if Instant::now() >= deadline {
                    return Err("timeout".into());
                }
            }
            Err(e) => return Err(format!("handshake: {e}")),
        }
    }
    Ok(H2Conn::new(s))
}

fn h2_send_headers(c: &mut H2Conn<TlsStream>, sid: u32, req: &str, delay: u64, body_len: usize, end_stream: bool) -> bool {
    h2_send_headers_x(c, sid, req, delay, body_len, end_stream, None)
}

fn h2_send_headers_x(c: &mut H2Conn<TlsStream>, sid: u32, req: &str, delay: u64, body_len: usize, end_stream: bool, resp: Option<&RespSpec>) -> bool {
    let d = delay.to_string();
    let l = body_len.to_string();
    let dir = resp.map(|r| r.directive()).unwrap_or_default();
    let mut hs: Vec<(&str, &str)> = vec![("x-req", req), ("x-delay", &d), ("content-length", &l)];
    if resp.is_some() {
        hs.push(("x-resp", &dir));
    }
    let block = h2::request_block(&mut c.hp, "POST", "https", "localhost", "/c10", &hs);
    c.send(&Frame::headers(sid, block, true, end_stream))
}

/// reads until the response on `sid` is complete; (outcome, by)
fn h2_read_response(c: &mut H2Conn<TlsStream>, sid: u32, req: &str, timeout: Duration) -> (String, String) {
    h2_read_response_a(c, sid, req, timeout, &|| false)
}

fn h2_read_response_a(c: &mut H2Conn<TlsStream>, sid: u32, req: &str, timeout: Duration, abort: &dyn Fn() -> bool) -> (String, String) {
    let deadline = Instant::now() + timeout;
    let mut body: Vec<u8> = Vec::new();
    let mut status = String::new();
    loop {
        let now = Instant::now();
        if now >= deadline {
            return ("timeout".into(), "none".into());
        }
        match c.read_frame((deadline - now).min(Duration::from_millis(200))) {
            None => {
                if c.eof {
                    if std::env::var("C10_DEBUG").is_ok() {
                        eprintln!("h2[{req}] EOF io_error={:?}", c.io_error);
                    }
                    return ("cut".into(), "none".into());
                }
                if abort() {
                    return ("aborted".into(), "none".into());
                }
                if Instant::now() >= deadline {
                    return ("timeout".into(), "none".into());
                }
            }
            Some(f) => {
                if std::env::var("C10_DEBUG").is_ok() {
                    eprintln!("h2[{req}] frame ty={} flags={} sid={} len={} {:?}", f.ty, f.flags, f.sid, f.payload.len(),
                        if f.ty == h2::GOAWAY || f.ty == h2::RST_STREAM { f.payload.clone() } else { vec![] });
                }
                match f.ty {
                    h2::SETTINGS if f.flags & h2::FLAG_ACK == 0 => {
                        c.send(&Frame::settings_ack());
                    }
                    h2::HEADERS if f.sid == sid => {
                        if let Ok(hs) = c.hp.decode(&f.payload) {
                            for (k, v) in hs {
                                if k == b":status" {
                                    status = String::from_utf8_lossy(&v).to_string();
                                }
                            }
                        }
                    }
                    h2::DATA if f.sid == sid => {
                        if let Some(d) = f.data_bytes() {
                            body.extend_from_slice(d);
                        }
                    }
                    h2::RST_STREAM if f.sid == sid => return ("cut".into(), "none".into()),
                    _ => {}
                }
                if f.sid == sid && f.end_stream() {
                    let b = String::from_utf8_lossy(&body).to_string();
                    if status == "200" {
                        if let Some((who, r)) = b.split_once(':') {
                            if r == req {
                                return ("done".into(), who.to_string());
                            }
                        }
                    }
                    return (format!("status{status}"), "none".into());
                }
            }
        }
    }
}


// ------------------------------------------------------------------------------------------------
// large responses: scripted backend behaviour, position-coded bodies, probes of the pipeline
//
// A request carrying `X-Resp: <framing>;<n>;<close|keep>;<pause_at>` is answered with a body of n
// position-coded bytes (every byte is a function of the request id and of its offset: a missing, repeated
// or displaced piece is visible wherever it is), framed by Content-Length (`cl`), by chunks (`chunked`)
// or by the close of the connection (`eof`). With `close` the backend announces `Connection: close`,
// half-closes after the last byte and then waits for the proxy to close: `detached` = the proxy has read
// the response to its end and released the backend connection. With pause_at > 0 the backend stops after
// that many body bytes until the orchestrating thread opens the gate of the request (a slow backend).

#[derive(Clone, Debug)]
struct RespSpec {
    framing: &'static str, // cl | chunked | eof
    close: bool,
    n: usize,
    pause_at: usize,
}
impl RespSpec {
    fn parse(v: &str) -> Option<RespSpec> {
        let f: Vec<&str> = v.split(';').collect();
        if f.len() != 4 {
            return None;
        }
        let framing = match f[0] {
            "cl" => "cl",
            "chunked" => "chunked",
            "eof" => "eof",
            _ => return None,
        };
        Some(RespSpec { framing, close: f[1] == "close" || framing == "eof", n: f[2].parse().ok()?, pause_at: f[3].parse().ok()? })
    }
    fn directive(&self) -> String {
        format!("{};{};{};{}", self.framing, if self.close { "close" } else { "keep" }, self.n, self.pause_at)
    }
    fn json(&self) -> Value {
        json!({"framing": self.framing, "close": self.close, "n": self.n, "pause_at": self.pause_at})
    }
}

fn salt_of(req: &str) -> u8 {
    req.bytes().fold(0x5au8, |a, b| a.rotate_left(3) ^ b)
}
#[inline]
fn pat(salt: u8, i: usize) -> u8 {
    ((i % 251) as u8) ^ (((i / 251) % 256) as u8) ^ salt
}
const CHUNK: usize = 1000;

#[derive(Clone, Debug, Default)]
struct RespState {
    /// the backend has written the whole response
    written: bool,
    /// ... and nothing of it is left in the backend's own socket
    flushed: bool,
    /// (close) the proxy closed the backend connection after the half-close
    detached: bool,
    gate: bool,
    /// paced backend: body bytes it may have sent so far (raised by the orchestrating thread)
    allow: usize,
    /// body bytes written and gone from the backend's socket
    sent: usize,
    /// the proxy's end of the backend connection
    peer: Option<SocketAddr>,
    failed: Option<String>,
}
struct RespTable {
    map: Mutex<HashMap<String, RespState>>,
    cv: Condvar,
}
static RESP: OnceLock<RespTable> = OnceLock::new();
fn resp_table() -> &'static RespTable {
    RESP.get_or_init(|| RespTable { map: Mutex::new(HashMap::new()), cv: Condvar::new() })
}
fn resp_update(req: &str, f: impl FnOnce(&mut RespState)) {
    let t = resp_table();
    f(t.map.lock().unwrap().entry(req.to_string()).or_default());
    t.cv.notify_all();
}
fn resp_get(req: &str) -> RespState {
    resp_table().map.lock().unwrap().get(req).cloned().unwrap_or_default()
}
fn resp_wait(req: &str, timeout: Duration, pred: impl Fn(&RespState) -> bool) -> bool {
    let t = resp_table();
    let deadline = Instant::now() + timeout;
    let mut g = t.map.lock().unwrap();
    loop {
        if pred(g.entry(req.to_string()).or_default()) {
            return true;
        }
        let now = Instant::now();
        if now >= deadline {
            return false;
        }
        g = t.cv.wait_timeout(g, deadline - now).unwrap().0;
    }
}

/// the body (wire form) between body offsets [from, to)
fn body_wire(spec: &RespSpec, salt: u8, from: usize, to: usize, out: &mut Vec<u8>) {
    if spec.framing != "chunked" {
        out.extend((from..to).map(|i| pat(salt, i)));
        return;
    }
    // whole chunks of CHUNK bytes; `from` and `to` are chunk-aligned (or the end of the body)
    let mut at = from;
    while at < to {
        let l = CHUNK.min(to - at);
        out.extend_from_slice(format!("{l:x}\r\n").as_bytes());
        out.extend((at..at + l).map(|i| pat(salt, i)));
        out.extend_from_slice(b"\r\n");
        at += l;
    }
}

/// true: the connection is kept for the next request
fn serve_big(s: &mut TcpStream, who: &str, req: &str, spec: &RespSpec) -> bool {
    use std::os::unix::io::AsRawFd;
    s.set_nodelay(true).ok();
    s.set_write_timeout(Some(Duration::from_secs(60))).ok();
    let peer = s.peer_addr().ok();
    resp_update(req, |st| st.peer = peer);
    let salt = salt_of(req);
    let mut head = format!("HTTP/1.1 200 OK\r\nContent-Type: application/octet-stream\r\nX-Be: {who}\r\n");
    match spec.framing {
        "cl" => head.push_str(&format!("Content-Length: {}\r\n", spec.n)),
        "chunked" => head.push_str("Transfer-Encoding: chunked\r\n"),
        _ => {}
    }
    if spec.close {
        head.push_str("Connection: close\r\n");
    }
    head.push_str("\r\n");
    // the body goes out as far as the orchestrating thread allows: everything at once (pause_at = 0), or up
    // to pause_at and then in the steps `allow` is raised by, or the rest at once when the gate opens
    let pause = if spec.pause_at > 0 { (spec.pause_at / CHUNK * CHUNK).min(spec.n) } else { spec.n };
    resp_update(req, |st| st.allow = st.allow.max(pause));
    let mut res = s.write_all(head.as_bytes());
    let mut sent = 0usize;
    let fd = s.as_raw_fd();
    while res.is_ok() && sent < spec.n {
        let mut upto = sent;
        let ok = resp_wait(req, Duration::from_secs(60), |st| st.gate || st.allow > sent);
        if !ok {
            resp_update(req, |st| st.failed = Some("the gate was never opened".into()));
            upto = spec.n;
        } else {
            let st = resp_get(req);
            upto = upto.max(if st.gate { spec.n } else { st.allow.min(spec.n) });
        }
        let mut part = Vec::new();
        body_wire(spec, salt, sent, upto, &mut part);
        res = s.write_all(&part);
        sent = upto;
        if res.is_ok() && sent < spec.n {
            let t0 = Instant::now();
            while outq(fd).unwrap_or(0) > 0 && t0.elapsed() < Duration::from_secs(30) {
                thread::sleep(Duration::from_millis(1));
            }
            resp_update(req, |st| st.sent = sent);
        }
    }
    if res.is_ok() && spec.framing == "chunked" {
        res = s.write_all(b"0\r\n\r\n");
    }
    if let Err(e) = res {
        // the proxy gave the exchange up
        resp_update(req, |st| {
            st.failed = Some(format!("backend write: {e}"));
            st.written = true;
            st.flushed = true;
            st.detached = true;
        });
        return false;
    }
    resp_update(req, |st| st.written = true);
    let t0 = Instant::now();
    while outq(fd).unwrap_or(0) > 0 && t0.elapsed() < Duration::from_secs(30) {
        thread::sleep(Duration::from_millis(1));
    }
    resp_update(req, |st| {
        st.flushed = true;
        st.sent = spec.n;
    });
    if !spec.close {
        return true;
    }
    let _ = s.shutdown(std::net::Shutdown::Write);
    s.set_read_timeout(Some(Duration::from_secs(60))).ok();
    let mut t = [0u8; 1024];
    loop {
        match s.read(&mut t) {
            Ok(0) | Err(_) => break,
            Ok(_) => {}
        }
    }
    resp_update(req, |st| st.detached = true);
    false
}

// ---- probes: the worker threads live in this process, so their sockets are descriptors of this process.
// They are only used to steer a scenario into the state it is about (the tail of a response held by the
// worker behind a full client socket) and to measure that it got there - never for a verdict.

fn sockaddr_of(ss: &libc::sockaddr_storage) -> Option<SocketAddr> {
    if ss.ss_family as i32 != libc::AF_INET {
        return None;
    }
    let a: &libc::sockaddr_in = unsafe { &*(ss as *const _ as *const libc::sockaddr_in) };
    Some(SocketAddr::from((std::net::Ipv4Addr::from(u32::from_be(a.sin_addr.s_addr)), u16::from_be(a.sin_port))))
}
fn sock_pair_of(fd: i32) -> Option<(SocketAddr, SocketAddr)> {
    unsafe {
        let mut ss: libc::sockaddr_storage = std::mem::zeroed();
        let mut l = std::mem::size_of::<libc::sockaddr_storage>() as libc::socklen_t;
        if libc::getsockname(fd, &mut ss as *mut _ as *mut libc::sockaddr, &mut l) != 0 {
            return None;
        }
        let local = sockaddr_of(&ss)?;
        let mut ps: libc::sockaddr_storage = std::mem::zeroed();
        let mut l = std::mem::size_of::<libc::sockaddr_storage>() as libc::socklen_t;
        if libc::getpeername(fd, &mut ps as *mut _ as *mut libc::sockaddr, &mut l) != 0 {
            return None;
        }
        Some((local, sockaddr_of(&ps)?))
    }
}
/// some descriptor of this process is a listening TCP socket bound to `addr`
fn listening_here(addr: SocketAddr) -> bool {
    let Ok(dir) = std::fs::read_dir("/proc/self/fd") else { return true };
    for e in dir.flatten() {
        let Some(fd) = e.file_name().to_str().and_then(|n| n.parse::<i32>().ok()) else { continue };
        unsafe {
            let mut ss: libc::sockaddr_storage = std::mem::zeroed();
            let mut l = std::mem::size_of::<libc::sockaddr_storage>() as libc::socklen_t;
            if libc::getsockname(fd, &mut ss as *mut _ as *mut libc::sockaddr, &mut l) != 0 || sockaddr_of(&ss) != Some(addr) {
                continue;
            }
            let mut v: libc::c_int = 0;
            let mut l = 4 as libc::socklen_t;
            if libc::getsockopt(fd, libc::SOL_SOCKET, libc::SO_ACCEPTCONN, &mut v as *mut _ as *mut libc::c_void, &mut l) == 0 && v != 0 {
                return true;
            }
        }
    }
    false
}

/// the descriptor (of any thread of this process) of the TCP connection local -> peer
fn find_fd(local: SocketAddr, peer: SocketAddr) -> Option<i32> {
    let dir = std::fs::read_dir("/proc/self/fd").ok()?;
    for e in dir.flatten() {
        if let Some(fd) = e.file_name().to_str().and_then(|n| n.parse::<i32>().ok()) {
            if sock_pair_of(fd) == Some((local, peer)) {
                return Some(fd);
            }
        }
    }
    None
}
fn find_fd_within(local: SocketAddr, peer: SocketAddr, timeout: Duration) -> Option<i32> {
    let t0 = Instant::now();
    loop {
        if let Some(fd) = find_fd(local, peer) {
            return Some(fd);
        }
        if t0.elapsed() >= timeout {
            return None;
        }
        thread::sleep(Duration::from_millis(5));
    }
}
/// bytes written to the socket that the peer's kernel has not taken yet
fn outq(fd: i32) -> Option<usize> {
    let mut v: libc::c_int = 0;
    if unsafe { libc::ioctl(fd, libc::TIOCOUTQ, &mut v) } == 0 { Some(v.max(0) as usize) } else { None }
}
/// bytes received and not read
fn inq(fd: i32) -> Option<usize> {
    let mut v: libc::c_int = 0;
    if unsafe { libc::ioctl(fd, libc::FIONREAD, &mut v) } == 0 { Some(v.max(0) as usize) } else { None }
}
/// a descriptor is only trusted while it still is the connection it was found for
fn probe_out(fd: Option<i32>, local: SocketAddr, peer: SocketAddr) -> Option<usize> {
    let fd = fd?;
    if sock_pair_of(fd) != Some((local, peer)) {
        return None;
    }
    outq(fd)
}

/// TCP client whose receive buffer and segment size are small: little fits between the worker and the client
fn small_client(addr: SocketAddr, rcvbuf: i32, mss: i32) -> std::io::Result<TcpStream> {
    use std::os::unix::io::FromRawFd;
    let SocketAddr::V4(a4) = addr else {
        return Err(std::io::Error::other("ipv4 only"));
    };
    unsafe {
        let fd = libc::socket(libc::AF_INET, libc::SOCK_STREAM | libc::SOCK_CLOEXEC, 0);
        if fd < 0 {
            return Err(std::io::Error::last_os_error());
        }
        let s = TcpStream::from_raw_fd(fd);
        libc::setsockopt(fd, libc::SOL_SOCKET, libc::SO_RCVBUF, &rcvbuf as *const _ as *const libc::c_void, 4);
        libc::setsockopt(fd, libc::IPPROTO_TCP, libc::TCP_MAXSEG, &mss as *const _ as *const libc::c_void, 4);
        let sa = libc::sockaddr_in {
            sin_family: libc::AF_INET as libc::sa_family_t,
            sin_port: a4.port().to_be(),
            sin_addr: libc::in_addr { s_addr: u32::from(*a4.ip()).to_be() },
            sin_zero: [0; 8],
        };
        if libc::connect(fd, &sa as *const _ as *const libc::sockaddr, std::mem::size_of::<libc::sockaddr_in>() as libc::socklen_t) != 0 {
            return Err(std::io::Error::last_os_error());
        }
        Ok(s)
    }
}

/// Incremental HTTP/1.1 response reader of a position-coded body.
#[derive(Default)]
struct H1Resp {
    buf: Vec<u8>,
    head_len: usize, // 0: head not complete yet
    status: String,
    by: String,
    framing: String, // cl | chunked | eof (as the CLIENT sees the response)
    clen: usize,
    body_got: usize,
    corrupt: Option<usize>,
    complete: bool,
    raw: usize, // bytes taken from the socket
    chunk_left: usize,
    cstate: u8, // 0 size line, 1 data, 2 crlf after data, 3 trailers
    salt: u8,
}
impl H1Resp {
    fn new(salt: u8) -> H1Resp {
        H1Resp { salt, by: "none".into(), ..Default::default() }
    }
    fn take_body(&mut self, n: usize) {
        for i in 0..n {
            if self.corrupt.is_none() && self.buf[i] != pat(self.salt, self.body_got + i) {
                self.corrupt = Some(self.body_got + i);
            }
        }
        self.body_got += n;
        self.buf.drain(..n);
    }
    fn feed(&mut self, data: &[u8]) {
        self.raw += data.len();
        self.buf.extend_from_slice(data);
        if self.head_len == 0 {
            let Some(p) = find(&self.buf, b"\r\n\r\n") else { return };
            let head = String::from_utf8_lossy(&self.buf[..p + 4]).to_string();
            self.head_len = p + 4;
            self.status = head.split(' ').nth(1).unwrap_or("").to_string();
            self.by = header(&head, "x-be").unwrap_or("none").to_string();
            if header(&head, "transfer-encoding").map(|v| v.to_ascii_lowercase().contains("chunked")).unwrap_or(false) {
                self.framing = "chunked".into();
            } else if let Some(l) = header(&head, "content-length").and_then(|v| v.parse::<usize>().ok()) {
                self.framing = "cl".into();
                self.clen = l;
                self.complete = l == 0;
            } else {
                self.framing = "eof".into();
            }
            self.buf.drain(..p + 4);
        }
        loop {
            if self.complete {
                return;
            }
            match self.framing.as_str() {
                "cl" => {
                    let n = self.buf.len().min(self.clen - self.body_got);
                    self.take_body(n);
                    self.complete = self.body_got == self.clen;
                    return;
                }
                "eof" => {
                    let n = self.buf.len();
                    self.take_body(n);
                    return;
                }
                _ => match self.cstate {
                    0 => {
                        let Some(p) = find(&self.buf, b"\r\n") else { return };
                        let line = String::from_utf8_lossy(&self.buf[..p]).to_string();
                        let hex = line.split(';').next().unwrap_or("").trim();
                        match usize::from_str_radix(hex, 16) {
                            Ok(0) => self.cstate = 3,
                            Ok(l) => {
                                self.chunk_left = l;
                                self.cstate = 1;
                            }
                            Err(_) => {
                                self.corrupt = Some(self.body_got);
                                self.complete = true;
                            }
                        }
                        self.buf.drain(..p + 2);
                    }
                    1 => {
                        let n = self.buf.len().min(self.chunk_left);
                        if n == 0 {
                            return;
                        }
                        self.take_body(n);
                        self.chunk_left -= n;
                        if self.chunk_left == 0 {
                            self.cstate = 2;
                        }
                    }
                    2 => {
                        if self.buf.len() < 2 {
                            return;
                        }
                        if &self.buf[..2] != b"\r\n" {
                            self.corrupt = Some(self.body_got);
                        }
                        self.buf.drain(..2);
                        self.cstate = 0;
                    }
                    _ => {
                        let Some(p) = find(&self.buf, b"\r\n") else { return };
                        let empty = p == 0;
                        self.buf.drain(..p + 2);
                        if empty {
                            self.complete = true;
                        }
                    }
                },
            }
        }
    }
    /// how the exchange ended for the client. `end`: "" (still open), "eof", "reset", "timeout"
    fn outcome(&self, end: &str, n: usize) -> String {
        if self.head_len > 0 && self.status != "200" {
            return format!("status{}", self.status);
        }
        if self.corrupt.is_some() || self.body_got > n {
            return "corrupt".into();
        }
        let whole = self.body_got == n;
        match (self.framing.as_str(), end) {
            (_, _) if self.complete => if whole { "done".into() } else { "short".into() },
            ("eof", "eof") if self.head_len > 0 => if whole { "done".into() } else { "short".into() },
            (_, "timeout") | (_, "") => "timeout".into(),
            _ => "cut".into(),
        }
    }
}

/// reads until `stop` says so; returns "" (stopped), "eof", "reset" or "timeout"
fn h1_pump(t: &mut TcpStream, p: &mut H1Resp, timeout: Duration, max_raw: usize, stop: &dyn Fn(&H1Resp) -> bool) -> &'static str {
    let deadline = Instant::now() + timeout;
    let mut tmp = vec![0u8; 16384];
    t.set_read_timeout(Some(Duration::from_millis(100))).ok();
    loop {
        if stop(p) || p.raw >= max_raw {
            return "";
        }
        if Instant::now() >= deadline {
            return "timeout";
        }
        let want = tmp.len().min(max_raw - p.raw);
        match t.read(&mut tmp[..want]) {
            Ok(0) => return "eof",
            Ok(n) => p.feed(&tmp[..n]),
            Err(e) if e.kind() == std::io::ErrorKind::WouldBlock || e.kind() == std::io::ErrorKind::TimedOut => {}
            Err(_) => return "reset",
        }
    }
}

/// one HTTP/2 stream carrying a position-coded (or a small) response
#[derive(Default, Clone)]
struct H2Rx {
    status: String,
    by: String,
    got: usize,
    small: Vec<u8>,
    big: bool,
    salt: u8,
    corrupt: Option<usize>,
    end: bool,
    rst: bool,
}
struct H2Pump {
    streams: HashMap<u32, H2Rx>,
    goaway: bool,
    /// WINDOW_UPDATE for everything received (connection and stream)
    grant: bool,
}
/// returns "" (stopped), "eof", "timeout"
fn h2_pump(c: &mut H2Conn<TlsStream>, st: &mut H2Pump, timeout: Duration, quiet: Option<Duration>, stop: &dyn Fn(&H2Pump) -> bool) -> &'static str {
    let deadline = Instant::now() + timeout;
    let mut last = Instant::now();
    loop {
        if stop(st) {
            return "";
        }
        let now = Instant::now();
        if now >= deadline {
            return "timeout";
        }
        if let Some(q) = quiet {
            if last.elapsed() >= q {
                return "";
            }
        }
        match c.read_frame((deadline - now).min(Duration::from_millis(100))) {
            None => {
                if c.eof {
                    return "eof";
                }
            }
            Some(f) => {
                last = Instant::now();
                h2_handle(c, st, &f);
            }
        }
    }
}

fn h2_handle(c: &mut H2Conn<TlsStream>, st: &mut H2Pump, f: &Frame) {
    if std::env::var("C10_DEBUG").is_ok() {
        eprintln!("h2pump frame ty={} flags={} sid={} len={} {:?}", f.ty, f.flags, f.sid, f.payload.len(),
            if f.ty == h2::GOAWAY || f.ty == h2::RST_STREAM { f.payload.clone() } else { vec![] });
    }
    match f.ty {
        h2::SETTINGS if f.flags & h2::FLAG_ACK == 0 => {
            c.send(&Frame::settings_ack());
        }
        h2::GOAWAY => st.goaway = true,
        h2::HEADERS => {
            let hs = c.hp.decode(&f.payload).unwrap_or_default();
            if let Some(x) = st.streams.get_mut(&f.sid) {
                for (k, v) in hs {
                    if k == b":status" {
                        x.status = String::from_utf8_lossy(&v).to_string();
                    } else if k == b"x-be" {
                        x.by = String::from_utf8_lossy(&v).to_string();
                    }
                }
            }
        }
        h2::DATA => {
            let d = f.data_bytes().map(|d| d.to_vec()).unwrap_or_default();
            if let Some(x) = st.streams.get_mut(&f.sid) {
                if x.big {
                    for (i, b) in d.iter().enumerate() {
                        if x.corrupt.is_none() && *b != pat(x.salt, x.got + i) {
                            x.corrupt = Some(x.got + i);
                        }
                    }
                } else {
                    x.small.extend_from_slice(&d);
                }
                x.got += d.len();
            }
            if st.grant && !f.payload.is_empty() {
                let l = f.payload.len() as u32;
                c.send(&Frame::window_update(0, l));
                if !f.end_stream() {
                    c.send(&Frame::window_update(f.sid, l));
                }
            }
        }
        h2::RST_STREAM => {
            if let Some(x) = st.streams.get_mut(&f.sid) {
                x.rst = true;
            }
        }
        _ => {}
    }
    if f.end_stream() {
        if let Some(x) = st.streams.get_mut(&f.sid) {
            x.end = true;
        }
    }
}

/// a reader that hands out at most `left` bytes of the socket
struct Limited<'a> {
    s: &'a mut TcpStream,
    left: usize,
}
impl Read for Limited<'_> {
    fn read(&mut self, buf: &mut [u8]) -> std::io::Result<usize> {
        if self.left == 0 {
            return Err(std::io::ErrorKind::WouldBlock.into());
        }
        let n = buf.len().min(self.left);
        let r = self.s.read(&mut buf[..n])?;
        self.left -= r;
        Ok(r)
    }
}

/// takes at most `max` bytes from the TCP socket (whatever the TLS record sizes) and handles the frames they
/// complete; "" or "eof"
fn h2_pump_raw(c: &mut H2Conn<TlsStream>, st: &mut H2Pump, max: usize) -> &'static str {
    let mut end = "";
    c.s.sock.set_read_timeout(Some(Duration::from_millis(10))).ok();
    let mut left = max;
    let mut tmp = vec![0u8; 65536];
    'outer: while left > 0 {
        let mut lim = Limited { s: &mut c.s.sock, left };
        let r = c.s.conn.read_tls(&mut lim);
        left = lim.left;
        match r {
            Ok(0) => {
                end = "eof";
                break;
            }
            Ok(_) => {
                if c.s.conn.process_new_packets().is_err() {
                    end = "eof";
                    break;
                }
            }
            Err(e) if e.kind() == std::io::ErrorKind::WouldBlock || e.kind() == std::io::ErrorKind::TimedOut => break,
            Err(_) => {
                end = "eof";
                break;
            }
        }
        // the plaintext must be taken out before the TLS layer accepts more
        loop {
            match c.s.conn.reader().read(&mut tmp) {
                Ok(0) => {
                    end = "eof";
                    break 'outer;
                }
                Ok(n) => c.fb.push(&tmp[..n]),
                Err(_) => break,
            }
        }
    }
    while let Some(f) = c.fb.next() {
        h2_handle(c, st, &f);
    }
    if end == "eof" {
        c.eof = true;
    }
    end
}

fn h2_big_outcome(x: &H2Rx, end: &str, n: usize) -> String {
    if !x.status.is_empty() && x.status != "200" {
        return format!("status{}", x.status);
    }
    if x.corrupt.is_some() || x.got > n {
        return "corrupt".into();
    }
    if x.end {
        return if x.got == n { "done".into() } else { "short".into() };
    }
    if x.rst || end == "eof" {
        return "cut".into();
    }
    "timeout".into()
}

// ------------------------------------------------------------------------------------------------
// scenario description

#[derive(Clone, Debug)]
struct SlotSpec {
    stage: &'static str, // preHeaders midBody awaitResp idleKeepAlive h2Open h2Await | respStreaming respTail h2RespStreaming h2RespTail
    partial: bool,
    release: &'static str, // beforeStop afterStop afterAll never
    /// response stages: what the backend answers and how
    resp: Option<RespSpec>,
    /// H2 response stages: the large response is on the stream opened first (a small exchange, finished
    /// before the stop, is on the other stream of the connection)
    big_first: bool,
    /// H2 tail: what keeps the tail in the worker. false: the client reads but grants no window (the tail
    /// waits in the stream's buffer); true: windows wide open, but the client does not read its socket (the
    /// tail waits in the stream's buffer and in the TLS layer, behind a full socket)
    tcp_stall: bool,
    /// life stage of the exchange beyond "request, then response" ("" = none): expect (head sent with
    /// `Expect: 100-continue`, body withheld until the interim response), hints / hints2 (103 Early Hints before
    /// the final response), upgrade (101, then a tunnel), early (final response while the body is still being
    /// uploaded), pipelined (a second request already written behind the one in flight)
    flow: &'static str,
}

#[derive(Clone, Debug)]
struct Scenario {
    run: usize,
    mode: &'static str,        // handover | softstop
    order: &'static str,       // stopFirst | startFirst | upgradeRs
    protos: Vec<&'static str>, // listener a = index + 1
    slots: Vec<SlotSpec>,
    crash: &'static str,       // none afterReturn afterReceived afterSuccStarted afterActivated afterSoftStopSent
    deadline_s: u32,           // 0: default (5 s) and no deadline step; n: listener deadline n and a slot is never released
    hammers: usize,
}

enum Conn {
    H1(TcpStream),
    H2(Box<H2Conn<TlsStream>>),
}

struct Slot {
    spec: SlotSpec,
    a: usize,
    conn: Option<Conn>,
    req: String,
    body_sent: usize,
    head_sent: usize,
    full: Vec<u8>, // full H1 request bytes
    ended: bool,
    /// the rest of the request was written, the answer is still awaited
    released: bool,
    /// response stages
    rc: Option<RespCtx>,
}

/// client side of a slot parked while its response is being delivered
struct RespCtx {
    spec: RespSpec,
    h1: H1Resp,
    h2: H2Pump,
    sid: u32,
    /// bytes of the response that had left the worker (read by the client, in its socket or on their way)
    /// when the slot was declared parked; None: not measured
    delivered: Option<usize>,
    /// what the set-up measured (capacity of the pipe, target and fallback steps)
    info: Value,
}

struct Ctl {
    ev: Vec<Value>,
    ctr: Arc<AtomicUsize>,
    rng: StdRng,
    jitter_ms: u64,
    /// before the stop was written (lower bound of the moment the worker arms its graceful deadline)
    stop_at: Option<Instant>,
    /// how long a parked client stays silent after the stop before it reads on: long enough for the first
    /// passes of shut_down_sessions, far inside the graceful deadline
    resume_ms: u64,
    /// the run says nothing (e.g. this thread was so late that the graceful deadline may have passed)
    inconclusive: Option<String>,
}
impl Ctl {
    /// record the event, publish the new count, then linger a (seeded) moment so that the hammers get to
    /// see the state the system is in between two steps of the hand-over
    fn log(&mut self, v: Value) {
        self.ev.push(v);
        self.ctr.store(self.ev.len(), Ordering::SeqCst);
        if self.jitter_ms > 0 {
            let d = self.rng.random_range(0..=self.jitter_ms);
            if d > 0 {
                thread::sleep(Duration::from_millis(d));
            }
        }
    }
}


// ------------------------------------------------------------------------------------------------
// slots parked while their RESPONSE is being delivered

const SMALL_RCVBUF: i32 = 2048;
const SMALL_MSS: i32 = 536;
const H2_WINDOW: usize = 65_535;
/// send buffer given to the worker's socket towards a client that does not read (the kernel doubles it)
const FRONT_SNDBUF: i32 = 8192;

/// polls `probe` every 5 ms until it has returned the same value 8 times in a row
fn settle(probe: &dyn Fn() -> Option<usize>, timeout: Duration) -> Option<usize> {
    settle_n(probe, 8, 5, timeout)
}
fn settle_n(probe: &dyn Fn() -> Option<usize>, n: usize, every_ms: u64, timeout: Duration) -> Option<usize> {
    let t0 = Instant::now();
    let mut last: Option<usize> = None;
    let mut same = 0;
    while t0.elapsed() < timeout {
        let v = probe();
        if v.is_some() && v == last {
            same += 1;
            if same >= n {
                return v;
            }
        } else {
            same = 0;
            last = v;
        }
        thread::sleep(Duration::from_millis(every_ms));
    }
    None
}
/// length on the wire of the first `b` body bytes (b: a multiple of CHUNK, or the whole body)
fn wire_len(spec: &RespSpec, b: usize) -> usize {
    if spec.framing != "chunked" {
        return b;
    }
    let full = b / CHUNK;
    let rest = b % CHUNK;
    full * (format!("{CHUNK:x}").len() + 2 + CHUNK + 2) + if rest > 0 { format!("{rest:x}").len() + 2 + rest + 2 } else { 0 }
}

/// the worker has read the response to its end: the backend saw its connection closed (close), or
/// everything it wrote has left its socket and nothing waits unread in the worker's (keep-alive)
fn backend_done(req: &str, spec: &RespSpec, be_addr: SocketAddr) -> bool {
    let st = resp_get(req);
    if st.failed.is_some() {
        return true;
    }
    if spec.close {
        return st.detached;
    }
    if !st.flushed {
        return false;
    }
    match st.peer.and_then(|p| find_fd(p, be_addr)) {
        Some(fd) => inq(fd) == Some(0),
        None => true,
    }
}
fn wait_backend_done(req: &str, spec: &RespSpec, be_addr: SocketAddr, timeout: Duration) -> bool {
    let t0 = Instant::now();
    loop {
        if backend_done(req, spec, be_addr) {
            return true;
        }
        if t0.elapsed() >= timeout {
            return false;
        }
        thread::sleep(Duration::from_millis(4));
    }
}

#[allow(clippy::too_many_arguments)]
fn open_resp_slot(sp: &SlotSpec, r: usize, a: usize, addr: SocketAddr, be_addr: SocketAddr, req: &str, buffer_size: usize, ctl: &mut Ctl) -> Result<(Conn, RespCtx), String> {
    use std::os::unix::io::AsRawFd;
    let spec = sp.resp.clone().ok_or("no response description")?;
    let salt = salt_of(req);
    let is_h2 = sp.stage.starts_with("h2");
    let tail = sp.stage.ends_with("Tail");
    let pause = (spec.pause_at / CHUNK * CHUNK).min(spec.n);
    let open_ev = |stage: &str| json!({"e": "SlotOpen", "r": r, "a": a, "stage": stage, "partial": false, "for": sp.stage, "resp": spec.json()});
    let mut ctx = RespCtx {
        spec: spec.clone(),
        h1: H1Resp::new(salt),
        h2: H2Pump { streams: HashMap::new(), goaway: false, grant: false },
        sid: 0,
        delivered: None,
        info: json!({}),
    };
    if !is_h2 {
        let mut t = if tail { small_client(addr, SMALL_RCVBUF, SMALL_MSS) } else { TcpStream::connect_timeout(&addr, T_IO) }.map_err(|e| format!("connect: {e}"))?;
        t.set_nodelay(true).ok();
        t.set_write_timeout(Some(T_IO)).ok();
        let local = t.local_addr().map_err(|e| e.to_string())?;
        // (tail) the worker's socket towards this client gets its small send buffer before anything flows
        let front = if tail { find_fd_within(addr, local, Duration::from_secs(3)) } else { None };
        let sndbuf = front.map(|fd| {
            let want: libc::c_int = FRONT_SNDBUF;
            let mut v: libc::c_int = 0;
            let mut l = 4 as libc::socklen_t;
            unsafe {
                if sock_pair_of(fd) == Some((addr, local)) {
                    libc::setsockopt(fd, libc::SOL_SOCKET, libc::SO_SNDBUF, &want as *const _ as *const libc::c_void, 4);
                    libc::getsockopt(fd, libc::SOL_SOCKET, libc::SO_SNDBUF, &mut v as *mut _ as *mut libc::c_void, &mut l);
                }
            }
            v
        });
        let mut m = h1_head_x(req, 0, BODY.len(), false, Some(&spec)).into_bytes();
        m.extend_from_slice(BODY);
        t.write_all(&m).map_err(|e| format!("request: {e}"))?;
        if wait_seen(req, T_IO).as_deref() != Some("old") {
            return Err("the request head did not reach the old worker's backend".into());
        }
        ctl.log(open_ev("awaitResp"));
        if !tail {
            // (c) a slow backend: the client has the head and the first part, the rest is still to come
            let end = h1_pump(&mut t, &mut ctx.h1, T_IO, usize::MAX, &|p| p.body_got >= pause);
            if !end.is_empty() {
                return Err(format!("first part: {end}"));
            }
            ctl.log(json!({"e": "RespPart", "r": r, "got": ctx.h1.raw, "body": ctx.h1.body_got}));
            return Ok((Conn::H1(t), ctx));
        }
        // (a) The client does not read. The worker's socket towards it gets a small, fixed send buffer (set from
        // here: the worker threads live in this process; it stands for a host with a small tcp_wmem - left to
        // itself Linux grows that buffer to megabytes and nothing ever waits in the worker's own buffer). The
        // pipe between the worker and the client (that send buffer + the client's small receive buffer) fills
        // up and settles: its capacity is measured. The client then takes exactly what leaves, beyond the pipe,
        // about a buffer of the response (a little more is let through in 2 KB steps if it is too much): that
        // can only stay in the worker, which reads the backend to its end and releases it. The tail of the response is now held by the
        // worker, behind a full socket, with the backend gone.
        let n = spec.n;
        let cfd = t.as_raw_fd();
        if front.is_none() {
            return Err("the worker's socket towards the client was not found".into());
        }
        let pipe = || -> Option<usize> { Some(inq(cfd)? + probe_out(front, addr, local)?) };
        let cap = settle(&pipe, Duration::from_secs(5)).ok_or_else(|| format!("the pipe towards the client never settled (front={front:?})"))?;
        let mut pk = vec![0u8; 4096];
        let got = t.peek(&mut pk).map_err(|e| format!("peek: {e}"))?;
        let hl = find(&pk[..got], b"\r\n\r\n").ok_or("no response head in the client's socket")? + 4;
        let mut seen = H1Resp::new(salt);
        seen.feed(&pk[..hl]);
        if seen.framing != spec.framing {
            return Err(format!("the client sees a response framed by {} for {}", seen.framing, spec.framing));
        }
        let w_all = hl + wire_len(&spec, n) + if spec.framing == "chunked" { 5 } else { 0 };
        // aim high: the pipe holds a few KB more once the client has read (the same send buffer takes more
        // payload in larger segments); what does not fit into the worker's buffer is let through in small steps
        let target = ctl.rng.random_range(buffer_size.saturating_sub(6000).max(3000)..=buffer_size.saturating_sub(1500).max(3001));
        if w_all <= cap + target + hl {
            return Err("response too small for the pipe".into());
        }
        let x = w_all - cap - target;
        let end = h1_pump(&mut t, &mut ctx.h1, T_IO, x, &|_| false);
        if !end.is_empty() {
            return Err(format!("first part: {end}"));
        }
        let mut steps = 0usize;
        while !wait_backend_done(req, &spec, be_addr, Duration::from_millis(if steps == 0 { 300 } else { 40 })) {
            // let a little more through at a time (less than the worker moves at once: a third of its send buffer)
            steps += 1;
            if steps > 400 {
                return Err("the backend never got to the end of its response".into());
            }
            let lim = ctx.h1.raw + 2048;
            let end = h1_pump(&mut t, &mut ctx.h1, Duration::from_millis(500), lim, &|_| false);
            if end == "eof" || end == "reset" {
                break;
            }
        }
        let after = settle(&pipe, Duration::from_secs(2));
        ctx.delivered = after.map(|q| ctx.h1.raw + q);
        let st = resp_get(req);
        let held_est = ctx.delivered.map(|d| w_all as i64 - d as i64);
        ctx.info = json!({"pipe": cap, "front_sndbuf": sndbuf, "target_held": target, "w_all": w_all, "fallback_steps": steps, "delivered": ctx.delivered,
                          "held_est": held_est, "rcvbuf": SMALL_RCVBUF, "mss": SMALL_MSS, "buffer_size": buffer_size});
        ctl.log(json!({"e": "RespPart", "r": r, "got": ctx.h1.raw, "body": ctx.h1.body_got}));
        ctl.log(json!({"e": "RespBackendDone", "r": r, "released": spec.close, "backend_failed": st.failed, "held_est": held_est}));
        return Ok((Conn::H1(t), ctx));
    }

    // ---- H2: the large response on one stream, a small finished exchange on the other
    let tcp_stall = tail && sp.tcp_stall;
    let tcp = if tcp_stall { small_client(addr, SMALL_RCVBUF, SMALL_MSS) } else { TcpStream::connect_timeout(&addr, T_IO) }.map_err(|e| format!("connect: {e}"))?;
    tcp.set_nodelay(true).ok();
    let local = tcp.local_addr().map_err(|e| e.to_string())?;
    let raw_fd = tcp.as_raw_fd();
    let front = if tcp_stall { find_fd_within(addr, local, Duration::from_secs(3)) } else { None };
    let sndbuf = front.map(|fd| {
        let want: libc::c_int = FRONT_SNDBUF;
        let mut v: libc::c_int = 0;
        let mut l = 4 as libc::socklen_t;
        unsafe {
            if sock_pair_of(fd) == Some((addr, local)) {
                libc::setsockopt(fd, libc::SOL_SOCKET, libc::SO_SNDBUF, &want as *const _ as *const libc::c_void, 4);
                libc::getsockopt(fd, libc::SOL_SOCKET, libc::SO_SNDBUF, &mut v as *mut _ as *mut libc::c_void, &mut l);
            }
        }
        v
    });
    if tcp_stall && front.is_none() {
        return Err("the worker's socket towards the client was not found".into());
    }
    let mut c = tls_over(tcp, T_IO).map_err(|e| format!("tls: {e}"))?;
    let okp = if tcp_stall {
        // windows wide open: only the socket holds the response back
        c.client_preface(&[(h2::S_INITIAL_WINDOW_SIZE, 1 << 20)]) && c.send(&Frame::window_update(0, 1 << 20))
    } else {
        c.client_preface(&[])
    };
    if !okp {
        return Err("preface".into());
    }
    let (big, small) = if sp.big_first { (1u32, 3u32) } else { (3u32, 1u32) };
    let small_req = format!("{req}x");
    ctx.sid = big;
    // the initial windows cover a slow-backend response entirely; a tail is released with one large grant:
    // the client never writes while it reads the end of a response (a write racing the worker's close
    // would turn into a reset on the client's side, whatever the worker did)
    ctx.h2.grant = false;
    ctx.h2.streams.insert(big, H2Rx { big: true, salt, by: "none".into(), ..Default::default() });
    ctx.h2.streams.insert(small, H2Rx { by: "none".into(), ..Default::default() });
    // opened first, answered second: the small exchange must be over before the large response takes the
    // connection window
    let big_delay = if sp.big_first { BACKEND_DELAY_MS } else { 0 };
    let send_big = |c: &mut H2Conn<TlsStream>| h2_send_headers_x(c, big, req, big_delay, BODY.len(), false, Some(&spec)) && c.send(&Frame::data(big, BODY.to_vec(), true));
    let send_small = |c: &mut H2Conn<TlsStream>| h2_send_headers(c, small, &small_req, 0, BODY.len(), false) && c.send(&Frame::data(small, BODY.to_vec(), true));
    if sp.big_first {
        if !send_big(&mut c) || wait_seen(req, T_IO).as_deref() != Some("old") {
            return Err("the request head did not reach the old worker's backend".into());
        }
        ctl.log(open_ev("h2Await"));
        if !send_small(&mut c) {
            return Err("second stream".into());
        }
    } else if !send_small(&mut c) {
        return Err("first stream".into());
    }
    let end = h2_pump(&mut c, &mut ctx.h2, T_IO, None, &|st| st.streams[&small].end || st.streams[&small].rst);
    let sm = ctx.h2.streams[&small].clone();
    if !end.is_empty() || sm.status != "200" || sm.small != format!("old:{small_req}").into_bytes() {
        return Err(format!("the small exchange on stream {small} did not complete: {end} {}", sm.status));
    }
    if !sp.big_first {
        if !send_big(&mut c) || wait_seen(req, T_IO).as_deref() != Some("old") {
            return Err("the request head did not reach the old worker's backend".into());
        }
        ctl.log(open_ev("h2Await"));
    }
    if !tail {
        let end = h2_pump(&mut c, &mut ctx.h2, T_IO, None, &|st| st.streams[&big].got >= pause || st.streams[&big].end || st.streams[&big].rst);
        if !end.is_empty() || ctx.h2.streams[&big].got < pause {
            return Err(format!("first part: {end}"));
        }
        ctl.log(json!({"e": "RespPart", "r": r, "got": ctx.h2.streams[&big].got, "body": ctx.h2.streams[&big].got, "other_stream_done": small}));
        return Ok((Conn::H2(Box::new(c)), ctx));
    }
    if tcp_stall {
        // (b') The client stops reading its socket. What the worker can hold is its stream buffer, the TLS layer's
        // buffer (64 KB) and the pipe; the client takes the response in small pieces of the TCP stream until the
        // backend has been read to its end: from then on the tail is in the worker, behind a full socket.
        let n = spec.n;
        let pipe = || -> Option<usize> { Some(inq(raw_fd)? + probe_out(front, addr, local)?) };
        let hold = buffer_size + 65_536 + 16_384;
        let mut steps = 0usize;
        let mut gone = false;
        while !backend_done(req, &spec, be_addr) {
            let got = ctx.h2.streams[&big].got;
            let slow = got + hold + 65_536 >= n;
            let end = h2_pump_raw(&mut c, &mut ctx.h2, if slow { 2048 } else { 16_384 });
            steps += 1;
            if end == "eof" || ctx.h2.streams[&big].end || ctx.h2.streams[&big].rst {
                gone = true;
                break;
            }
            if steps > 20_000 {
                return Err("the backend never got to the end of its response".into());
            }
            if slow {
                thread::sleep(Duration::from_millis(2));
            }
        }
        // in one of two scenarios, let the stream buffer drain into the TLS layer: the tail is then held by the TLS
        // layer alone (no stream has anything left to forward)
        let drain = sp.big_first; // the two tcp-stalled scenarios of a quick run have opposite stream orders: one of each kind
        if drain && !gone {
            for _ in 0..14 {
                let _ = h2_pump_raw(&mut c, &mut ctx.h2, 2048);
                thread::sleep(Duration::from_millis(3));
            }
        }
        let inpipe = settle(&pipe, Duration::from_secs(2));
        let got = ctx.h2.streams[&big].got;
        let held_est = inpipe.map(|q| n as i64 - got as i64 - q as i64);
        ctx.delivered = inpipe.map(|q| got + q);
        let st = resp_get(req);
        ctx.info = json!({"stall": "tcp", "pipe": inpipe, "front_sndbuf": sndbuf, "steps": steps, "drained_stream_buffer": drain, "delivered": ctx.delivered,
                          "held_est": held_est, "other_stream_done": small, "buffer_size": buffer_size, "rcvbuf": SMALL_RCVBUF, "mss": SMALL_MSS});
        ctl.log(json!({"e": "RespPart", "r": r, "got": got, "body": got, "other_stream_done": small}));
        ctl.log(json!({"e": "RespBackendDone", "r": r, "released": spec.close, "backend_failed": st.failed, "held_est": held_est}));
        return Ok((Conn::H2(Box::new(c)), ctx));
    }
    // (b) the client grants no window: what exceeds the initial windows stays in the worker
    let end = h2_pump(&mut c, &mut ctx.h2, T_IO, Some(Duration::from_millis(500)), &|st| st.streams[&big].got + st.streams[&small].got >= H2_WINDOW || st.streams[&big].end || st.streams[&big].rst);
    if !end.is_empty() {
        return Err(format!("first part: {end}"));
    }
    let mut steps = 0usize;
    while !wait_backend_done(req, &spec, be_addr, Duration::from_millis(if steps == 0 { 2000 } else { 100 })) {
        steps += 1;
        if steps > 60 {
            return Err("the backend never got to the end of its response".into());
        }
        c.send(&Frame::window_update(0, 2048));
        c.send(&Frame::window_update(big, 2048));
        let _ = h2_pump(&mut c, &mut ctx.h2, Duration::from_millis(300), Some(Duration::from_millis(80)), &|st| st.streams[&big].end || st.streams[&big].rst);
    }
    // whatever was still on its way
    let _ = h2_pump(&mut c, &mut ctx.h2, Duration::from_millis(300), Some(Duration::from_millis(60)), &|st| st.streams[&big].end || st.streams[&big].rst);
    let got = ctx.h2.streams[&big].got;
    ctx.delivered = Some(got);
    let st = resp_get(req);
    ctx.info = json!({"window": H2_WINDOW, "fallback_steps": steps, "delivered": got, "held_est": spec.n as i64 - got as i64, "other_stream_done": small, "buffer_size": buffer_size});
    ctl.log(json!({"e": "RespPart", "r": r, "got": got, "body": got, "other_stream_done": small}));
    ctl.log(json!({"e": "RespBackendDone", "r": r, "released": spec.close, "backend_failed": st.failed, "held_est": spec.n as i64 - got as i64}));
    Ok((Conn::H2(Box::new(c)), ctx))
}

// ------------------------------------------------------------------------------------------------
// slots parked in a life stage of the exchange beyond "request, then response"
//
// A request in flight passes through more stages than "awaiting the response / response streaming": the body
// withheld until `100 Continue`, interim responses (103) before the final one, an upgrade handshake (101, then a
// tunnel), a final response that overtakes the upload of the body, a second request already written behind the
// one in flight. In each of them the proxy sees a "message complete" that is NOT the end of the exchange. The
// slot is parked in that stage with the backend holding its next message back (gate); the gate opens at the
// release moment - for `afterStop` a few hundred ms after the `Processing` notice of the stop, i.e. after several
// passes of shut_down_sessions - and the exchange must then go on to its end.

fn flow_head(method: &str, req: &str, flow: &str, body_len: Option<usize>, extra: &str) -> String {
    format!("{method} /c10 HTTP/1.1\r\nHost: localhost\r\nX-Req: {req}\r\nX-Delay: 0\r\nX-Flow: {flow}\r\n{}{extra}\r\n",
        body_len.map(|l| format!("Content-Length: {l}\r\n")).unwrap_or_default())
}

fn open_flow_slot(sp: &SlotSpec, r: usize, a: usize, addr: SocketAddr, req: &str, ctl: &mut Ctl) -> Result<Conn, String> {
    let open_ev = |stage: &str| json!({"e": "SlotOpen", "r": r, "a": a, "stage": stage, "partial": false, "flow": sp.flow});
    let tcp = TcpStream::connect_timeout(&addr, T_IO).map_err(|e| format!("connect: {e}"))?;
    tcp.set_nodelay(true).ok();
    tcp.set_write_timeout(Some(T_IO)).ok();
    if sp.stage.starts_with("h2") {
        // 103 Early Hints on an HTTP/2 stream
        let mut c = tls_over(tcp, T_IO).map_err(|e| format!("tls: {e}"))?;
        let l = BODY.len().to_string();
        let okk = c.client_preface(&[]) && {
            let block = h2::request_block(&mut c.hp, "POST", "https", "localhost", "/c10", &[("x-req", req), ("x-delay", "0"), ("x-flow", sp.flow), ("content-length", &l)]);
            c.send(&Frame::headers(1, block, true, false))
        } && c.send(&Frame::data(1, BODY.to_vec(), true));
        if !okk || wait_seen(req, T_IO).as_deref() != Some("old") {
            return Err("the request head did not reach the old worker's backend".into());
        }
        // the settings are exchanged now: the parked client writes nothing later, while it reads the end of the
        // exchange (a write that reaches the worker after its close would reset the connection under the data)
        let t0 = Instant::now();
        loop {
            match c.read_frame(Duration::from_millis(200)) {
                Some(f) if f.ty == h2::SETTINGS && f.flags & h2::FLAG_ACK == 0 => {
                    c.send(&Frame::settings_ack());
                    break;
                }
                Some(_) => {}
                None if c.eof => return Err("connection closed before the server's settings".into()),
                None => {}
            }
            if t0.elapsed() >= T_IO {
                return Err("no settings from the server".into());
            }
        }
        ctl.log(open_ev("h2Await"));
        return Ok(Conn::H2(Box::new(c)));
    }
    let mut t = tcp;
    let mut m: Vec<u8> = Vec::new();
    let stage = match sp.flow {
        "expect" => {
            m.extend_from_slice(flow_head("POST", req, "expect", Some(BODY.len()), "Expect: 100-continue\r\n").as_bytes());
            "expectHead"
        }
        "hints" | "hints2" | "hints0" | "hints00" => {
            m.extend_from_slice(flow_head("POST", req, sp.flow, Some(BODY.len()), "").as_bytes());
            m.extend_from_slice(BODY);
            "awaitResp"
        }
        "upgrade" => {
            m.extend_from_slice(flow_head("GET", req, "upgrade", None, "Connection: Upgrade\r\nUpgrade: websocket\r\nSec-WebSocket-Version: 13\r\nSec-WebSocket-Key: dGhlIHNhbXBsZSBub25jZQ==\r\n").as_bytes());
            "upgrading"
        }
        "early" => {
            m.extend_from_slice(flow_head("POST", req, "early", Some(BODY.len()), "").as_bytes());
            m.extend_from_slice(&BODY[..4]);
            "midBody"
        }
        "pipelined" => {
            m.extend_from_slice(flow_head("POST", req, "gate", Some(BODY.len()), "").as_bytes());
            m.extend_from_slice(BODY);
            m.extend_from_slice(h1_head(&format!("{req}b"), 0, BODY.len(), false).as_bytes());
            m.extend_from_slice(BODY);
            "pipelined"
        }
        f => return Err(format!("unknown flow {f}")),
    };
    t.write_all(&m).map_err(|e| format!("request: {e}"))?;
    if wait_seen(req, T_IO).as_deref() != Some("old") {
        return Err("the request head did not reach the old worker's backend".into());
    }
    ctl.log(open_ev(stage));
    Ok(Conn::H1(t))
}

struct H1Msg {
    status: u16,
    head: String,
    body: Vec<u8>,
}
/// one response message (interim responses have no body); Err: "eof" | "reset" | "timeout"
fn h1_read_msg(t: &mut TcpStream, buf: &mut Vec<u8>, timeout: Duration) -> Result<H1Msg, &'static str> {
    t.set_read_timeout(Some(Duration::from_millis(200))).ok();
    let deadline = Instant::now() + timeout;
    let mut tmp = [0u8; 4096];
    loop {
        if let Some(p) = find(buf, b"\r\n\r\n") {
            let head = String::from_utf8_lossy(&buf[..p + 4]).to_string();
            let status: u16 = head.split(' ').nth(1).and_then(|v| v.parse().ok()).unwrap_or(0);
            let clen: usize = if status < 200 || status == 204 || status == 304 { 0 } else { header(&head, "content-length").and_then(|v| v.parse().ok()).unwrap_or(0) };
            if buf.len() >= p + 4 + clen {
                let body = buf[p + 4..p + 4 + clen].to_vec();
                buf.drain(..p + 4 + clen);
                return Ok(H1Msg { status, head, body });
            }
        }
        if Instant::now() >= deadline {
            return Err("timeout");
        }
        match t.read(&mut tmp) {
            Ok(0) => return Err("eof"),
            Ok(n) => buf.extend_from_slice(&tmp[..n]),
            Err(e) if e.kind() == std::io::ErrorKind::WouldBlock || e.kind() == std::io::ErrorKind::TimedOut => {}
            Err(_) => return Err("reset"),
        }
    }
}

/// (outcome, by) of a final response to `req`
fn final_of(m: &H1Msg, req: &str) -> (String, String) {
    if m.status == 200 {
        if let Some((who, r)) = String::from_utf8_lossy(&m.body).split_once(':') {
            if r == req {
                return ("done".into(), who.to_string());
            }
        }
    }
    (format!("status{}", m.status), "none".into())
}

/// the client's part of a flow slot after its gate was opened: every step is logged where it happens
/// (`Interim`: an interim response was received whole; `SlotRelease`: the client wrote the rest of its request;
/// `SlotMid`: the first of two pipelined exchanges is complete); returns the end of the (last) exchange
fn flow_read_out(s: &mut Slot, to: Duration, r: usize, ctl: &mut Ctl) -> (String, String, Value) {
    let flow = s.spec.flow;
    let mut interims: Vec<u16> = Vec::new();
    let abort = |end: &str| -> String { if end == "timeout" { "timeout".into() } else { "cut".into() } };
    match s.conn.as_mut() {
        Some(Conn::H2(c)) => {
            // interim HEADERS (1xx, no END_STREAM) before the final ones
            let deadline = Instant::now() + to;
            let mut body: Vec<u8> = Vec::new();
            let mut status = String::new();
            let (out, by) = loop {
                let now = Instant::now();
                if now >= deadline {
                    break ("timeout".to_string(), "none".to_string());
                }
                let Some(f) = c.read_frame((deadline - now).min(Duration::from_millis(200))) else {
                    if c.eof {
                        break ("cut".to_string(), "none".to_string());
                    }
                    continue;
                };
                match f.ty {
                    h2::HEADERS if f.sid == 1 => {
                        for (k, v) in c.hp.decode(&f.payload).unwrap_or_default() {
                            if k == b":status" {
                                status = String::from_utf8_lossy(&v).to_string();
                            }
                        }
                        if status.starts_with('1') && !f.end_stream() {
                            let code: u16 = status.parse().unwrap_or(0);
                            interims.push(code);
                            // the backend sends its next message once it knows the client holds this one: a client
                            // that got here late (it reads its slots one after the other) leaves too little of the
                            // graceful deadline for the rest of the exchange
                            if let Some(t0) = ctl.stop_at {
                                if t0.elapsed() > Duration::from_millis(3500) {
                                    ctl.inconclusive = Some(format!("overloaded: the parked H2 client read its interim response {} ms after the stop, too close to the graceful deadline", t0.elapsed().as_millis()));
                                }
                            }
                            resp_update(&s.req, |st| st.allow += 1);
                            ctl.log(json!({"e": "Interim", "r": r, "code": code}));
                            status.clear();
                        }
                    }
                    h2::DATA if f.sid == 1 => body.extend_from_slice(f.data_bytes().unwrap_or(&[])),
                    h2::RST_STREAM if f.sid == 1 => break ("cut".to_string(), "none".to_string()),
                    _ => {}
                }
                if f.sid == 1 && f.end_stream() {
                    let b = String::from_utf8_lossy(&body).to_string();
                    match b.split_once(':') {
                        Some((who, rq)) if status == "200" && rq == s.req => break ("done".to_string(), who.to_string()),
                        _ => break (format!("status{status}"), "none".to_string()),
                    }
                }
            };
            (out, by, json!({"flow": flow, "interims": interims}))
        }
        Some(Conn::H1(t)) => {
            let mut buf: Vec<u8> = Vec::new();
            let mut wrote: Option<bool> = None;
            let mut tunnel: Option<String> = None;
            let (out, by) = loop {
                let m = match h1_read_msg(t, &mut buf, to) {
                    Ok(m) => m,
                    Err(end) => break (abort(end), "none".to_string()),
                };
                if m.status >= 100 && m.status < 200 && m.status != 101 {
                    interims.push(m.status);
                    resp_update(&s.req, |st| st.allow += 1);
                    ctl.log(json!({"e": "Interim", "r": r, "code": m.status}));
                    if m.status == 100 && flow == "expect" && wrote.is_none() {
                        // told to go on: the body follows
                        let okw = t.write_all(BODY).is_ok();
                        wrote = Some(okw);
                        ctl.log(json!({"e": "SlotRelease", "r": r, "wrote": okw, "after": "100-continue"}));
                    }
                    continue;
                }
                if m.status == 101 {
                    // the handshake is complete; what becomes of the tunnel is recorded, not judged (a stop closes
                    // tunnels like TCP relays)
                    let by = header(&m.head, "x-be").unwrap_or("none").to_string();
                    let _ = t.write_all(b"ping\n");
                    t.set_read_timeout(Some(Duration::from_millis(1500))).ok();
                    let mut b = [0u8; 64];
                    tunnel = Some(if !buf.is_empty() { "echo".into() } else {
                        match t.read(&mut b) {
                            Ok(0) => "closed".into(),
                            Ok(_) => "echo".into(),
                            Err(e) if e.kind() == std::io::ErrorKind::WouldBlock || e.kind() == std::io::ErrorKind::TimedOut => "silent".into(),
                            Err(_) => "reset".into(),
                        }
                    });
                    break (if flow == "upgrade" && by != "none" { "done".to_string() } else { "status101".to_string() }, by);
                }
                if flow == "pipelined" && !s.req.ends_with('b') {
                    let (o, by) = final_of(&m, &s.req);
                    if o != "done" {
                        break (o, by);
                    }
                    // the first exchange is complete; the second request was written long ago
                    ctl.log(json!({"e": "SlotMid", "r": r, "out": o, "by": by, "req": s.req}));
                    ctl.log(json!({"e": "SlotRelease", "r": r, "wrote": true, "after": "pipelined"}));
                    s.req = format!("{}b", s.req);
                    continue;
                }
                break final_of(&m, &s.req);
            };
            (out, by, json!({"flow": flow, "interims": interims, "body_written": wrote, "tunnel": tunnel}))
        }
        None => ("cut".to_string(), "none".to_string(), json!({"flow": flow})),
    }
}

/// what the environment does at the release moment of a parked slot; false: a write failed
fn slot_release_io(s: &mut Slot) -> bool {
    if !s.spec.flow.is_empty() {
        resp_update(&s.req, |st| st.gate = true);
        return true;
    }
    if let Some(rc) = s.rc.as_mut() {
        if rc.spec.pause_at > 0 {
            resp_update(&s.req, |st| st.gate = true);
        }
        // a tail behind exhausted windows is released by one large grant (the worker cannot finish without it, so
        // it reads it before it closes). Otherwise the client writes NOTHING while it reads the end of a response:
        // a write that reaches the worker after it wrote the last byte and closed makes its kernel reset the
        // connection and drop what it had not yet sent (the "TCP reset problem" of a close without lingering) -
        // a hazard of every close, not of the stop, and not what these scenarios are about
        if let Some(Conn::H2(c)) = s.conn.as_mut() {
            if s.spec.stage == "h2RespTail" && !s.spec.tcp_stall {
                return c.send(&Frame::window_update(0, 1 << 20)) && c.send(&Frame::window_update(rc.sid, 1 << 20));
            }
        }
        return true;
    }
    match s.conn.as_mut() {
        Some(Conn::H1(t)) => {
            let from = s.head_sent + s.body_sent;
            let rest = s.full[from..].to_vec();
            rest.is_empty() || t.write_all(&rest).is_ok()
        }
        Some(Conn::H2(c)) => s.spec.stage != "h2Open" || c.send(&Frame::data(1, BODY.to_vec(), true)),
        None => true,
    }
}

/// reads the answer of a released slot to its end: (outcome, by, what was measured)
fn slot_read_out(s: &mut Slot, to: Duration, r: usize, ctl: &mut Ctl) -> (String, String, Value) {
    if !s.spec.flow.is_empty() {
        return flow_read_out(s, to, r, ctl);
    }
    if let Some(rc) = s.rc.as_mut() {
        let n = rc.spec.n;
        return match s.conn.as_mut() {
            Some(Conn::H1(t)) => {
                let end = h1_pump(t, &mut rc.h1, to, usize::MAX, &|p| p.complete);
                let out = rc.h1.outcome(end, n);
                let by = if out == "done" { rc.h1.by.clone() } else { "none".to_string() };
                let held = if out == "done" { rc.delivered.map(|d| rc.h1.raw as i64 - d as i64) } else { None };
                (out, by, json!({"got": rc.h1.body_got, "total": n, "end": end, "client_sees": rc.h1.framing, "corrupt_at": rc.h1.corrupt, "held": held, "setup": rc.info}))
            }
            Some(Conn::H2(c)) => {
                let sid = rc.sid;
                let end = h2_pump(c, &mut rc.h2, to, None, &|st| st.streams[&sid].end || st.streams[&sid].rst);
                let x = rc.h2.streams[&sid].clone();
                let out = h2_big_outcome(&x, end, n);
                let by = if out == "done" { x.by.clone() } else { "none".to_string() };
                let held = if out == "done" { rc.delivered.map(|d| n as i64 - d as i64) } else { None };
                (out, by, json!({"got": x.got, "total": n, "end": end, "rst": x.rst, "goaway": rc.h2.goaway, "io_error": c.io_error, "corrupt_at": x.corrupt, "held": held, "setup": rc.info}))
            }
            None => ("cut".to_string(), "none".to_string(), json!({})),
        };
    }
    let (out, by) = match s.conn.as_mut() {
        Some(Conn::H1(t)) => h1_read_response(t, &s.req, to),
        Some(Conn::H2(c)) => h2_read_response(c, 1, &s.req, to),
        None => ("cut".to_string(), "none".to_string()),
    };
    (out, by, json!({}))
}

fn slot_end_event(r: usize, s: &Slot, out: &str, by: &str, extra: Value) -> Value {
    let mut e = json!({"e": "SlotEnd", "r": r, "out": out, "by": by, "req": s.req});
    if let (Some(o), Some(x)) = (e.as_object_mut(), extra.as_object()) {
        for (k, v) in x {
            o.insert(k.clone(), v.clone());
        }
    }
    e
}

fn status_name(s: i32) -> &'static str {
    if s == ResponseStatus::Ok as i32 {
        "Ok"
    } else if s == ResponseStatus::Processing as i32 {
        "Processing"
    } else {
        "Failure"
    }
}

fn sockname_of(fd: i32) -> Option<SocketAddr> {
    use std::os::unix::io::{FromRawFd, IntoRawFd};
    // borrow the descriptor as a TcpListener just for local_addr (works for UDP sockets too: getsockname)
    let l = unsafe { TcpListener::from_raw_fd(fd) };
    let r = l.local_addr().ok();
    let _ = l.into_raw_fd();
    r
}

const BODY: &[u8] = b"12345678";

fn setup_worker(w: &mut Worker, sc: &Scenario, addrs: &[SocketAddr], http_be: SocketAddr, tcp_be: SocketAddr) -> Result<(), String> {
    let mut need = |b: bool, what: &str| if b { Ok(()) } else { Err(format!("setup: {what}")) };
    need(ok(&w.request(RequestType::AddCluster(Worker::default_cluster("c1")), T_CMD)), "cluster c1")?;
    need(ok(&w.request(RequestType::AddBackend(Worker::backend("c1", "b1", http_be)), T_CMD)), "backend b1")?;
    for (i, p) in sc.protos.iter().enumerate() {
        let addr = addrs[i];
        match *p {
            "http" => {
                need(w.add_http_listener(addr, T_CMD), "http listener")?;
                need(ok(&w.request(RequestType::AddHttpFrontend(Worker::http_frontend("c1", addr, "localhost", "/")), T_CMD)), "http frontend")?;
            }
            "https" => {
                let mut l = ListenerBuilder::new_https(addr.into()).to_tls(None).map_err(|e| e.to_string())?;
                if sc.deadline_s > 0 {
                    l.h2_graceful_shutdown_deadline_seconds = Some(sc.deadline_s);
                }
                need(ok(&w.request(RequestType::AddHttpsListener(l), T_CMD)), "https listener")?;
                need(ok(&w.request(RequestType::ActivateListener(ActivateListener { address: addr.into(), proxy: ListenerType::Https.into(), from_scm: false }), T_CMD)), "https activate")?;
                need(ok(&w.request(RequestType::AddCertificate(AddCertificate {
                    address: addr.into(),
                    certificate: CertificateAndKey { certificate: LOCAL_CERT.to_string(), key: LOCAL_KEY.to_string(), certificate_chain: vec![], versions: vec![], names: vec![] },
                    expired_at: None,
                }), T_CMD)), "certificate")?;
                need(ok(&w.request(RequestType::AddHttpsFrontend(Worker::http_frontend("c1", addr, "localhost", "/")), T_CMD)), "https frontend")?;
            }
            "tcp" => {
                need(ok(&w.request(RequestType::AddCluster(Worker::default_cluster("t1")), T_CMD)), "cluster t1")?;
                need(ok(&w.request(RequestType::AddBackend(Worker::backend("t1", "tb1", tcp_be)), T_CMD)), "backend tb1")?;
                need(w.add_tcp_listener(addr, T_CMD), "tcp listener")?;
                need(ok(&w.request(RequestType::AddTcpFrontend(Worker::tcp_frontend("t1", addr)), T_CMD)), "tcp frontend")?;
            }
            "udp" => {
                let l = ListenerBuilder::new_udp(addr.into()).to_udp(None).map_err(|e| e.to_string())?;
                need(ok(&w.request(RequestType::AddUdpListener(l), T_CMD)), "udp listener")?;
                need(ok(&w.request(RequestType::ActivateListener(ActivateListener { address: addr.into(), proxy: ListenerType::Udp.into(), from_scm: false }), T_CMD)), "udp activate")?;
            }
            _ => return Err("unknown proto".into()),
        }
    }
    Ok(())
}

/// one short exchange against listener `a`; (connected, outcome, by)
/// `fds_here`: every listening socket of the scenario is at all times a descriptor of this process (plain soft
/// stop; during a hand-over the sockets travel inside SCM messages, where no process holds a descriptor)
fn exchange(proto: &str, addr: SocketAddr, req: &str, ctr: &AtomicUsize, abort: &dyn Fn() -> bool, fds_here: bool) -> (bool, usize, usize, String, String, String) {
    let lo = ctr.load(Ordering::SeqCst);
    let c = TcpStream::connect_timeout(&addr, T_IO);
    let hi = ctr.load(Ordering::SeqCst);
    let mut tcp = match c {
        // a connect() to a closed local port of the ephemeral range can end up connected to itself (TCP
        // simultaneous open): nobody is listening there
        Ok(t) if t.local_addr().ok() == t.peer_addr().ok() => return (false, lo, hi, "SelfConnect".into(), "none".into(), "none".into()),
        // ... or be taken by somebody else's socket: other harness processes probe for free ports by binding
        // them for an instant. A listener that is not a descriptor of this process is none of the workers'.
        Ok(_) if fds_here && !listening_here(addr) => {
            let hi = ctr.load(Ordering::SeqCst);
            return (false, lo, hi, "ForeignListener".into(), "none".into(), "none".into());
        }
        Ok(t) => t,
        Err(e) => return (false, lo, hi, format!("{:?}", e.kind()), "none".into(), "none".into()),
    };
    let (out, by) = match proto {
        "http" => {
            let mut m = h1_head(req, 0, BODY.len(), true).into_bytes();
            m.extend_from_slice(BODY);
            if tcp.write_all(&m).is_err() {
                ("cut".to_string(), "none".to_string())
            } else {
                h1_read_response_a(&mut tcp, req, T_IO, abort)
            }
        }
        "https" => match tls_over_a(tcp, T_IO, abort) {
            Err(e) if e == "aborted" => ("aborted".to_string(), "none".to_string()),
            Err(e) if e == "timeout" => ("timeout".to_string(), "none".to_string()),
            Err(_) => ("cut".to_string(), "none".to_string()),
            Ok(mut c) => {
                if !c.client_preface(&[]) || !h2_send_headers(&mut c, 1, req, 0, BODY.len(), false) || !c.send(&Frame::data(1, BODY.to_vec(), true)) {
                    ("cut".to_string(), "none".to_string())
                } else {
                    h2_read_response_a(&mut c, 1, req, T_IO, abort)
                }
            }
        },
        _ => {
            // tcp: the backend's banner names the worker
            tcp.set_read_timeout(Some(Duration::from_millis(200))).ok();
            let deadline = Instant::now() + T_IO;
            let mut b = [0u8; 16];
            let mut got = Vec::new();
            let r = loop {
                match tcp.read(&mut b) {
                    Ok(0) => break ("cut".to_string(), "none".to_string()),
                    Ok(n) => {
                        got.extend_from_slice(&b[..n]);
                        if let Some(p) = got.iter().position(|c| *c == b'\n') {
                            break ("done".to_string(), String::from_utf8_lossy(&got[..p]).to_string());
                        }
                    }
                    Err(e) if e.kind() == std::io::ErrorKind::WouldBlock || e.kind() == std::io::ErrorKind::TimedOut => {
                        if abort() {
                            break ("aborted".to_string(), "none".to_string());
                        }
                        if Instant::now() >= deadline {
                            break ("timeout".to_string(), "none".to_string());
                        }
                    }
                    Err(_) => break ("cut".to_string(), "none".to_string()),
                }
            };
            r
        }
    };
    (true, lo, hi, "ok".into(), out, by)
}

#[allow(clippy::too_many_arguments)]
fn hammer(run: usize, idx: usize, targets: Vec<(usize, &'static str, SocketAddr)>, ctr: Arc<AtomicUsize>, stop: Arc<AtomicBool>, old_dead: Arc<AtomicBool>, pause_ms: u64, fds_here: bool) -> Vec<Value> {
    let mut ev = Vec::new();
    let mut c = 0usize;
    if targets.is_empty() {
        return ev;
    }
    while !stop.load(Ordering::SeqCst) {
        let (a, proto, addr) = targets[c % targets.len()];
        c += 1;
        let req = format!("r{run}h{idx}c{c}");
        // an in-process "dead" worker thread leaves its connections open (a dead process would not): once the
        // scenario is over such an exchange is abandoned, not judged
        let abort = || stop.load(Ordering::SeqCst) && old_dead.load(Ordering::SeqCst);
        let (connected, lo, hi, err, out, by) = exchange(proto, addr, &req, &ctr, &abort, fds_here);
        if out == "aborted" {
            break;
        }
        ev.push(json!({"e": "Conn", "c": c, "a": a, "lo": lo, "hi": hi, "ok": connected, "err": err}));
        if connected {
            let hi2 = ctr.load(Ordering::SeqCst);
            ev.push(json!({"e": "End", "c": c, "a": a, "out": out, "by": by, "req": req, "proto": proto, "lo": lo, "hi": hi2}));
        }
        thread::sleep(Duration::from_millis(pause_ms));
    }
    ev
}

/// Same as vh::worker::Worker::start, plus (debugging aid, env C10_SOZU_LOG=<level>) sozu's logger
/// initialised on the worker thread; its lines go to stdout and are skipped by every reader.
fn start_worker(name: &str, config: sozu_command_lib::proto::command::ServerConfig, listeners: &Listeners, state: sozu_command_lib::state::ConfigState) -> Worker {
    let Ok(level) = std::env::var("C10_SOZU_LOG") else {
        return Worker::start(name, config, listeners, state);
    };
    use std::os::unix::prelude::{AsRawFd, IntoRawFd};
    let (scm_m2w, scm_w2m) = mio::net::UnixStream::pair().expect("unix pair");
    let (cmd_m2w, cmd_w2m): (Channel<WorkerRequest, WorkerResponse>, Channel<WorkerResponse, WorkerRequest>) =
        Channel::generate(config.command_buffer_size, config.max_command_buffer_size).expect("channel");
    for fd in [scm_m2w.as_raw_fd(), scm_w2m.as_raw_fd()] {
        unsafe {
            let old = libc::fcntl(fd, libc::F_GETFD);
            libc::fcntl(fd, libc::F_SETFD, old & !1);
        }
    }
    let scm_m2w = sozu_command_lib::scm_socket::ScmSocket::new(scm_m2w.into_raw_fd()).expect("scm");
    let scm_w2m = sozu_command_lib::scm_socket::ScmSocket::new(scm_w2m.into_raw_fd()).expect("scm");
    scm_m2w.send_listeners(listeners).expect("send listeners");
    let (thread_config, initial_state, thread_scm, tag) = (config.clone(), state.produce_initial_state(), scm_w2m.to_owned(), name.to_string());
    let job = thread::Builder::new().name(name.to_string()).spawn(move || {
        let _ = sozu_command_lib::logging::setup_default_logging(false, &level, &tag);
        let mut server = sozu_lib::server::Server::try_new_from_config(cmd_w2m, thread_scm, thread_config, initial_state, false).expect("could not create sozu worker");
        server.run();
    }).expect("spawn worker");
    Worker { name: name.to_string(), config, state, scm_main_to_worker: scm_m2w, scm_worker_to_main: scm_w2m, channel: cmd_m2w, next_id: 0, job: Some(job), backlog: Vec::new() }
}

fn kill_worker(w: &mut Worker) {
    // the master side of the command channel goes away: the worker's loop sees the hang-up and returns
    let (dummy, _other): (Channel<WorkerRequest, WorkerResponse>, Channel<WorkerResponse, WorkerRequest>) =
        Channel::generate(4096, 4096).expect("channel");
    let real = std::mem::replace(&mut w.channel, dummy);
    drop(real);
}

fn close_scm(w: &Worker) {
    unsafe {
        libc::close(w.scm_main_to_worker.fd);
        libc::close(w.scm_worker_to_main.fd);
    }
}

fn run_scenario(sc: &Scenario, be: &Backends, pause_ms: u64, jitter_ms: u64, seed: u64) -> Value {
    let n = sc.protos.len();
    // ports are "free a moment ago": when another process grabbed one in between, start over with fresh ones
    let mut attempt = 0;
    let (addrs, mut old) = loop {
        attempt += 1;
        let addrs: Vec<SocketAddr> = (0..n).map(|_| free_addr()).collect();
        let mut old = start_worker(&format!("old{}", sc.run), vh::worker::server_config(|_| {}), &Listeners::default(), sozu_command_lib::state::ConfigState::new());
        match setup_worker(&mut old, sc, &addrs, be.http_old, be.tcp_old) {
            Ok(()) => break (addrs, old),
            Err(e) => {
                kill_worker(&mut old);
                let _ = old.join_within(Duration::from_secs(5));
                close_scm(&old);
                if attempt >= 4 {
                    return json!({"run": sc.run, "cfg": {"mode": sc.mode}, "invalid": e, "ctl": [], "ham": []});
                }
            }
        }
    };
    let ctr = Arc::new(AtomicUsize::new(0));
    let mut ctl = Ctl { ev: Vec::new(), ctr: ctr.clone(), rng: StdRng::seed_from_u64(seed ^ (sc.run as u64) << 8), jitter_ms, stop_at: None, resume_ms: 0, inconclusive: None };
    ctl.resume_ms = ctl.rng.random_range(300..=700);
    let cfg = json!({
        "mode": sc.mode, "order": sc.order, "crash": sc.crash, "deadline_s": sc.deadline_s,
        "addrs": sc.protos.iter().enumerate().map(|(i, p)| json!({"a": i + 1, "proto": p, "addr": addrs[i].to_string()})).collect::<Vec<_>>(),
        "slots": sc.slots.iter().enumerate().map(|(i, s)| json!({"r": i + 1, "stage": s.stage, "partial": s.partial, "release": s.release, "resp": s.resp.as_ref().map(|x| x.json()), "big_first": s.big_first, "tcp_stall": s.tcp_stall, "flow": s.flow})).collect::<Vec<_>>(),
    });
    let fail = |why: String, ctl: &Ctl| json!({"run": sc.run, "cfg": cfg, "invalid": why, "ctl": ctl.ev, "ham": []});

    let mut new: Option<Worker> = None;
    let mut old_alive = true;
    let mut stop_sent_at: Option<Instant> = None;
    let mut stop_id: Option<String> = None;
    let mut acked = false;

    // ---- hammers
    let stop = Arc::new(AtomicBool::new(false));
    let old_dead = Arc::new(AtomicBool::new(false));
    let targets: Vec<(usize, &'static str, SocketAddr)> =
        sc.protos.iter().enumerate().filter(|(_, p)| **p != "udp").map(|(i, p)| (i + 1, *p, addrs[i])).collect();
    let mut hjobs = Vec::new();
    for h in 0..sc.hammers {
        let mut t = targets.clone();
        let k = if t.is_empty() { 0 } else { h % t.len() };
        t.rotate_left(k);
        let (ctr2, stop2, dead2, run) = (ctr.clone(), stop.clone(), old_dead.clone(), sc.run);
        let fds_here = sc.mode == "softstop";
        hjobs.push(thread::spawn(move || hammer(run, h, t, ctr2, stop2, dead2, pause_ms, fds_here)));
    }

    // ---- scripted slots, opened while the old worker serves
    let mut slots: Vec<Slot> = Vec::new();
    let mut invalid: Option<String> = None;
    for (i, sp) in sc.slots.iter().enumerate() {
        if sp.stage == "none" {
            slots.push(Slot { spec: sp.clone(), a: 0, conn: None, req: String::new(), body_sent: 0, head_sent: 0, full: vec![], ended: true, released: false, rc: None });
            continue;
        }
        let h2 = sp.stage.starts_with("h2");
        let want = if h2 { "https" } else { "http" };
        let Some(ai) = sc.protos.iter().position(|p| *p == want) else {
            invalid = Some(format!("slot {} needs a {want} listener", i + 1));
            break;
        };
        let r = i + 1;
        let req = format!("r{}s{}", sc.run, r);
        if sp.resp.is_some() {
            match open_resp_slot(sp, r, ai + 1, addrs[ai], be.http_old, &req, old.config.buffer_size as usize, &mut ctl) {
                Ok((conn, rc)) => {
                    slots.push(Slot { spec: sp.clone(), a: ai + 1, conn: Some(conn), req: req.clone(), body_sent: 0, head_sent: 0, full: vec![], ended: false, released: false, rc: Some(rc) });
                    continue;
                }
                Err(e) => {
                    invalid = Some(format!("response slot {r} ({}): {e}", sp.stage));
                    break;
                }
            }
        }
        if !sp.flow.is_empty() {
            match open_flow_slot(sp, r, ai + 1, addrs[ai], &req, &mut ctl) {
                Ok(conn) => {
                    slots.push(Slot { spec: sp.clone(), a: ai + 1, conn: Some(conn), req: req.clone(), body_sent: 0, head_sent: 0, full: vec![], ended: false, released: false, rc: None });
                    continue;
                }
                Err(e) => {
                    invalid = Some(format!("flow slot {r} ({}): {e}", sp.flow));
                    break;
                }
            }
        }
        let delay = if sp.stage == "awaitResp" || sp.stage == "h2Await" { BACKEND_DELAY_MS } else { 0 };
        let tcp = match TcpStream::connect_timeout(&addrs[ai], T_IO) {
            Ok(t) => t,
            Err(e) => {
                invalid = Some(format!("slot connect: {e}"));
                break;
            }
        };
        tcp.set_nodelay(true).ok();
        let mut slot = Slot { spec: sp.clone(), a: ai + 1, conn: None, req: req.clone(), body_sent: 0, head_sent: 0, full: vec![], ended: false, released: false, rc: None };
        if h2 {
            let mut c = match tls_over(tcp, T_IO) {
                Ok(c) => c,
                Err(e) => {
                    invalid = Some(format!("slot tls: {e}"));
                    break;
                }
            };
            let okk = c.client_preface(&[])
                && h2_send_headers(&mut c, 1, &req, delay, BODY.len(), false)
                && (sp.stage == "h2Open" || c.send(&Frame::data(1, BODY.to_vec(), true)));
            if !okk || wait_seen(&req, T_IO).as_deref() != Some("old") {
                invalid = Some("h2 slot: request head did not reach the old worker's backend".into());
                break;
            }
            slot.conn = Some(Conn::H2(Box::new(c)));
        } else {
            let mut tcp = tcp;
            let head = h1_head(&req, delay, BODY.len(), false).into_bytes();
            let mut full = head.clone();
            full.extend_from_slice(BODY);
            let hl = head.len();
            let (hs, bs) = match sp.stage {
                "preHeaders" => (if sp.partial { 24 } else { 0 }, 0),
                "midBody" => (hl, 4),
                _ => (hl, BODY.len()), // awaitResp, idleKeepAlive
            };
            if tcp.write_all(&full[..hs + bs]).is_err() {
                invalid = Some("slot write".into());
                break;
            }
            slot.head_sent = hs;
            slot.body_sent = bs;
            slot.full = full;
            if hs == hl && wait_seen(&req, T_IO).as_deref() != Some("old") {
                invalid = Some("h1 slot: request head did not reach the old worker's backend".into());
                break;
            }
            if sp.stage == "idleKeepAlive" {
                let (out, by) = h1_read_response(&mut tcp, &req, T_IO);
                if out != "done" || by != "old" {
                    invalid = Some(format!("idle slot: first exchange {out} by {by}"));
                    break;
                }
                // the next request on this connection
                slot.req = format!("r{}s{}b", sc.run, r);
                let mut f2 = h1_head(&slot.req, 0, BODY.len(), false).into_bytes();
                f2.extend_from_slice(BODY);
                slot.full = f2;
                slot.head_sent = 0;
                slot.body_sent = 0;
            }
            slot.conn = Some(Conn::H1(tcp));
        }
        ctl.log(json!({"e": "SlotOpen", "r": r, "a": slot.a, "stage": sp.stage, "partial": sp.partial}));
        slots.push(slot);
    }
    if let Some(why) = invalid {
        stop.store(true, Ordering::SeqCst);
        for j in hjobs {
            let _ = j.join();
        }
        kill_worker(&mut old);
        let _ = old.join_within(Duration::from_secs(5));
        close_scm(&old);
        return fail(why, &ctl);
    }

    // ---- helpers working on the slots
    // a request whose head went through a worker thread that was since "killed" can only hang (the thread
    // leaves its sockets open, a dead process would not): do not wait the full client timeout for it
    fn slot_timeout(_s: &Slot, old_dead: &AtomicBool) -> Duration {
        if old_dead.load(Ordering::SeqCst) { Duration::from_secs(3) } else { T_IO }
    }
    fn release(slots: &mut [Slot], when: &str, ctl: &mut Ctl, old_dead: &AtomicBool) {
        // a killed worker thread keeps its connections open: reading a parked connection now would stall the
        // hand-over itself for a whole client time-out. They are read out once the successor is active.
        if old_dead.load(Ordering::SeqCst) {
            return;
        }
        // a client parked in the middle of its response stays silent for a while after the stop: the first
        // passes of shut_down_sessions see the session with its response half delivered
        if when != "beforeStop" && slots.iter().any(|s| !s.ended && s.spec.release == when && (s.rc.is_some() || !s.spec.flow.is_empty())) {
            if ctl.stop_at.is_some() {
                thread::sleep(Duration::from_millis(ctl.resume_ms));
            }
            let h2 = slots.iter().any(|s| !s.ended && s.spec.release == when && (s.rc.is_some() || !s.spec.flow.is_empty()) && matches!(s.conn, Some(Conn::H2(_))));
            if let Some(t0) = ctl.stop_at {
                if h2 && t0.elapsed() > Duration::from_millis(3500) {
                    ctl.inconclusive = Some(format!("overloaded: the parked client resumed {} ms after the stop, too close to the graceful deadline", t0.elapsed().as_millis()));
                }
            }
        }
        for (i, s) in slots.iter_mut().enumerate() {
            if s.ended || s.spec.release != when {
                continue;
            }
            let okw = slot_release_io(s);
            s.released = true;
            let since = ctl.stop_at.map(|t| t.elapsed().as_millis() as u64);
            // a flow slot is released by its BACKEND (the gate opens: the interim response, the 101, the early
            // answer leave now); what the client then writes is logged where it happens
            let what = if s.spec.flow.is_empty() { "SlotRelease" } else { "GateOpen" };
            ctl.log(json!({"e": what, "r": i + 1, "wrote": okw, "ms_since_stop_sent": since}));
        }
        for (i, s) in slots.iter_mut().enumerate() {
            if s.ended || s.spec.release != when {
                continue;
            }
            // a connection that had not sent a complete head may still sit in the listen backlog (nobody
            // proved that the old worker accepted it): its answer can only come once the successor accepts,
            // i.e. after steps this very thread has yet to perform. Do not wait for it here.
            if s.spec.stage == "preHeaders" {
                if let Some(Conn::H1(t)) = s.conn.as_mut() {
                    t.set_read_timeout(Some(Duration::from_millis(400))).ok();
                    let mut b = [0u8; 1];
                    match t.peek(&mut b) {
                        Err(e) if e.kind() == std::io::ErrorKind::WouldBlock || e.kind() == std::io::ErrorKind::TimedOut => continue,
                        _ => {}
                    }
                }
            }
            let to = slot_timeout(s, old_dead);
            let (out, by, extra) = slot_read_out(s, to, i + 1, ctl);
            s.ended = true;
            let since = ctl.stop_at.map(|t| t.elapsed().as_millis() as u64);
            let mut e = slot_end_event(i + 1, s, &out, &by, extra);
            e["ms_since_stop_sent"] = json!(since);
            ctl.log(e);
        }
    }

    let send_old = |old: &mut Worker, rt: RequestType| -> String { old.send_raw(Request { request_type: Some(rt) }) };

    // ---- the hand-over
    let mut crashed = false;
    macro_rules! crash_if {
        ($point:expr) => {
            if sc.crash == $point && old_alive {
                kill_worker(&mut old);
                old_alive = false;
                crashed = true;
                old_dead.store(true, Ordering::SeqCst);
                ctl.log(json!({"e": "OldKilled", "at": $point}));
            }
        };
    }
    let send_stop = |old: &mut Worker, ctl: &mut Ctl, stop_id: &mut Option<String>, stop_sent_at: &mut Option<Instant>| {
        // taken BEFORE the command leaves: a lower bound of the moment the worker arms its graceful deadline
        *stop_sent_at = Some(Instant::now());
        ctl.stop_at = *stop_sent_at;
        let id = send_old(old, RequestType::SoftStop(SoftStop {}));
        *stop_id = Some(id);
        ctl.log(json!({"e": "SoftStopSent"}));
        // the notice that the stop is being processed
        let deadline = Instant::now() + T_CMD;
        while Instant::now() < deadline {
            match old.read(Duration::from_millis(200)) {
                Some(r) if Some(&r.id) == stop_id.as_ref() => {
                    ctl.log(json!({"e": "StopResp", "status": status_name(r.status)}));
                    return r.status;
                }
                Some(_) => {}
                None => {
                    if old.is_finished() {
                        break;
                    }
                }
            }
        }
        -1
    };

    if sc.mode == "handover" {
        let id = send_old(&mut old, RequestType::ReturnListenSockets(ReturnListenSockets {}));
        ctl.log(json!({"e": "ReturnSent"}));
        let rs = old.wait_for(&id, T_CMD);
        let st = rs.iter().find(|r| r.status != ResponseStatus::Processing as i32).map(|r| status_name(r.status)).unwrap_or("none");
        ctl.log(json!({"e": "ReturnResp", "status": st, "message": rs.last().map(|r| r.message.clone())}));
        crash_if!("afterReturn");
        let _ = old.scm_main_to_worker.set_blocking(true);
        let got = std::panic::catch_unwind(std::panic::AssertUnwindSafe(|| old.scm_main_to_worker.receive_listeners()));
        let listeners: Option<Listeners> = match got {
            Ok(Ok(l)) => {
                let idx = |sa: &SocketAddr| addrs.iter().position(|x| x == sa).map(|p| p + 1).unwrap_or(0);
                let mut pairs = Vec::new();
                for (bucket, v) in [("http", &l.http), ("https", &l.tls), ("tcp", &l.tcp), ("udp", &l.udp)] {
                    for (sa, fd) in v {
                        let bound = sockname_of(*fd).map(|x| idx(&x)).unwrap_or(0);
                        pairs.push(json!({"a": idx(sa), "bucket": bucket, "bound": bound}));
                    }
                }
                pairs.sort_by_key(|p| p["a"].as_u64());
                ctl.log(json!({"e": "Received", "ok": true, "pairs": pairs}));
                Some(l)
            }
            Ok(Err(e)) => {
                ctl.log(json!({"e": "Received", "ok": false, "pairs": [], "err": e.to_string()}));
                None
            }
            Err(p) => {
                ctl.log(json!({"e": "Received", "ok": false, "pairs": [], "err": format!("panic: {}", vh::util::panic_message(p))}));
                None
            }
        };
        crash_if!("afterReceived");
        if let Some(listeners) = listeners {
            release(&mut slots, "beforeStop", &mut ctl, &old_dead);
            let start_succ = |old: &Worker, ctl: &mut Ctl| -> Worker {
                let mut st = old.state.clone();
                let _ = st.dispatch(&RequestType::RemoveBackend(RemoveBackend { cluster_id: "c1".into(), backend_id: "b1".into(), address: be.http_old.into() }).into());
                let _ = st.dispatch(&RequestType::AddBackend(Worker::backend("c1", "b1", be.http_new)).into());
                if sc.protos.contains(&"tcp") {
                    let _ = st.dispatch(&RequestType::RemoveBackend(RemoveBackend { cluster_id: "t1".into(), backend_id: "tb1".into(), address: be.tcp_old.into() }).into());
                    let _ = st.dispatch(&RequestType::AddBackend(Worker::backend("t1", "tb1", be.tcp_new)).into());
                }
                for l in st.http_listeners.values_mut() {
                    l.active = false;
                }
                for l in st.https_listeners.values_mut() {
                    l.active = false;
                }
                for l in st.tcp_listeners.values_mut() {
                    l.active = false;
                }
                for l in st.udp_listeners.values_mut() {
                    l.active = false;
                }
                let w = start_worker(&format!("new{}", sc.run), old.config.clone(), &listeners, st);
                listeners.close();
                ctl.log(json!({"e": "SuccStarted"}));
                w
            };
            let activate = |old: &Worker, new: &mut Worker, ctl: &mut Ctl| {
                for rq in old.state.generate_activate_requests() {
                    let (a, _proxy) = match &rq.request_type {
                        Some(RequestType::ActivateListener(al)) => {
                            let sa: SocketAddr = al.address.into();
                            (addrs.iter().position(|x| *x == sa).map(|p| p + 1).unwrap_or(0), al.proxy)
                        }
                        _ => (0, 0),
                    };
                    let id = new.send_raw(rq);
                    let rs = new.wait_for(&id, T_CMD);
                    let st = rs.iter().find(|r| r.status != ResponseStatus::Processing as i32).map(|r| status_name(r.status)).unwrap_or("none");
                    ctl.log(json!({"e": "Activated", "a": a, "status": st, "message": rs.last().map(|r| r.message.clone())}));
                }
            };
            match sc.order {
                "stopFirst" => {
                    if old_alive {
                        send_stop(&mut old, &mut ctl, &mut stop_id, &mut stop_sent_at);
                    }
                    crash_if!("afterSoftStopSent");
                    release(&mut slots, "afterStop", &mut ctl, &old_dead);
                    let mut w = start_succ(&old, &mut ctl);
                    crash_if!("afterSuccStarted");
                    activate(&old, &mut w, &mut ctl);
                    crash_if!("afterActivated");
                    new = Some(w);
                }
                "startFirst" => {
                    let mut w = start_succ(&old, &mut ctl);
                    crash_if!("afterSuccStarted");
                    activate(&old, &mut w, &mut ctl);
                    crash_if!("afterActivated");
                    new = Some(w);
                    if old_alive {
                        send_stop(&mut old, &mut ctl, &mut stop_id, &mut stop_sent_at);
                    }
                    crash_if!("afterSoftStopSent");
                    release(&mut slots, "afterStop", &mut ctl, &old_dead);
                }
                _ => {
                    let mut w = start_succ(&old, &mut ctl);
                    crash_if!("afterSuccStarted");
                    if old_alive {
                        send_stop(&mut old, &mut ctl, &mut stop_id, &mut stop_sent_at);
                    }
                    crash_if!("afterSoftStopSent");
                    release(&mut slots, "afterStop", &mut ctl, &old_dead);
                    activate(&old, &mut w, &mut ctl);
                    crash_if!("afterActivated");
                    new = Some(w);
                }
            }
        }
    } else {
        release(&mut slots, "beforeStop", &mut ctl, &old_dead);
        send_stop(&mut old, &mut ctl, &mut stop_id, &mut stop_sent_at);
        crash_if!("afterSoftStopSent");
        release(&mut slots, "afterStop", &mut ctl, &old_dead);
    }
    release(&mut slots, "afterAll", &mut ctl, &old_dead);

    // ---- graceful deadline: slots that are never released
    if sc.deadline_s > 0 && old_alive {
        if let Some(t0) = stop_sent_at {
            let dl = Duration::from_secs(sc.deadline_s as u64);
            // watch the parked connections until the deadline, measured on this thread's clock from before the
            // stop was sent (i.e. not later than the worker armed its own timer); what matters is this clock
            // once the read has returned, not which branch of the read returned
            let mut late: Vec<(usize, String, String)> = Vec::new();
            for (i, s) in slots.iter_mut().enumerate() {
                if s.ended || s.spec.release != "never" {
                    continue;
                }
                let left = dl.saturating_sub(t0.elapsed());
                let (out, by) = match s.conn.as_mut() {
                    Some(Conn::H2(c)) => h2_read_response(c, 1, &s.req, left),
                    Some(Conn::H1(t)) => h1_read_response(t, &s.req, left),
                    None => ("timeout".to_string(), "none".to_string()),
                };
                if out == "timeout" {
                    continue;
                }
                s.ended = true;
                let at = t0.elapsed();
                if at < dl {
                    ctl.log(json!({"e": "SlotEnd", "r": i + 1, "out": out, "by": by, "req": s.req, "note": "before the deadline", "ms_since_stop_sent": at.as_millis() as u64}));
                } else {
                    late.push((i, out, by));
                }
            }
            thread::sleep(dl.saturating_sub(t0.elapsed()));
            ctl.log(json!({"e": "DeadlineElapsed"}));
            for (i, out, by) in late {
                ctl.log(json!({"e": "SlotEnd", "r": i + 1, "out": out, "by": by, "req": slots[i].req}));
            }
            for (i, s) in slots.iter_mut().enumerate() {
                if s.ended || s.spec.release != "never" {
                    continue;
                }
                let (out, by) = match s.conn.as_mut() {
                    Some(Conn::H2(c)) => h2_read_response(c, 1, &s.req, T_ACK),
                    Some(Conn::H1(t)) => h1_read_response(t, &s.req, T_ACK),
                    None => ("cut".to_string(), "none".to_string()),
                };
                s.ended = true;
                ctl.log(json!({"e": "SlotEnd", "r": i + 1, "out": out, "by": by, "req": s.req}));
            }
        }
    }
    // slots nobody released (crash before their moment): read them out now
    for (i, s) in slots.iter_mut().enumerate() {
        if s.ended {
            continue;
        }
        if !s.released {
            let okw = slot_release_io(s);
            s.released = true;
            let what = if s.spec.flow.is_empty() { "SlotRelease" } else { "GateOpen" };
            ctl.log(json!({"e": what, "r": i + 1, "wrote": okw}));
        }
        let to = slot_timeout(s, &old_dead);
        let (out, by, extra) = slot_read_out(s, to, i + 1, &mut ctl);
        s.ended = true;
        let e = slot_end_event(i + 1, s, &out, &by, extra);
        ctl.log(e);
    }

    // ---- the acknowledgement and the exit of the old worker
    if old_alive {
        if let Some(id) = stop_id.clone() {
            let deadline = Instant::now() + T_ACK;
            loop {
                let now = Instant::now();
                if now >= deadline {
                    break;
                }
                // responses read while waiting for other ids
                let mut found: Option<WorkerResponse> = None;
                if let Some(p) = old.backlog.iter().position(|r| r.id == id) {
                    found = Some(old.backlog.remove(p));
                } else if let Some(r) = old.read(Duration::from_millis(200)) {
                    if r.id == id {
                        found = Some(r);
                    }
                }
                match found {
                    Some(r) => {
                        ctl.log(json!({"e": "StopResp", "status": status_name(r.status)}));
                        if r.status != ResponseStatus::Processing as i32 {
                            acked = true;
                            break;
                        }
                    }
                    None => {
                        if old.is_finished() {
                            // one more chance to read what was written right before the exit
                            if let Some(r) = old.read(Duration::from_millis(300)) {
                                if r.id == id {
                                    ctl.log(json!({"e": "StopResp", "status": status_name(r.status)}));
                                    acked = r.status != ResponseStatus::Processing as i32;
                                }
                            }
                            break;
                        }
                    }
                }
            }
            if !acked {
                ctl.log(json!({"e": "OldStuck", "what": "no terminal answer to SoftStop"}));
            }
        }
    }
    if stop_id.is_some() || crashed {
        match old.join_within(T_ACK) {
            Ok(true) => {
                // anything after the terminal answer?
                if acked {
                    while let Some(r) = old.read(Duration::from_millis(50)) {
                        if Some(&r.id) == stop_id.as_ref() {
                            ctl.log(json!({"e": "StopResp", "status": status_name(r.status)}));
                        }
                    }
                }
                ctl.log(json!({"e": "OldExited", "how": "clean"}));
            }
            Ok(false) => ctl.log(json!({"e": "OldStuck", "what": "thread still running"})),
            Err(p) => ctl.log(json!({"e": "OldExited", "how": "panic", "panic": p})),
        }
    }

    // ---- probes: every address must now be served by the successor
    if let Some(_w) = new.as_ref() {
        for (a, proto, addr) in &targets {
            let req = format!("r{}p{}", sc.run, a);
            let (connected, _lo, _hi, err, out, by) = exchange(proto, *addr, &req, &ctr, &|| false, false);
            ctl.log(json!({"e": "Probe", "a": a, "ok": connected && out == "done", "by": by, "out": out, "err": err}));
        }
    }
    stop.store(true, Ordering::SeqCst);
    let mut ham: Vec<Vec<Value>> = Vec::new();
    for j in hjobs {
        ham.push(j.join().unwrap_or_default());
    }
    ctl.log(json!({"e": "HamStop"}));

    // ---- tear down
    if let Some(mut w) = new.take() {
        let _ = w.send_raw(Request { request_type: Some(RequestType::HardStop(HardStop {})) });
        let _ = w.join_within(Duration::from_secs(10));
        close_scm(&w);
    }
    if !old.is_finished() {
        kill_worker(&mut old);
        let _ = old.join_within(Duration::from_secs(5));
    }
    close_scm(&old);

    // which backend saw the head of each request (table read after everything is over)
    for e in ctl.ev.iter_mut() {
        if e["e"] == "SlotEnd" {
            let be = lookup_seen(e["req"].as_str().unwrap_or(""));
            e["be"] = json!(be);
        }
    }
    for h in ham.iter_mut() {
        for e in h.iter_mut() {
            if e["e"] == "End" {
                let be = if e["proto"] == "tcp" { e["by"].as_str().unwrap_or("none").to_string() } else { lookup_seen(e["req"].as_str().unwrap_or("")) };
                e["be"] = json!(be);
            }
        }
    }
    // exchanges that happened entirely inside one ctl step (lo = hi on both events) and are identical in
    // every field say the same thing to the trace spec: keep the first of each kind, count the others
    let mut raw_exchanges = 0usize;
    let mut ham2: Vec<Vec<Value>> = Vec::new();
    for h in ham.iter() {
        let mut out: Vec<Value> = Vec::new();
        let mut first: HashMap<String, usize> = HashMap::new();
        let mut i = 0;
        while i < h.len() {
            let c = &h[i];
            let e = if i + 1 < h.len() && h[i + 1]["e"] == "End" { Some(&h[i + 1]) } else { None };
            raw_exchanges += 1;
            let stable = c["lo"] == c["hi"] && e.map(|e| e["hi"] == c["hi"]).unwrap_or(true);
            let key = format!("{}|{}|{}|{}|{}|{}", c["a"], c["lo"], c["ok"], e.map(|e| e["out"].to_string()).unwrap_or_default(),
                e.map(|e| e["by"].to_string()).unwrap_or_default(), e.map(|e| e["be"].to_string()).unwrap_or_default());
            if stable {
                if let Some(p) = first.get(&key) {
                    let n = out[*p]["n"].as_u64().unwrap_or(1) + 1;
                    out[*p]["n"] = json!(n);
                    i += if e.is_some() { 2 } else { 1 };
                    continue;
                }
                first.insert(key, out.len());
            }
            let mut c2 = c.clone();
            c2["n"] = json!(1);
            out.push(c2);
            if let Some(e) = e {
                out.push(e.clone());
            }
            i += if e.is_some() { 2 } else { 1 };
        }
        ham2.push(out);
    }
    let mut v = json!({"run": sc.run, "cfg": cfg, "ctl": ctl.ev, "ham": ham2, "raw_exchanges": raw_exchanges});
    if let Some(why) = ctl.inconclusive.take() {
        v["invalid"] = json!(why);
    }
    v
}

// ------------------------------------------------------------------------------------------------

const STAGES: [(&str, bool); 7] = [
    ("preHeaders", false), ("preHeaders", true), ("midBody", false), ("awaitResp", false),
    ("idleKeepAlive", false), ("h2Open", false), ("h2Await", false),
];
const RELEASES: [&str; 3] = ["beforeStop", "afterStop", "afterAll"];
const ORDERS: [&str; 3] = ["stopFirst", "startFirst", "upgradeRs"];
const CRASHES: [&str; 5] = ["afterReturn", "afterReceived", "afterSuccStarted", "afterActivated", "afterSoftStopSent"];
const LSETS: [&[&str]; 4] = [&["http", "https", "tcp"], &["http", "https"], &["https", "udp", "http"], &["tcp", "http", "https"]];

fn slot(i: usize, release: &'static str) -> SlotSpec {
    SlotSpec { stage: STAGES[i].0, partial: STAGES[i].1, release, resp: None, big_first: false, tcp_stall: false, flow: "" }
}

/// a slot parked while its response is being delivered. Sizes: H1 tail 128-256 KiB (>= 8 x the worker's buffer,
/// 60 x the client's receive buffer); H2 tail = the initial windows + 3-11 KB; slow backend: pause after the first part
fn rslot(stage: &'static str, framing: &'static str, close: bool, release: &'static str, big_first: bool, rng: &mut StdRng) -> SlotSpec {
    let (n, pause_at) = match stage {
        "respTail" => {
            (rng.random_range(131_072..262_144usize), 0)
        }
        "h2RespTail" => (H2_WINDOW + rng.random_range(3_000..11_000usize), 0),
        "respStreaming" => (rng.random_range(80_000..160_000usize), rng.random_range(24..48usize) * CHUNK),
        _ => (rng.random_range(40_000..60_000usize), rng.random_range(12..24usize) * CHUNK),
    };
    SlotSpec { stage, partial: false, release, resp: Some(RespSpec { framing, close: close || framing == "eof", n, pause_at }), big_first, tcp_stall: false, flow: "" }
}

/// H2 tail behind a full socket instead of exhausted windows: a response much larger than what the worker can hold
fn tcp_stalled(mut s: SlotSpec, rng: &mut StdRng) -> SlotSpec {
    s.tcp_stall = true;
    if let Some(r) = s.resp.as_mut() {
        r.n = rng.random_range(196_608..327_680usize);
    }
    s
}

fn scenarios(thorough: bool, rng: &mut StdRng) -> Vec<Scenario> {
    let mut v: Vec<Scenario> = Vec::new();
    let mut push = |v: &mut Vec<Scenario>, mode, order, protos: &[&'static str], slots: Vec<SlotSpec>, crash, deadline_s| {
        let run = v.len() + 1;
        v.push(Scenario { run, mode, order, protos: protos.to_vec(), slots, crash, deadline_s, hammers: 2 });
    };
    if thorough {
        // every pair of stages x release moment x order, hand-over
        for i in 0..STAGES.len() {
            for j in i..STAGES.len() {
                for (k, rel) in RELEASES.iter().enumerate() {
                    for (o, ord) in ORDERS.iter().enumerate() {
                        let rel2 = RELEASES[(k + o + j) % 3];
                        push(&mut v, "handover", ord, LSETS[(i + j + k) % LSETS.len()], vec![slot(i, rel), slot(j, rel2)], "none", 0);
                    }
                }
            }
        }
        for (c, crash) in CRASHES.iter().enumerate() {
            for i in 0..STAGES.len() {
                for (o, ord) in ORDERS.iter().enumerate() {
                    let j = rng.random_range(0..STAGES.len());
                    push(&mut v, "handover", ord, LSETS[(c + i + o) % LSETS.len()], vec![slot(i, "afterAll"), slot(j, RELEASES[(i + o) % 3])], crash, 0);
                }
            }
        }
        for i in 0..STAGES.len() {
            for j in 0..STAGES.len() {
                for rel in ["beforeStop", "afterStop"] {
                    push(&mut v, "softstop", "stopFirst", LSETS[(i + j) % 2], vec![slot(i, rel), slot(j, RELEASES[(i + j) % 2])], "none", 0);
                }
            }
        }
    } else {
        // every stage x release moment once (second slot seeded), orders rotating
        let mut k = rng.random_range(0..3usize);
        for i in 0..STAGES.len() {
            for rel in RELEASES.iter() {
                let j = rng.random_range(0..STAGES.len());
                let rel2 = RELEASES[rng.random_range(0..3usize)];
                k += 1;
                push(&mut v, "handover", ORDERS[k % 3], LSETS[k % LSETS.len()], vec![slot(i, rel), slot(j, rel2)], "none", 0);
            }
        }
        for (c, crash) in CRASHES.iter().enumerate() {
            for t in 0..2 {
                let i = rng.random_range(0..STAGES.len());
                let j = rng.random_range(0..STAGES.len());
                push(&mut v, "handover", ORDERS[(c + t) % 3], LSETS[(c + t) % LSETS.len()], vec![slot(i, "afterAll"), slot(j, RELEASES[(c + t) % 3])], crash, 0);
            }
        }
        for i in 0..STAGES.len() {
            let j = rng.random_range(0..STAGES.len());
            push(&mut v, "softstop", "stopFirst", LSETS[i % 2], vec![slot(i, RELEASES[i % 2]), slot(j, RELEASES[(i + 1) % 2])], "none", 0);
        }
    }
    // graceful deadline (1 s): an H2 stream whose client never finishes is cut after, not before, the deadline,
    // and the worker still acknowledges and exits
    for (mode, ord) in [("handover", "upgradeRs"), ("softstop", "stopFirst"), ("handover", "stopFirst")] {
        let other = rng.random_range(0..STAGES.len());
        let mut s5 = slot(5, "never");
        s5.release = "never";
        push(&mut v, mode, ord, LSETS[0], vec![s5, slot(other, "afterStop")], "none", 1);
    }
    // response delivery: the stop (or the hand-over and the stop) arrives while a response is on its way to a
    // client that does not read (tail buffered in the worker, backend finished) or while a slow backend is
    // still sending; the client reads on a few hundred ms after the stop
    const FR: [(&str, bool); 4] = [("cl", true), ("eof", true), ("chunked", true), ("cl", false)];
    if thorough {
        let mut k = 0usize;
        for (mode, ord) in [("handover", "upgradeRs"), ("handover", "stopFirst"), ("handover", "startFirst"), ("softstop", "stopFirst")] {
            for (f, (framing, close)) in FR.iter().enumerate() {
                for stage in ["respTail", "h2RespTail", "respStreaming", "h2RespStreaming"] {
                    k += 1;
                    let rel = if k % 5 == 0 { "afterAll" } else { "afterStop" };
                    let (f2, c2) = FR[(f + k) % 4];
                    let other = match k % 4 {
                        0 => slot(rng.random_range(0..STAGES.len()), RELEASES[k % 3]),
                        1 => rslot("respTail", f2, c2, "afterStop", false, rng),
                        2 => rslot("h2RespTail", f2, c2, "afterStop", k % 8 < 4, rng),
                        _ => rslot(if k % 8 < 4 { "respStreaming" } else { "h2RespStreaming" }, f2, c2, "afterStop", true, rng),
                    };
                    let mut first = rslot(stage, framing, *close, rel, k % 2 == 0, rng);
                    if stage == "h2RespTail" && f % 2 == 1 {
                        first = tcp_stalled(first, rng);
                    }
                    push(&mut v, mode, ord, LSETS[k % LSETS.len()], vec![first, other], "none", 0);
                }
            }
        }
    } else {
        let o = rng.random_range(0..STAGES.len());
        let b = rng.random_range(0..2usize) == 0;
        push(&mut v, "handover", "upgradeRs", LSETS[1], vec![rslot("respTail", "cl", true, "afterStop", false, rng), rslot("respTail", "eof", true, "afterStop", false, rng)], "none", 0);
        push(&mut v, "softstop", "stopFirst", LSETS[0], vec![rslot("respTail", "eof", true, "afterStop", false, rng), rslot("h2RespTail", "cl", true, "afterStop", b, rng)], "none", 0);
        push(&mut v, "handover", "stopFirst", LSETS[2], vec![rslot("respTail", "chunked", true, "afterStop", false, rng), slot(o, RELEASES[o % 3])], "none", 0);
        push(&mut v, "softstop", "stopFirst", LSETS[1], vec![rslot("respTail", "cl", false, "afterStop", false, rng), rslot("respStreaming", "cl", false, "afterStop", false, rng)], "none", 0);
        let t1 = tcp_stalled(rslot("h2RespTail", "eof", true, "afterStop", !b, rng), rng);
        push(&mut v, "handover", "startFirst", LSETS[3], vec![t1, rslot("respTail", "cl", true, "afterAll", false, rng)], "none", 0);
        let t2 = tcp_stalled(rslot("h2RespTail", "cl", true, "afterStop", b, rng), rng);
        push(&mut v, "softstop", "stopFirst", LSETS[1], vec![t2, rslot("respTail", "chunked", true, "afterStop", false, rng)], "none", 0);
        push(&mut v, "softstop", "stopFirst", LSETS[0], vec![rslot("h2RespTail", "chunked", true, if std::env::var("C10_X").is_ok() { "beforeStop" } else { "afterStop" }, false, rng), rslot("h2RespStreaming", "cl", true, "afterStop", true, rng)], "none", 0);
        push(&mut v, "handover", "upgradeRs", LSETS[0], vec![rslot("respStreaming", "eof", true, "afterStop", false, rng), rslot("h2RespTail", "cl", true, "afterStop", true, rng)], "none", 0);
        push(&mut v, "handover", "stopFirst", LSETS[1], vec![rslot("h2RespStreaming", "chunked", true, "afterStop", false, rng), rslot("respTail", "eof", true, "afterAll", false, rng)], "none", 0);
    }
    // life stages of an exchange beyond "request, then response": the stop (or the hand-over and the stop) arrives
    // while the client withholds its body until `100 Continue`, before 103 Early Hints, during an upgrade handshake,
    // while the body is still being uploaded and the backend answers early, with a second request pipelined
    // behind the one in flight; the backend's next message leaves a few hundred ms after the stop
    let fslot = |flow: &'static str, release: &'static str| -> SlotSpec {
        let stage = match flow {
            "expect" => "expectHead",
            "upgrade" => "upgrading",
            "early" => "midBody",
            "pipelined" => "pipelined",
            f if f.starts_with("h2") => "h2Await",
            _ => "awaitResp",
        };
        SlotSpec { stage, partial: false, release, resp: None, big_first: false, tcp_stall: false, flow: flow.strip_prefix("h2").unwrap_or(flow) }
    };
    // `hints0` / `hints00` (one / two 103 and the final response in ONE write) are scheduled only on request (env
    // C10_COALESCED): sozu strands a final response that it reads together with an interim one, stop or no stop - open
    // finding C02 interim-swallows-final-response, not a matter of the stop (see design_notes/C10.md)
    let coalesced = std::env::var("C10_COALESCED").is_ok();
    const ALL_FLOWS: [&str; 10] = ["expect", "hints", "hints2", "upgrade", "early", "pipelined", "h2hints", "hints0", "h2hints00", "h2hints0"];
    let flows: &[&'static str] = if coalesced { &ALL_FLOWS } else { &ALL_FLOWS[..7] };
    if thorough {
        let mut k = 0usize;
        for (mode, ord) in [("handover", "upgradeRs"), ("handover", "stopFirst"), ("handover", "startFirst"), ("softstop", "stopFirst")] {
            for (f, flow) in flows.iter().enumerate() {
                for rel in ["afterStop", "afterAll", "beforeStop"] {
                    k += 1;
                    let other = match k % 3 {
                        0 => slot(rng.random_range(0..STAGES.len()), RELEASES[k % 3]),
                        _ => fslot(flows[(f + k) % flows.len()], "afterStop"),
                    };
                    push(&mut v, mode, ord, LSETS[k % LSETS.len()], vec![fslot(flow, rel), other], "none", 0);
                }
            }
        }
    } else {
        let o = rng.random_range(0..STAGES.len());
        let h = if rng.random_range(0..2usize) == 0 { "hints" } else { "hints2" };
        push(&mut v, "softstop", "stopFirst", LSETS[1], vec![fslot("expect", "afterStop"), fslot(h, "afterStop")], "none", 0);
        push(&mut v, "handover", "upgradeRs", LSETS[0], vec![fslot("expect", "afterStop"), fslot("upgrade", "afterStop")], "none", 0);
        push(&mut v, "handover", "stopFirst", LSETS[2], vec![fslot("hints2", "afterStop"), fslot("pipelined", "afterStop")], "none", 0);
        push(&mut v, "softstop", "stopFirst", LSETS[0], vec![fslot("h2hints", "afterStop"), fslot("early", "afterStop")], "none", 0);
        push(&mut v, "handover", "startFirst", LSETS[3], vec![fslot("pipelined", "afterStop"), fslot("expect", "afterAll")], "none", 0);
        push(&mut v, "softstop", "stopFirst", LSETS[1], vec![fslot("upgrade", "afterStop"), slot(o, RELEASES[o % 3])], "none", 0);
        push(&mut v, "handover", "upgradeRs", LSETS[1], vec![fslot("hints", "afterStop"), fslot("h2hints", "afterAll")], "none", 0);
        if coalesced {
            let (x, y) = if rng.random_range(0..2usize) == 0 { ("h2hints0", "hints00") } else { ("h2hints00", "hints0") };
            push(&mut v, "softstop", "stopFirst", LSETS[1], vec![fslot(x, "afterStop"), fslot(y, "afterStop")], "none", 0);
        }
    }
    v
}

fn main() {
    let args: Vec<String> = std::env::args().collect();
    let mut seed = 1u64;
    let mut thorough = false;
    let mut par = 4usize;
    let mut only: Option<usize> = None;
    let mut pause_ms = 1u64;
    let mut jitter_ms = 4u64;
    let mut limit: Option<usize> = None;
    let mut resp_only = false;
    let mut flow_only = false;
    let mut i = 1;
    while i < args.len() {
        match args[i].as_str() {
            "--seed" => { seed = args[i + 1].parse().unwrap_or(1); i += 1; }
            "--tier" => { thorough = args[i + 1] == "thorough"; i += 1; }
            "--par" => { par = args[i + 1].parse().unwrap_or(4); i += 1; }
            "--only" => { only = args[i + 1].parse().ok(); i += 1; }
            "--pause-ms" => { pause_ms = args[i + 1].parse().unwrap_or(1); i += 1; }
            "--jitter-ms" => { jitter_ms = args[i + 1].parse().unwrap_or(4); i += 1; }
            "--limit" => { limit = args[i + 1].parse().ok(); i += 1; }
            "--resp-only" => { resp_only = true; }
            "--flow-only" => { flow_only = true; }
            _ => {}
        }
        i += 1;
    }
    let mut rng = StdRng::seed_from_u64(seed ^ 0x10C10);
    let mut scs = scenarios(thorough, &mut rng);
    if let Some(o) = only {
        scs.retain(|s| s.run == o);
    }
    if resp_only {
        scs.retain(|s| s.slots.iter().any(|x| x.resp.is_some()));
    }
    if flow_only {
        scs.retain(|s| s.slots.iter().any(|x| !x.flow.is_empty()));
    }
    if let Some(l) = limit {
        scs.truncate(l);
    }
    let be = Arc::new(Backends {
        http_old: spawn_http_backend("old"),
        http_new: spawn_http_backend("new"),
        tcp_old: spawn_tcp_backend("old"),
        tcp_new: spawn_tcp_backend("new"),
    });
    // a panic of a worker thread is data (reported through OldExited{how:"panic"}); keep stderr quiet
    vh::util::quiet_panics();
    let queue = Arc::new(Mutex::new(scs.into_iter().collect::<std::collections::VecDeque<_>>()));
    let mut jobs = Vec::new();
    for _ in 0..par.max(1) {
        let (q, be) = (queue.clone(), be.clone());
        jobs.push(thread::spawn(move || {
            loop {
                let sc = { q.lock().unwrap().pop_front() };
                let Some(sc) = sc else { break };
                let t0 = Instant::now();
                let mut v = match std::panic::catch_unwind(std::panic::AssertUnwindSafe(|| run_scenario(&sc, &be, pause_ms, jitter_ms, seed))) {
                    Ok(v) => v,
                    Err(p) => json!({"run": sc.run, "invalid": format!("harness panic: {}", vh::util::panic_message(p)), "ctl": [], "ham": [], "cfg": {}}),
                };
                v["kind"] = json!("run");
                v["wall_ms"] = json!(t0.elapsed().as_millis() as u64);
                vh::util::emit(&v);
            }
        }));
    }
    for j in jobs {
        let _ = j.join();
    }
    vh::util::emit(&json!({"kind": "summary", "ok": true}));
    std::process::exit(0);
}
