SPECIFICATION Spec
CONSTANTS
  Workers = {1, 2}
  Reqs = {1, 2}
  Verbs = {"worker", "workerBad", "query", "load", "stopHard", "stopSoft"}
  T = 1
  Parts = 2
  MaxAns = 2
  Deviations = {}
INVARIANTS TypeOK P_C09a_AtMostOneFinal P_C09b_OkMeansAllAcked P_C09d_RightClient P_C09e_NoStaleInFlight P_C09_AnswersFollowTasks
CHECK_DEADLOCK FALSE
