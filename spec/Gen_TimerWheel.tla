--------------------------- MODULE Gen_TimerWheel ---------------------------
(* S->I generator for TimerWheel.tla: TLC as generator and oracle.  One REPLAY line per behaviour:  *)
(* after every step the spec's prediction of the call's result (in the step label), of              *)
(* next_poll_date (as a tick; 1000000 = never), of every container's fields and of the wheel tick.  *)
EXTENDS TimerWheel, Json

\* simulation picks uniformly among the successor states: weights for the steps that have few instances, and a
\* thinner set of delays than 0..MaxDelay
CONSTANTS WAdv, WPoll, WCancel, WC, GDurs

VARIABLES hist, done

Snap == [step |-> last, now |-> now, npd |-> NextTickW(w), wt |-> w.wt,
         conts |-> [c \in Conts |-> CProj(cont[c])],
         inflight |-> Cardinality(DOMAIN w.ent)]

GenInit == Init /\ hist = <<>> /\ done = FALSE
\* (simulation evaluates invariants on every candidate successor: the history is printed from the single
\*  successor of a complete history, so once per behaviour)
WNext ==
  \/ \E i \in 1..WAdv, k \in 1..MaxAdv : Adv(k)
  \/ \E i \in 1..WPoll : Poll
  \/ \E d \in GDurs, tok \in Toks : Set(d, tok)
  \/ \E i \in 1..WCancel, j \in 1..Len(hs) : Cancel(j)
  \/ \E j \in 1..Len(hs), d \in GDurs : Reset(j, d)
  \/ \E c \in Conts, d \in GDurs, tok \in Toks : C_New(c, d, tok)
  \/ \E c \in Conts, d \in GDurs : C_NewEmpty(c, d)
  \/ \E i \in 1..WC, c \in Conts, tok \in Toks : C_Set(c, tok)
  \/ \E c \in Conts, d \in GDurs : C_SetDuration(c, d)
  \/ \E i \in 1..(2 * WC), c \in Conts : C_Cancel(c)
  \/ \E i \in 1..(2 * WC), c \in Conts : C_Reset(c)
  \/ \E i \in 1..(2 * WC), c \in Conts : C_Triggered(c)
  \/ \E i \in 1..WC, c \in Conts, c2 \in Conts : C_Take(c, c2)
  \/ \E i \in 1..WC, c \in Conts : C_Drop(c)
GenNext == \/ WNext /\ hist' = Append(hist, Snap') /\ done' = FALSE
           \/ steps = MaxSteps /\ ~done /\ done' = TRUE /\ UNCHANGED <<vars, hist>>
GenSpec == GenInit /\ [][GenNext]_<<vars, hist, done>>

EmitHist == done => PrintT(<<"REPLAY", ToJson(hist)>>)
=============================================================================
