//! I->S driver for spec/WorkerCtl.tla (property C08).
//!
//! Drives REAL sozu workers with seeded random request sequences (every request kind of the
//! spec's universe: duplicates, unknown targets, invalid values, listener life-cycle in any
//! order, stops in the middle) sent in back-to-back batches and interleaved with client traffic
//! (idle keep-alive connections held across batches, one request per listener/host between
//! batches). Records one ndjson event per spec action; spec/Trace_WorkerCtl.tla + TLC decide
//! whether the recording is a behaviour of the specification.
//!
//! `--scenario fault` (C07, commands that touch sockets): every run plays the environment of
//! WorkerCtl.tla's Env_HoldAddress / Env_ReleaseAddress - between batches of listener verbs the
//! harness binds / drops a plain std socket (no SO_REUSEPORT: a foreign process) on listener
//! addresses, so that ActivateListener is refused by the OS; events `hold` / `release` /
//! `holdfail`. Every run ends with all addresses released and every listener activated again:
//! the probes must then see listeners that serve.
//!
//! usage: drive_workerctl --seed S --runs N --threads T --out trace.ndjson [--scenario fault]
//! stdout: one {"kind":"summary",...} line.

use std::collections::BTreeMap;
use std::io::Write;
use std::net::TcpStream;
use std::panic::{AssertUnwindSafe, catch_unwind};
use std::sync::atomic::{AtomicUsize, Ordering};
use std::sync::{Arc, Mutex};
use std::time::{Duration, Instant};

use serde_json::{Value, json};
use sozu_command_lib::proto::command::{Request, ResponseStatus, WorkerResponse, response_content::ContentType};
use vh::wctl::{self, Addrs, MockBackends};
use sozu_command_lib::scm_socket::Listeners;
use sozu_command_lib::state::ConfigState;
use vh::worker::{Worker, server_config};

struct Rng(u64);
impl Rng {
    fn new(seed: u64) -> Rng {
        let mut r = Rng(seed.wrapping_mul(0x9E3779B97F4A7C15) ^ 0xD1B54A32D192ED03);
        for _ in 0..4 {
            r.next();
        }
        r
    }
    fn next(&mut self) -> u64 {
        let mut x = self.0 | 1;
        x ^= x << 13;
        x ^= x >> 7;
        x ^= x << 17;
        self.0 = x;
        x.wrapping_mul(0x2545F4914F6CDD1D)
    }
    fn below(&mut self, n: u64) -> u64 {
        (self.next() >> 11) % n.max(1)
    }
    fn pick<'a, T>(&mut self, xs: &'a [T]) -> &'a T {
        &xs[self.below(xs.len() as u64) as usize]
    }
    fn weighted<'a>(&mut self, xs: &'a [(&'a str, u64)]) -> &'a str {
        let total: u64 = xs.iter().map(|x| x.1).sum();
        let mut r = self.below(total);
        for (k, w) in xs {
            if r < *w {
                return k;
            }
            r -= w;
        }
        xs[0].0
    }
}

const LISTENERS: &[&str] = &["hA", "hB", "tC", "sD", "uE", "uF", "tG"];
const CLUSTERS: &[&str] = &["c1", "c2"];
const HFRONTS: &[&str] = &["f1", "f2", "f3", "f4"];
const TFRONTS: &[&str] = &["t1", "t2", "t3"];
const UFRONTS: &[&str] = &["u1", "u2", "u3"];
/// malformed requests (spec: MalformedKinds) and what their argument ranges over
const MALFORMED: &[(&str, &str)] = &[
    ("RemoveListenerBadType", "l"), ("ActivateBadType", "l"), ("DeactivateBadType", "l"), ("NoType", ""), ("ForeignKind", ""),
    ("ConfigureMetricsBad", ""), ("MetricDetailBadEnum", ""), ("AddHFrontBadPos", "f"), ("AddHFrontBadKind", "f"),
    ("AddClusterBadEnums", "c"),
];
const BACKENDS: &[&str] = &["b1", "b2", "b3"];
const WORKER_KINDS: &[&str] = &[
    "Status", "QueryHashes", "QueryDomain", "QueryMetrics", "ConfigureMetrics", "Logging", "SetMaxConn",
    "QueryMaxConn", "MetricDetailOk", "MetricDetailBad", "QueryCertsAll", "QueryCertsFp",
];

fn random_request(rng: &mut Rng) -> (String, String) {
    let family = rng.weighted(&[("listener", 30), ("front", 24), ("cluster", 22), ("worker", 14), ("malformed", 8), ("stop", 4)]);
    match family {
        "malformed" => {
            let (k, arg) = *rng.pick(MALFORMED);
            let a = match arg {
                "l" => *rng.pick(LISTENERS),
                "f" => *rng.pick(HFRONTS),
                "c" => *rng.pick(CLUSTERS),
                _ => "",
            };
            (k.to_string(), a.to_string())
        }
        "listener" => {
            let k = rng.weighted(&[
                ("AddListener", 30), ("Activate", 30), ("Deactivate", 12), ("RemoveListener", 12),
                ("UpdateListener", 8), ("UpdateListenerBad", 4), ("ReturnSockets", 4),
            ]);
            if k == "ReturnSockets" {
                return (k.to_string(), String::new());
            }
            let l = if k == "UpdateListenerBad" { *rng.pick(&["hA", "hB", "sD"]) } else { *rng.pick(LISTENERS) };
            (k.to_string(), l.to_string())
        }
        "front" => {
            let k = rng.weighted(&[("AddHFront", 34), ("RemoveHFront", 16), ("AddTFront", 20), ("RemoveTFront", 10),
                                   ("AddUFront", 14), ("RemoveUFront", 6)]);
            let a = if k.contains("HFront") { *rng.pick(HFRONTS) } else if k.contains("TFront") { *rng.pick(TFRONTS) } else { *rng.pick(UFRONTS) };
            (k.to_string(), a.to_string())
        }
        "cluster" => {
            let k = rng.weighted(&[
                ("AddCluster", 14), ("AddClusterAlt", 8), ("RemoveCluster", 8), ("AddBackend", 30), ("RemoveBackend", 12), ("SetHc", 4),
                ("SetHcBad", 3), ("RemoveHc", 3), ("AddClusterBadHc", 3), ("QueryCluster", 8),
            ]);
            let a = if k.contains("Backend") { *rng.pick(BACKENDS) } else { *rng.pick(CLUSTERS) };
            (k.to_string(), a.to_string())
        }
        "worker" => (rng.pick(WORKER_KINDS).to_string(), String::new()),
        _ => (rng.weighted(&[("SoftStop", 3), ("HardStop", 1)]).to_string(), String::new()),
    }
}

struct Run {
    events: Vec<Value>,
    requests: u64,
    responses: u64,
    probes: u64,
    exit: String,
}

fn drive(run: u64, seed: u64, index_base: u64, port: u16, quiet: Duration) -> Run {
    let mut rng = Rng::new(seed.wrapping_mul(1_000_003).wrapping_add(run));
    let ad = Addrs::for_index(index_base + run, port);
    let name = format!("d{}", index_base + run);
    let mut ev: Vec<Value> = vec![json!({"ev": "reset", "run": run})];
    let all_backends: Vec<String> = BACKENDS.iter().map(|s| s.to_string()).collect();
    let _mocks = MockBackends::start(&ad, &all_backends);
    let listeners: Vec<String> = LISTENERS.iter().map(|s| s.to_string()).collect();
    // scenario of the run: "sat" = the accept gate closes (max_connections = 2) and a connection
    // is pending when its listener is deactivated / removed; "keep" = a client connection is held
    // on a listener while that listener is removed; otherwise random batches only
    // "shared" = one cluster published on two listeners of ONE kind (udp / tcp / http), then redefined,
    // removed, its backends and frontends changed, with a look through EACH listener after every step
    let scenario = match rng.below(100) {
        0..=9 => "sat",
        10..=25 => "keep",
        26..=53 => "shared",
        _ => "random",
    };
    let mut w = if scenario == "sat" {
        Worker::start(&name, server_config(|fc| fc.max_connections = Some(2)), &Listeners::default(), ConfigState::new())
    } else {
        Worker::start_empty(&name)
    };
    let mut reqs: Vec<(String, String)> = Vec::new(); // by id-1
    let mut seen_cmds = 0usize;
    let mut clients: Vec<TcpStream> = Vec::new();
    let mut stopped = false; // a stop request was sent
    let (mut n_resp, mut n_probe) = (0u64, 0u64);
    let batches = 3 + rng.below(7);
    let mut probe_conns = 0usize;
    let stop_with_client = rng.below(10) < 3;

    let do_batch = |w: &mut Worker, batch: Vec<(String, String)>, ev: &mut Vec<Value>, reqs: &mut Vec<(String, String)>,
                        clients_open: usize, seen_cmds: &mut usize, n_resp: &mut u64| {
        // clients_open = connections held by the harness + connections opened by the last probes
        // Upper bound on the slab entries client sessions may hold while this batch is handled:
        // two per connection the harness holds open or opened for the probes since the last
        // batch (their teardown on the worker side is asynchronous). The strict check
        // slab == base_sessions_count is made by the S->I replayer, which has no traffic.
        let extra = 2 * clients_open + 2;
        let mut ids = Vec::new();
        for (k, a) in &batch {
            let request: Request = wctl::build_request_full(k, a, &ad);
            // the main process's side of the same sequence (only used to decide how long a datagram
            // probe is waited for, never for a verdict)
            let _ = catch_unwind(AssertUnwindSafe(|| w.state.dispatch(&request)));
            let id = w.send_raw(request);
            reqs.push((k.clone(), a.clone()));
            ev.push(json!({"ev": "send", "run": run, "id": reqs.len(), "k": k, "a": a}));
            ids.push(id);
        }
        // responses in channel order, until every request of the batch has a terminal one
        let mut got: Vec<WorkerResponse> = Vec::new();
        let mut last = Instant::now();
        loop {
            let done = ids.iter().all(|id| got.iter().any(|r| &r.id == id && r.status != ResponseStatus::Processing as i32));
            if done {
                break;
            }
            match w.read(Duration::from_millis(50)) {
                Some(r) => {
                    last = Instant::now();
                    got.push(r);
                }
                None => {
                    if w.is_finished() {
                        while let Some(r) = w.read(Duration::from_millis(20)) {
                            got.push(r);
                        }
                        break;
                    }
                    if last.elapsed() > quiet {
                        break;
                    }
                }
            }
        }
        // the worker thread's own account of what it handled (emitted before each response)
        let cmds = wctl::peek_events(&name);
        for c in cmds.iter().skip(*seen_cmds) {
            let idn: usize = c.id.rsplit('-').next().and_then(|s| s.parse().ok()).unwrap_or(0);
            let (k, a) = reqs.get(idn.wrapping_sub(1)).cloned().unwrap_or_default();
            ev.push(json!({"ev": "cmd", "run": run, "id": idn, "k": k, "a": a, "ok": c.ok, "failure": c.failure,
                           "processing": c.processing, "base": c.base, "slab": c.slab, "extra": extra}));
        }
        *seen_cmds = cmds.len();
        for r in &got {
            if r.id == "EVENT" {
                continue; // worker events (metric detail transitions) are not answers
            }
            let idn: usize = r.id.rsplit('-').next().and_then(|s| s.parse().ok()).unwrap_or(0);
            ev.push(json!({"ev": "resp", "run": run, "id": idn, "st": wctl::status_name(r.status)}));
            *n_resp += 1;
        }
        got
    };

    let rq = |k: &str, a: &str| (k.to_string(), a.to_string());
    // the udp data path: every backend of the universe also listens for datagrams
    let mut udp_mocks = wctl::UdpMocks::start(&ad, &all_backends);
    let udp_ls = wctl::udp_listeners(&ad, &listeners);
    let mut udp_flows = 0usize;
    // What clients see now: connect / HTTP / TCP probes on every listener, then one datagram of a new
    // flow through every udp listener. Between sending the datagrams and looking at the backends a
    // Status request makes a round trip on the command channel: the worker has handled the datagrams
    // by then. A datagram the main-process side of the sequence says should be delivered is waited
    // for (a late look could only turn a delivery into a "drop"); returns the number of connections
    // and flows whose worker-side teardown may still be pending.
    let observe = |w: &mut Worker, ev: &mut Vec<Value>, reqs: &mut Vec<(String, String)>, seen_cmds: &mut usize, n_resp: &mut u64,
                   n_probe: &mut u64, held: usize, udp_mocks: &mut wctl::UdpMocks, udp_flows: &mut usize| -> usize {
        let seen = wctl::run_probes(&ad, &listeners, quiet);
        let mut conns = 0usize;
        for (l, m) in seen {
            for (h, out) in m {
                if out != "refused" {
                    conns += 1;
                }
                ev.push(json!({"ev": "probe", "run": run, "l": l, "h": h, "out": out}));
                *n_probe += 1;
            }
        }
        // (a listener that never got a frontend cannot route: no datagram before the first AddUFront of the run)
        let fronted = reqs.iter().any(|r| r.0 == "AddUFront");
        if fronted && !udp_ls.is_empty() && !w.is_finished() {
            let expect: Vec<bool> = udp_ls.iter().map(|l| udp_expected(&w.state, &ad, l)).collect();
            let shots: Vec<wctl::UdpShot> = udp_ls.iter().map(|l| wctl::udp_shoot(&ad, l)).collect();
            let _ = do_batch(w, vec![("Status".to_string(), String::new())], ev, reqs, held + conns + *udp_flows + shots.len(), seen_cmds, n_resp);
            let outs = wctl::udp_collect(udp_mocks, &shots, &expect, Duration::from_millis(3000).max(quiet), quiet / 40);
            for (l, o) in udp_ls.iter().zip(outs) {
                if o != "drop" {
                    *udp_flows += 1;
                }
                ev.push(json!({"ev": "probe", "run": run, "l": l, "h": "d", "out": o}));
                *n_probe += 1;
            }
        }
        conns + *udp_flows
    };
    // the worker's queryable view of both clusters, in the spec's terms
    let views = |w: &mut Worker, ev: &mut Vec<Value>, reqs: &mut Vec<(String, String)>, seen_cmds: &mut usize, n_resp: &mut u64, held: usize| {
        let answers = do_batch(w, CLUSTERS.iter().map(|c| ("QueryCluster".to_string(), c.to_string())).collect(), ev, reqs, held, seen_cmds, n_resp);
        for (i, c) in CLUSTERS.iter().enumerate() {
            let id = format!("{}-{}", name, reqs.len() - CLUSTERS.len() + i + 1);
            let info = answers
                .iter()
                .find(|r| r.id == id && r.status == ResponseStatus::Ok as i32)
                .and_then(|r| r.content.clone())
                .and_then(|c| c.content_type);
            if let Some(ContentType::Clusters(ci)) = info {
                ev.push(wctl::view_event(run, c, &ci.vec, &ad));
            }
        }
    };
    let mut batches = batches;
    if scenario == "shared" {
        let kind = *rng.pick(&["udp", "udp", "tcp", "http"]);
        let (l1, l2, fa, fb, addk, remk) = match kind {
            "udp" => ("uE", "uF", "u1", "u2", "AddUFront", "RemoveUFront"),
            "tcp" => ("tC", "tG", "t1", "t3", "AddTFront", "RemoveTFront"),
            _ => ("hA", "hB", "f1", "f4", "AddHFront", "RemoveHFront"),
        };
        let mut setup = vec![rq("AddListener", l1), rq("Activate", l1), rq("AddListener", l2), rq("Activate", l2)];
        let first_def = if rng.below(2) == 0 { "AddCluster" } else { "AddClusterAlt" };
        let cluster_first = rng.below(2) == 0;
        if cluster_first {
            setup.push(rq(first_def, "c1"));
        }
        if rng.below(2) == 0 {
            setup.push(rq(addk, fa));
            setup.push(rq(addk, fb));
        } else {
            setup.push(rq(addk, fb));
            setup.push(rq(addk, fa));
        }
        if !cluster_first && rng.below(4) != 0 {
            setup.push(rq(first_def, "c1"));
        }
        setup.push(rq("AddBackend", "b1"));
        if rng.below(3) == 0 {
            setup.push(rq("AddBackend", "b3"));
        }
        let _ = do_batch(&mut w, setup, &mut ev, &mut reqs, 0, &mut seen_cmds, &mut n_resp);
        views(&mut w, &mut ev, &mut reqs, &mut seen_cmds, &mut n_resp, probe_conns);
        probe_conns = observe(&mut w, &mut ev, &mut reqs, &mut seen_cmds, &mut n_resp, &mut n_probe, 0, &mut udp_mocks, &mut udp_flows);
        for _ in 0..(3 + rng.below(4)) {
            let k = rng.weighted(&[
                ("AddCluster", 20), ("AddClusterAlt", 24), ("RemoveCluster", 20), ("AddBackend", 8), ("RemoveBackend", 8),
                ("RemoveFront", 6), ("AddFront", 8), ("UpdateListener", 6),
            ]);
            let step = match k {
                "AddBackend" | "RemoveBackend" => rq(k, *rng.pick(&["b1", "b3"])),
                "RemoveFront" => rq(remk, *rng.pick(&[fa, fb])),
                "AddFront" => rq(addk, *rng.pick(&[fa, fb])),
                "UpdateListener" => rq(k, *rng.pick(&[l1, l2])),
                _ => rq(k, "c1"),
            };
            let _ = do_batch(&mut w, vec![step], &mut ev, &mut reqs, probe_conns, &mut seen_cmds, &mut n_resp);
            views(&mut w, &mut ev, &mut reqs, &mut seen_cmds, &mut n_resp, probe_conns);
            probe_conns = observe(&mut w, &mut ev, &mut reqs, &mut seen_cmds, &mut n_resp, &mut n_probe, 0, &mut udp_mocks, &mut udp_flows);
        }
        batches = 0;
    } else if scenario == "sat" {
        let _ = do_batch(&mut w, vec![rq("AddListener", "hA"), rq("Activate", "hA")], &mut ev, &mut reqs, 0, &mut seen_cmds, &mut n_resp);
        let target = ad.listener("hA").1;
        let mut held: Vec<TcpStream> = Vec::new();
        for pause in [0u64, 150, 150, 150] {
            // two sessions fill max_connections, the third is accepted and refused (the gate
            // closes), the fourth stays in the backlog: its readiness is only remembered
            std::thread::sleep(Duration::from_millis(pause));
            if let Ok(c) = TcpStream::connect_timeout(&target, Duration::from_millis(500)) {
                held.push(c);
            }
        }
        std::thread::sleep(Duration::from_millis(150));
        let k = if rng.below(2) == 0 { "Deactivate" } else { "RemoveListener" };
        let _ = do_batch(&mut w, vec![rq(k, "hA")], &mut ev, &mut reqs, held.len(), &mut seen_cmds, &mut n_resp);
        drop(held);
        // capacity comes back: the remembered readiness is replayed
        std::thread::sleep(Duration::from_millis(400));
        let _ = do_batch(&mut w, vec![rq("Status", "")], &mut ev, &mut reqs, 4, &mut seen_cmds, &mut n_resp);
        batches = 0;
    } else if scenario == "keep" {
        let l = *rng.pick(&["hA", "hB", "tC", "sD"]);
        let mut setup = vec![rq("AddListener", l), rq("Activate", l), rq("AddCluster", "c1"), rq("AddBackend", "b1")];
        match l {
            "hA" => setup.push(rq("AddHFront", "f1")),
            "hB" => setup.push(rq("AddHFront", "f4")),
            "tC" => setup.push(rq("AddTFront", "t1")),
            _ => {}
        }
        let _ = do_batch(&mut w, setup, &mut ev, &mut reqs, 0, &mut seen_cmds, &mut n_resp);
        if let Ok(mut c) = TcpStream::connect_timeout(&ad.listener(l).1, Duration::from_millis(500)) {
            if l == "tC" {
                // make sure the session is relayed to the backend before the listener goes away
                use std::io::Read;
                let _ = c.set_read_timeout(Some(Duration::from_millis(1500)));
                let _ = c.write_all(b"PING\n");
                let mut b = [0u8; 16];
                let _ = c.read(&mut b);
            }
            clients.push(c);
            std::thread::sleep(Duration::from_millis(100));
        }
        let k = if rng.below(10) < 7 { "RemoveListener" } else { "Deactivate" };
        let _ = do_batch(&mut w, vec![rq(k, l)], &mut ev, &mut reqs, clients.len() + 1, &mut seen_cmds, &mut n_resp);
        if wctl::peek_events(&name).iter().any(|c| c.verb == "ReturnListenSockets") {
            wctl::drain_scm(w.scm_main_to_worker.raw_fd());
        }
        probe_conns = observe(&mut w, &mut ev, &mut reqs, &mut seen_cmds, &mut n_resp, &mut n_probe, clients.len(), &mut udp_mocks, &mut udp_flows);
    }
    // most runs start with a set-up batch (shuffled, still back-to-back on the real channel) so
    // that the random requests that follow meet listeners, clusters, routes and backends
    if scenario == "random" && rng.below(10) < 8 {
        let mut setup: Vec<(String, String)> = Vec::new();
        for l in LISTENERS {
            if rng.below(10) < 6 {
                setup.push(("AddListener".to_string(), l.to_string()));
                if rng.below(10) < 8 {
                    setup.push(("Activate".to_string(), l.to_string()));
                }
            }
        }
        for c in CLUSTERS {
            if rng.below(10) < 7 {
                setup.push(("AddCluster".to_string(), c.to_string()));
            }
        }
        for b in BACKENDS {
            if rng.below(10) < 6 {
                setup.push(("AddBackend".to_string(), b.to_string()));
            }
        }
        for f in HFRONTS {
            if rng.below(10) < 5 {
                setup.push(("AddHFront".to_string(), f.to_string()));
            }
        }
        for t in TFRONTS {
            if rng.below(10) < 4 {
                setup.push(("AddTFront".to_string(), t.to_string()));
            }
        }
        // keep AddListener before Activate of the same listener most of the time: swap a few
        for _ in 0..rng.below(4) {
            if setup.len() > 1 {
                let i = rng.below(setup.len() as u64) as usize;
                let j = rng.below(setup.len() as u64) as usize;
                setup.swap(i, j);
            }
        }
        if !setup.is_empty() {
            let _ = do_batch(&mut w, setup, &mut ev, &mut reqs, 0, &mut seen_cmds, &mut n_resp);
        }
    }
    for _ in 0..batches {
        if w.is_finished() {
            break;
        }
        // client traffic held across the batch: idle keep-alive connections on HTTP listeners
        match rng.below(4) {
            0 => {
                let l = *rng.pick(&["hA", "hB", "hA", "hB", "tC", "sD"]);
                if let Ok(c) = TcpStream::connect_timeout(&ad.listener(l).1, Duration::from_millis(500)) {
                    clients.push(c);
                }
            }
            1 if !clients.is_empty() => {
                let i = rng.below(clients.len() as u64) as usize;
                clients.remove(i);
            }
            _ => {}
        }
        let size = 1 + rng.below(4);
        let mut batch = Vec::new();
        for _ in 0..size {
            let r = random_request(&mut rng);
            let is_stop = r.0 == "SoftStop" || r.0 == "HardStop";
            batch.push(r);
            if is_stop {
                stopped = true;
                // sometimes something is still written behind the stop, in the same batch
                if rng.below(2) == 0 {
                    batch.push((rng.pick(&["Status", "SoftStop", "AddCluster"]).to_string(), String::new()));
                    if batch.last().unwrap().0 == "AddCluster" {
                        batch.last_mut().unwrap().1 = "c1".to_string();
                    }
                }
                break;
            }
        }
        if stopped && !stop_with_client {
            clients.clear();
        }
        let _ = do_batch(&mut w, batch, &mut ev, &mut reqs, clients.len() + probe_conns, &mut seen_cmds, &mut n_resp);
        if stopped {
            break;
        }
        // what clients see now
        if wctl::peek_events(&name).iter().any(|c| c.verb == "ReturnListenSockets") {
            wctl::drain_scm(w.scm_main_to_worker.raw_fd());
        }
        views(&mut w, &mut ev, &mut reqs, &mut seen_cmds, &mut n_resp, clients.len() + probe_conns);
        probe_conns = observe(&mut w, &mut ev, &mut reqs, &mut seen_cmds, &mut n_resp, &mut n_probe, clients.len(), &mut udp_mocks, &mut udp_flows);
    }
    if !stopped && !w.is_finished() {
        if !stop_with_client {
            clients.clear();
        }
        let _ = do_batch(&mut w, vec![("SoftStop".to_string(), String::new())], &mut ev, &mut reqs, clients.len() + probe_conns, &mut seen_cmds, &mut n_resp);
    }
    // the final answer of a soft stop arrives when the last session is gone
    let mut tail: Vec<WorkerResponse> = Vec::new();
    let deadline = Instant::now() + Duration::from_secs(6).max(quiet * 3 / 2);
    while Instant::now() < deadline {
        match w.read(Duration::from_millis(50)) {
            Some(r) => tail.push(r),
            None => {
                if w.is_finished() {
                    while let Some(r) = w.read(Duration::from_millis(20)) {
                        tail.push(r);
                    }
                    break;
                }
            }
        }
    }
    let cmds = wctl::peek_events(&name);
    for c in cmds.iter().skip(seen_cmds) {
        let idn: usize = c.id.rsplit('-').next().and_then(|s| s.parse().ok()).unwrap_or(0);
        let (k, a) = reqs.get(idn.wrapping_sub(1)).cloned().unwrap_or_default();
        ev.push(json!({"ev": "cmd", "run": run, "id": idn, "k": k, "a": a, "ok": c.ok, "failure": c.failure,
                       "processing": c.processing, "base": c.base, "slab": c.slab, "extra": 2 * clients.len() + 16}));
    }
    for r in &tail {
        if r.id == "EVENT" {
            continue;
        }
        let idn: usize = r.id.rsplit('-').next().and_then(|s| s.parse().ok()).unwrap_or(0);
        ev.push(json!({"ev": "resp", "run": run, "id": idn, "st": wctl::status_name(r.status)}));
        n_resp += 1;
    }
    let exit = match w.join_within(Duration::from_secs(1)) {
        Ok(true) => {
            // ScmSocket does not own its descriptor: close both ends now that the worker is gone
            unsafe {
                libc::close(w.scm_main_to_worker.raw_fd());
                libc::close(w.scm_worker_to_main.raw_fd());
            }
            "clean".to_string()
        }
        Ok(false) => "hang".to_string(),
        Err(p) => format!("panic: {p}"),
    };
    ev.push(json!({"ev": "exit", "run": run, "how": if exit.starts_with("panic") { "panic" } else { exit.as_str() }, "detail": exit}));
    let _ = wctl::take_events(&name);
    wctl::forget_idle(&name);
    drop(clients);
    Run { events: ev, requests: reqs.len() as u64, responses: n_resp, probes: n_probe, exit }
}

/// Does the main-process side of the sequence say that a datagram through udp listener `l` finds a
/// backend? (a hint for how long the probe waits, never a verdict)
fn udp_expected(state: &ConfigState, ad: &Addrs, l: &str) -> bool {
    let addr = ad.listener(l).1;
    let active = state.udp_listeners.get(&addr).map(|x| x.active).unwrap_or(false);
    active
        && state.udp_fronts.iter().any(|(c, v)| {
            v.iter().any(|f| f.address == addr)
                && state.clusters.contains_key(c)
                && state.backends.get(c).map(|b| !b.is_empty()).unwrap_or(false)
        })
}

/// One back-to-back batch on worker `w`: `send` events, then the worker thread's own `cmd` events
/// (hook, worker order), then the `resp` events (channel order). Returns the responses.
#[allow(clippy::too_many_arguments)]
fn batch_events(
    w: &mut Worker, name: &str, run: u64, ad: &Addrs, batch: &[(String, String)], ev: &mut Vec<Value>,
    reqs: &mut Vec<(String, String)>, extra: usize, seen_cmds: &mut usize, n_resp: &mut u64, quiet: Duration,
) -> Vec<WorkerResponse> {
    let mut ids = Vec::new();
    for (k, a) in batch {
        let request: Request = wctl::build_request_full(k, a, ad);
        let id = w.send_raw(request);
        reqs.push((k.clone(), a.clone()));
        ev.push(json!({"ev": "send", "run": run, "id": reqs.len(), "k": k, "a": a}));
        ids.push(id);
    }
    let mut got: Vec<WorkerResponse> = Vec::new();
    let mut last = Instant::now();
    loop {
        let done = ids.iter().all(|id| got.iter().any(|r| &r.id == id && r.status != ResponseStatus::Processing as i32));
        if done {
            break;
        }
        match w.read(Duration::from_millis(50)) {
            Some(r) => {
                last = Instant::now();
                got.push(r);
            }
            None => {
                if w.is_finished() {
                    while let Some(r) = w.read(Duration::from_millis(20)) {
                        got.push(r);
                    }
                    break;
                }
                if last.elapsed() > quiet {
                    break;
                }
            }
        }
    }
    let cmds = wctl::peek_events(name);
    for c in cmds.iter().skip(*seen_cmds) {
        let idn: usize = c.id.rsplit('-').next().and_then(|s| s.parse().ok()).unwrap_or(0);
        let (k, a) = reqs.get(idn.wrapping_sub(1)).cloned().unwrap_or_default();
        ev.push(json!({"ev": "cmd", "run": run, "id": idn, "k": k, "a": a, "ok": c.ok, "failure": c.failure,
                       "processing": c.processing, "base": c.base, "slab": c.slab, "extra": extra}));
    }
    *seen_cmds = cmds.len();
    for r in &got {
        if r.id == "EVENT" {
            continue;
        }
        let idn: usize = r.id.rsplit('-').next().and_then(|s| s.parse().ok()).unwrap_or(0);
        ev.push(json!({"ev": "resp", "run": run, "id": idn, "st": wctl::status_name(r.status)}));
        *n_resp += 1;
    }
    got
}

/// The fault scenario: listener verbs interleaved with a foreign process holding / releasing the
/// listener addresses (see the module documentation).
fn drive_fault(run: u64, seed: u64, index_base: u64, port: u16, quiet: Duration) -> Run {
    let mut rng = Rng::new(seed.wrapping_mul(1_000_033).wrapping_add(run) ^ 0xFA17);
    // a busy address would look like a hold the spec knows nothing about: take free ones or skip the run
    let Some(ad) = wctl::free_addrs_for(index_base + run, port) else {
        return Run { events: vec![json!({"ev": "reset", "run": run})], requests: 0, responses: 0, probes: 0, exit: "skipped".to_string() };
    };
    let name = format!("f{}", index_base + run);
    let mut ev: Vec<Value> = vec![json!({"ev": "reset", "run": run})];
    let all_backends: Vec<String> = BACKENDS.iter().map(|s| s.to_string()).collect();
    let _mocks = MockBackends::start(&ad, &all_backends);
    let listeners: Vec<String> = LISTENERS.iter().map(|s| s.to_string()).collect();
    let mut w = Worker::start_empty(&name);
    let mut reqs: Vec<(String, String)> = Vec::new();
    let mut seen_cmds = 0usize;
    let (mut n_resp, mut n_probe) = (0u64, 0u64);
    let rq = |k: &str, a: &str| (k.to_string(), a.to_string());

    // the listeners this run plays with
    let mut ls: Vec<&str> = Vec::new();
    let want = 1 + rng.below(3) as usize;
    while ls.len() < want {
        let l = *rng.pick(LISTENERS);
        if !ls.contains(&l) {
            ls.push(l);
        }
    }
    let mut holders: BTreeMap<String, wctl::Holder> = BTreeMap::new();
    let mut handed = false; // a ReturnListenSockets was sent: the spec's environment holds nothing new
    let mut probe_conns = 0usize;

    // the environment moves first in half of the runs: the very first activation is refused
    let toggle = |l: &str, holders: &mut BTreeMap<String, wctl::Holder>, ev: &mut Vec<Value>, may_hold: bool| {
        let a = wctl::addr_letter(l);
        if holders.remove(&a).is_some() {
            ev.push(json!({"ev": "release", "run": run, "a": a}));
        } else if may_hold {
            match wctl::hold_address(&ad, &a) {
                Ok(h) => {
                    holders.insert(a.clone(), h);
                    ev.push(json!({"ev": "hold", "run": run, "a": a}));
                }
                Err(e) => ev.push(json!({"ev": "holdfail", "run": run, "a": a, "error": e})),
            }
        }
    };
    if rng.below(2) == 0 {
        let l = *rng.pick(&ls);
        toggle(l, &mut holders, &mut ev, true);
    }
    let mut setup: Vec<(String, String)> = Vec::new();
    for l in &ls {
        if rng.below(10) < 9 {
            setup.push(rq("AddListener", l));
        }
        if rng.below(10) < 6 {
            setup.push(rq("Activate", l));
        }
    }
    if rng.below(10) < 7 {
        setup.push(rq("AddCluster", "c1"));
        setup.push(rq("AddBackend", "b1"));
        for (l, k, f) in [("hA", "AddHFront", "f1"), ("hB", "AddHFront", "f4"), ("tC", "AddTFront", "t1")] {
            if ls.contains(&l) && rng.below(10) < 7 {
                setup.push(rq(k, f));
            }
        }
    }
    let _ = batch_events(&mut w, &name, run, &ad, &setup, &mut ev, &mut reqs, 2, &mut seen_cmds, &mut n_resp, quiet);

    let probes = |w: &mut Worker, holders: &BTreeMap<String, wctl::Holder>, ev: &mut Vec<Value>, n_probe: &mut u64| -> usize {
        if wctl::peek_events(&name).iter().any(|c| c.verb == "ReturnListenSockets") {
            wctl::drain_scm(w.scm_main_to_worker.raw_fd());
        }
        let held: Vec<String> = holders.keys().cloned().collect();
        let seen = wctl::run_probes_faults(&ad, &listeners, quiet, &held);
        let mut conns = 0;
        for (l, m) in seen {
            for (h, out) in m {
                if out != "refused" && !l.starts_with('u') {
                    conns += 1;
                }
                ev.push(json!({"ev": "probe", "run": run, "l": l, "h": h, "out": out}));
                *n_probe += 1;
            }
        }
        conns
    };
    probe_conns += probes(&mut w, &holders, &mut ev, &mut n_probe);

    let rounds = 3 + rng.below(4);
    for _ in 0..rounds {
        if w.is_finished() {
            break;
        }
        // the environment
        for l in &ls {
            if rng.below(3) == 0 {
                toggle(l, &mut holders, &mut ev, !handed);
            }
        }
        // listener verbs
        let size = 1 + rng.below(3);
        let mut batch = Vec::new();
        for _ in 0..size {
            let k = rng.weighted(&[
                ("Activate", 45), ("Deactivate", 18), ("RemoveListener", 7), ("AddListener", 10), ("UpdateListener", 5),
                ("ReturnSockets", 2), ("Status", 5), ("AddHFront", 4), ("RemoveHFront", 2), ("AddTFront", 2),
            ]);
            match k {
                "ReturnSockets" => {
                    handed = true;
                    batch.push(rq(k, ""));
                }
                "Status" => batch.push(rq(k, "")),
                "AddHFront" | "RemoveHFront" => batch.push(rq(k, *rng.pick(&["f1", "f4"]))),
                "AddTFront" => batch.push(rq(k, "t1")),
                _ => batch.push(rq(k, *rng.pick(&ls))),
            }
        }
        let _ = batch_events(&mut w, &name, run, &ad, &batch, &mut ev, &mut reqs, 2 * probe_conns + 2, &mut seen_cmds, &mut n_resp, quiet);
        probe_conns = probes(&mut w, &holders, &mut ev, &mut n_probe);
    }
    // every cause is gone: the same command is sent again and the listeners must serve
    let letters: Vec<String> = holders.keys().cloned().collect();
    for a in letters {
        holders.remove(&a);
        ev.push(json!({"ev": "release", "run": run, "a": a}));
    }
    if !w.is_finished() {
        let again: Vec<(String, String)> = ls.iter().map(|l| rq("Activate", l)).collect();
        let _ = batch_events(&mut w, &name, run, &ad, &again, &mut ev, &mut reqs, 2 * probe_conns + 2, &mut seen_cmds, &mut n_resp, quiet);
        probe_conns = probes(&mut w, &holders, &mut ev, &mut n_probe);
        let _ = batch_events(&mut w, &name, run, &ad, &[rq("SoftStop", "")], &mut ev, &mut reqs, 2 * probe_conns + 2, &mut seen_cmds, &mut n_resp, quiet);
    }
    let mut tail: Vec<WorkerResponse> = Vec::new();
    let deadline = Instant::now() + Duration::from_secs(6).max(quiet * 3 / 2);
    while Instant::now() < deadline {
        match w.read(Duration::from_millis(50)) {
            Some(r) => tail.push(r),
            None => {
                if w.is_finished() {
                    while let Some(r) = w.read(Duration::from_millis(20)) {
                        tail.push(r);
                    }
                    break;
                }
            }
        }
    }
    let cmds = wctl::peek_events(&name);
    for c in cmds.iter().skip(seen_cmds) {
        let idn: usize = c.id.rsplit('-').next().and_then(|s| s.parse().ok()).unwrap_or(0);
        let (k, a) = reqs.get(idn.wrapping_sub(1)).cloned().unwrap_or_default();
        ev.push(json!({"ev": "cmd", "run": run, "id": idn, "k": k, "a": a, "ok": c.ok, "failure": c.failure,
                       "processing": c.processing, "base": c.base, "slab": c.slab, "extra": 2 * probe_conns + 16}));
    }
    for r in &tail {
        if r.id == "EVENT" {
            continue;
        }
        let idn: usize = r.id.rsplit('-').next().and_then(|s| s.parse().ok()).unwrap_or(0);
        ev.push(json!({"ev": "resp", "run": run, "id": idn, "st": wctl::status_name(r.status)}));
        n_resp += 1;
    }
    let exit = match w.join_within(Duration::from_secs(1)) {
        Ok(true) => {
            unsafe {
                libc::close(w.scm_main_to_worker.raw_fd());
                libc::close(w.scm_worker_to_main.raw_fd());
            }
            "clean".to_string()
        }
        Ok(false) => "hang".to_string(),
        Err(p) => format!("panic: {p}"),
    };
    ev.push(json!({"ev": "exit", "run": run, "how": if exit.starts_with("panic") { "panic" } else { exit.as_str() }, "detail": exit}));
    let _ = wctl::take_events(&name);
    wctl::forget_idle(&name);
    Run { events: ev, requests: reqs.len() as u64, responses: n_resp, probes: n_probe, exit }
}

fn main() {
    vh::util::quiet_panics();
    let a: Vec<String> = std::env::args().collect();
    let mut seed = 1u64;
    let mut runs = 50u64;
    let mut threads = 8usize;
    let mut out = String::from("trace.ndjson");
    let mut index_base = 0u64;
    let mut wait_ms = 4000u64;
    let mut fault = false;
    let mut only = 0u64; // re-drive this run number alone (same seed => same script)
    let mut i = 1;
    while i < a.len() {
        match a[i].as_str() {
            "--seed" => { seed = a[i + 1].parse().unwrap(); i += 1 }
            "--runs" => { runs = a[i + 1].parse().unwrap(); i += 1 }
            "--threads" => { threads = a[i + 1].parse().unwrap(); i += 1 }
            "--out" => { out = a[i + 1].clone(); i += 1 }
            "--index-base" => { index_base = a[i + 1].parse().unwrap(); i += 1 }
            "--wait-ms" => { wait_ms = a[i + 1].parse().unwrap(); i += 1 }
            "--scenario" => { fault = a[i + 1] == "fault"; i += 1 }
            "--only" => { only = a[i + 1].parse().unwrap(); i += 1 }
            _ => {}
        }
        i += 1;
    }
    wctl::install_cmd_sink();
    let port = {
        let mut p = vh::worker::free_port();
        while p > 60_000 {
            p = vh::worker::free_port();
        }
        p
    };
    let next = Arc::new(AtomicUsize::new(0));
    let results: Arc<Mutex<BTreeMap<u64, Run>>> = Arc::new(Mutex::new(BTreeMap::new()));
    let t0 = Instant::now();
    let mut handles = Vec::new();
    for _ in 0..threads.max(1) {
        let next = next.clone();
        let results = results.clone();
        handles.push(std::thread::spawn(move || {
            loop {
                let r = next.fetch_add(1, Ordering::SeqCst) as u64;
                if r >= runs {
                    break;
                }
                if only != 0 && r + 1 != only {
                    continue;
                }
                let res = catch_unwind(AssertUnwindSafe(|| {
                    if fault {
                        drive_fault(r + 1, seed, index_base, port, Duration::from_millis(wait_ms))
                    } else {
                        drive(r + 1, seed, index_base, port, Duration::from_millis(wait_ms))
                    }
                }));
                let run = match res {
                    Ok(run) => run,
                    Err(e) => Run {
                        events: vec![json!({"ev": "reset", "run": r + 1}), json!({"ev": "exit", "run": r + 1, "how": "harness-panic", "detail": vh::util::panic_message(e)})],
                        requests: 0,
                        responses: 0,
                        probes: 0,
                        exit: "harness-panic".to_string(),
                    },
                };
                results.lock().unwrap().insert(r + 1, run);
            }
        }));
    }
    for h in handles {
        let _ = h.join();
    }
    let res = results.lock().unwrap();
    let mut f = std::io::BufWriter::new(std::fs::File::create(&out).expect("create trace file"));
    let (mut n_ev, mut n_req, mut n_resp, mut n_probe) = (0u64, 0u64, 0u64, 0u64);
    let mut exits: BTreeMap<String, u64> = BTreeMap::new();
    let mut run_index: Vec<Value> = Vec::new();
    for (r, run) in res.iter() {
        run_index.push(json!({"run": r, "first_event": n_ev + 1, "events": run.events.len()}));
        for e in &run.events {
            writeln!(f, "{e}").expect("write");
            n_ev += 1;
        }
        n_req += run.requests;
        n_resp += run.responses;
        n_probe += run.probes;
        *exits.entry(if run.exit.starts_with("panic") { "panic".to_string() } else { run.exit.clone() }).or_insert(0) += 1;
    }
    // sentinel: the last run, too, must have had every predicted response observed
    writeln!(f, "{}", json!({"ev": "reset", "run": 0})).expect("write");
    n_ev += 1;
    f.flush().expect("flush");
    vh::util::emit(&json!({"kind": "summary", "runs": runs, "events": n_ev, "requests": n_req, "responses": n_resp,
                           "probes": n_probe, "exits": exits, "wall_s": t0.elapsed().as_secs_f64(), "run_index": run_index}));
    std::process::exit(0);
}
