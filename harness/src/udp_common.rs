//! Shared by replay_udp (S->I) and drive_udp (I->S): concretisation of the integers of
//! spec/UdpFlows.tla, execution of one abstract input on the REAL `UdpManager`, and the single
//! projection of real outputs / real state into the spec's shapes (DESIGN Appendix A.5).
//! Included with `#[path]` by both binaries (not part of the `vh` library).
#![allow(dead_code)]

use std::collections::HashMap;
use std::net::{IpAddr, Ipv4Addr, SocketAddr};
use std::panic::{AssertUnwindSafe, catch_unwind};
use std::time::{Duration, Instant};

use serde_json::{Value, json};
use sozu_lib::protocol::udp::{
    CloseReason, ClusterConfig, ConfigEvent, DropReason, ManagerInput, MetricEvent, Output, UdpManager,
    flow::FlowPhase,
};

/// Highest flow id looked at when projecting the state.
pub const MAX_ID: usize = 24;
const PP_SIG: [u8; 12] = [0x0D, 0x0A, 0x0D, 0x0A, 0x00, 0x0D, 0x0A, 0x51, 0x55, 0x49, 0x54, 0x0A];

/// The table model value -> concrete datum.
#[derive(Clone)]
pub struct Conc {
    pub base: Instant,
    /// one unit of spec time, in milliseconds
    pub time_unit: u64,
    /// one unit of spec payload length, in bytes
    pub len_unit: usize,
    /// spec port p is UDP port `port_base + p`
    pub port_base: u16,
    /// second octet of client addresses
    pub net: u8,
}

impl Conc {
    pub fn new(base: Instant, time_unit: u64, len_unit: usize, port_base: u16, net: u8) -> Conc {
        Conc { base, time_unit, len_unit, port_base, net }
    }
    pub fn src(&self, ip: i64, port: i64) -> SocketAddr {
        SocketAddr::new(IpAddr::V4(Ipv4Addr::new(10, self.net, 0, ip as u8)), self.port_base + port as u16)
    }
    pub fn unsrc(&self, a: SocketAddr) -> (i64, i64) {
        match a.ip() {
            IpAddr::V4(v4) if v4.octets()[0] == 10 && v4.octets()[1] == self.net && v4.octets()[2] == 0 => {
                (v4.octets()[3] as i64, a.port() as i64 - self.port_base as i64)
            }
            _ => (-1, -1),
        }
    }
    pub fn backend(&self, b: i64) -> (String, SocketAddr) {
        (format!("b{b}"), SocketAddr::new(IpAddr::V4(Ipv4Addr::new(127, 0, 0, 1)), 5300 + b as u16))
    }
    pub fn unbackend(&self, a: SocketAddr) -> i64 {
        if a.ip() == IpAddr::V4(Ipv4Addr::new(127, 0, 0, 1)) && a.port() > 5300 { a.port() as i64 - 5300 } else { -1 }
    }
    pub fn cluster_name(&self, k: i64) -> String {
        if k == 0 { String::new() } else { format!("cluster-{k}") }
    }
    pub fn uncluster(&self, s: &str) -> i64 {
        if s.is_empty() { 0 } else { s.strip_prefix("cluster-").and_then(|x| x.parse().ok()).unwrap_or(-1) }
    }
    /// CfgT = [name, withPort, responses, requests, ft, bt, pp, ppEvery]
    pub fn cfg(&self, a: &Value) -> ClusterConfig {
        let g = |i: usize| a[i].as_i64().unwrap();
        ClusterConfig {
            cluster: self.cluster_name(g(0)),
            affinity_with_port: g(1) != 0,
            responses: g(2) as u32,
            requests: g(3) as u32,
            front_timeout: Duration::from_millis(g(4) as u64 * self.time_unit),
            back_timeout: Duration::from_millis(g(5) as u64 * self.time_unit),
            send_proxy_protocol: g(6) != 0,
            proxy_protocol_every_datagram: g(7) != 0,
        }
    }
    pub fn uncfg(&self, c: &ClusterConfig) -> Value {
        json!([
            self.uncluster(&c.cluster),
            c.affinity_with_port as i64,
            c.responses,
            c.requests,
            self.undur(c.front_timeout),
            self.undur(c.back_timeout),
            c.send_proxy_protocol as i64,
            c.proxy_protocol_every_datagram as i64
        ])
    }
    fn undur(&self, d: Duration) -> i64 {
        let ms = d.as_millis() as u64;
        if ms % self.time_unit == 0 { (ms / self.time_unit) as i64 } else { -2 }
    }
    pub fn time(&self, t: i64) -> Instant {
        self.base + Duration::from_millis(t as u64 * self.time_unit)
    }
    pub fn untime(&self, i: Instant) -> i64 {
        match i.checked_duration_since(self.base) {
            Some(d) if d.subsec_nanos() % 1_000_000 == 0 => self.undur(d),
            _ => -2,
        }
    }
    /// The bytes of abstract payload (id, len): `len * len_unit` bytes that depend on every
    /// position and on the id, so that truncation, merging and substitution are all visible.
    pub fn payload(&self, id: i64, len: i64) -> Vec<u8> {
        let n = len as usize * self.len_unit;
        let mut v = Vec::with_capacity(n);
        let idb = (id as u32).to_be_bytes();
        for j in 0..n {
            if j < 4 { v.push(idb[j]) } else { v.push((id as usize * 31 + j * 7 + 1) as u8) }
        }
        v
    }
}

/// Everything offered so far in a run: exact bytes -> (id, len). Decoding an output payload is a
/// lookup of its exact bytes, so any alteration maps to "unknown" (-1).
#[derive(Default)]
pub struct Registry {
    by_bytes: HashMap<Vec<u8>, (i64, i64)>,
    /// an empty datagram has no bytes to recognise it by: it is the last empty one offered (the
    /// manager never stores an empty datagram, it forwards it within the same call or drops it)
    last_empty: i64,
}

impl Registry {
    pub fn offer(&mut self, conc: &Conc, id: i64, len: i64) -> Vec<u8> {
        let b = conc.payload(id, len);
        if b.is_empty() {
            self.last_empty = id;
        } else {
            self.by_bytes.insert(b.clone(), (id, len));
        }
        b
    }
    pub fn lookup(&self, b: &[u8]) -> (i64, i64) {
        if b.is_empty() { (self.last_empty, 0) } else { self.by_bytes.get(b).copied().unwrap_or((-1, b.len() as i64)) }
    }
}

/// How SelectBackend's opaque 64-bit affinity hash is shown.
pub enum KeyView<'a> {
    /// first-seen numbering of the distinct hash values of this run (I->S traces)
    Index(&'a mut Vec<u64>),
    /// raw, as a decimal string (S->I replay: compared relationally against the spec's key)
    Raw,
}

pub fn reason_str(r: DropReason) -> &'static str {
    match r {
        DropReason::Invalid => "Invalid",
        DropReason::Truncated => "Truncated",
        DropReason::NoBackend => "NoBackend",
        DropReason::Shed => "Shed",
        DropReason::UnknownFlow => "UnknownFlow",
    }
}

fn len_units(conc: &Conc, n: usize) -> i64 {
    if n % conc.len_unit == 0 { (n / conc.len_unit) as i64 } else { -2 }
}

/// Project one real `Output` into the record shape of spec/UdpFlows.tla.
pub fn project_output(conc: &Conc, reg: &Registry, o: &Output, keys: &mut KeyView) -> Value {
    match o {
        Output::Metric(m) => match m {
            MetricEvent::FlowCreated => json!({"k":"Metric","m":"FlowCreated"}),
            MetricEvent::FlowEvicted => json!({"k":"Metric","m":"FlowEvicted"}),
            MetricEvent::FlowShed => json!({"k":"Metric","m":"FlowShed"}),
            MetricEvent::DatagramIn(n) => json!({"k":"Metric","m":"DatagramIn","len":len_units(conc, *n)}),
            MetricEvent::DatagramOut(n) => json!({"k":"Metric","m":"DatagramOut","len":len_units(conc, *n)}),
            MetricEvent::DatagramDropped(r) => json!({"k":"Metric","m":"DatagramDropped","reason":reason_str(*r)}),
        },
        Output::SelectBackend { flow, cluster, key } => {
            let kv = match keys {
                KeyView::Raw => json!({"hash": key.to_string()}),
                KeyView::Index(seen) => {
                    let idx = match seen.iter().position(|h| h == key) {
                        Some(i) => i,
                        None => {
                            seen.push(*key);
                            seen.len() - 1
                        }
                    };
                    json!({"idx": idx as i64 + 1})
                }
            };
            json!({"k":"SelectBackend","flow":*flow as i64,"cluster":conc.uncluster(cluster),"key":kv})
        }
        Output::OpenUpstream { flow, backend } => {
            json!({"k":"OpenUpstream","flow":*flow as i64,"backend":conc.unbackend(*backend)})
        }
        Output::SendToBackend(t) => {
            let (pp, body) = split_pp(&t.payload, t.dst);
            let (id, _len) = reg.lookup(body);
            let mut dst = conc.unbackend(t.dst);
            if t.segment_size.is_some() || pp == PpView::Malformed {
                dst = -3;
            }
            json!({"k":"SendToBackend","dst":dst,"p":id,"pp":pp != PpView::Absent})
        }
        Output::SendToClient(t) => {
            let (ip, port) = conc.unsrc(t.dst);
            let (id, _len) = reg.lookup(&t.payload);
            let id = if t.segment_size.is_some() { -3 } else { id };
            json!({"k":"SendToClient","client":{"ip":ip,"port":port},"p":id})
        }
        Output::ArmTimer(at) => json!({"k":"ArmTimer","at":conc.untime(*at)}),
        Output::CloseFlow(f) => json!({"k":"CloseFlow","flow":*f as i64}),
        Output::Drop(r) => json!({"k":"Drop","reason":reason_str(*r)}),
    }
}

#[derive(PartialEq, Clone, Copy)]
enum PpView {
    Absent,
    Present,
    Malformed,
}

/// A PROXY v2 DGRAM/IPv4 prefix is 28 bytes: signature, 0x21, 0x12, length 12, addresses, ports.
/// Only what C19 needs is looked at: the prefix is well formed, names the datagram's real
/// destination, and what follows it is the payload.
fn split_pp(p: &[u8], dst: SocketAddr) -> (PpView, &[u8]) {
    if p.len() < 12 || p[..12] != PP_SIG {
        return (PpView::Absent, p);
    }
    if p.len() < 28 || p[12] != 0x21 || p[13] != 0x12 || p[14] != 0 || p[15] != 12 {
        return (PpView::Malformed, p);
    }
    let dip = Ipv4Addr::new(p[20], p[21], p[22], p[23]);
    let dport = u16::from_be_bytes([p[26], p[27]]);
    if IpAddr::V4(dip) != dst.ip() || dport != dst.port() {
        return (PpView::Malformed, &p[28..]);
    }
    (PpView::Present, &p[28..])
}

/// ObsT of the spec: [armed, maxFlows, draining, withPort, [FlowT...]] with
/// FlowT = [id, ip, port, phase, backend, pendId, pendLen, deadline, gen, req, resp, firstPP, CfgT].
pub fn project_state(conc: &Conc, reg: &Registry, mgr: &UdpManager) -> Value {
    let mut flows = Vec::new();
    let mut seen = 0usize;
    for id in 0..MAX_ID {
        if let Some(f) = mgr.flow(id) {
            seen += 1;
            let (ip, port) = conc.unsrc(f.client);
            let phase = match f.phase {
                FlowPhase::AwaitingBackend => 0,
                FlowPhase::Established => 1,
                FlowPhase::Closing => 2,
            };
            let backend = match (&f.backend_id, f.backend_addr) {
                (None, None) => 0,
                (Some(name), Some(addr)) => {
                    let b = conc.unbackend(addr);
                    if *name == format!("b{b}") { b } else { -3 }
                }
                _ => -3,
            };
            let (pid, plen) = match &f.pending_payload {
                None => (0, 0),
                Some(b) => {
                    let (id, len) = reg.lookup(b);
                    (id, if id > 0 { len } else { -1 })
                }
            };
            flows.push(json!([
                id as i64,
                ip,
                port,
                phase,
                backend,
                pid,
                plen,
                conc.untime(f.idle_deadline),
                f.timer_gen as i64,
                f.requests_seen as i64,
                f.responses_seen as i64,
                f.first_upstream_pending as i64,
                conc.uncfg(&f.config)
            ]));
        }
    }
    // flow_count() must agree with what flow(id) shows (ids above MAX_ID would show up here)
    let count_ok = seen == mgr.flow_count();
    let armed = match mgr.poll_timeout() {
        None => -1,
        Some(i) => conc.untime(i),
    };
    let mut v = json!([armed, mgr.max_flows() as i64, mgr.is_draining() as i64, mgr.affinity_with_port() as i64, flows]);
    if !count_ok {
        v.as_array_mut().unwrap().push(json!({"flow_count": mgr.flow_count() as i64}));
    }
    v
}

pub struct StepResult {
    pub outputs: Vec<Output>,
    pub panic: Option<String>,
}

fn flow_id(v: &Value) -> usize {
    let x = v.as_i64().unwrap_or(0);
    if x < 0 { usize::MAX } else { x as usize }
}

/// Execute one abstract input (the `inp` record of the spec) on the real manager at spec time
/// `now`, then drain `poll_output()` to the end. A panic inside sozu is data.
pub fn apply(mgr: &mut UdpManager, conc: &Conc, reg: &mut Registry, inp: &Value, now: i64) -> StepResult {
    let at = conc.time(now);
    let op = inp["op"].as_str().unwrap_or("");
    let r = catch_unwind(AssertUnwindSafe(|| {
        match op {
            "ClientDatagram" => {
                let src = conc.src(inp["src"]["ip"].as_i64().unwrap(), inp["src"]["port"].as_i64().unwrap());
                let payload = reg.offer(conc, inp["pl"]["id"].as_i64().unwrap(), inp["pl"]["len"].as_i64().unwrap());
                mgr.handle_input(ManagerInput::ClientDatagram { src, payload: &payload }, at);
            }
            "BackendDatagram" => {
                let payload = reg.offer(conc, inp["pl"]["id"].as_i64().unwrap(), inp["pl"]["len"].as_i64().unwrap());
                mgr.handle_input(ManagerInput::BackendDatagram { flow: flow_id(&inp["flow"]), payload: &payload }, at);
            }
            "BackendResolved" => {
                let (backend, addr) = conc.backend(inp["backend"].as_i64().unwrap());
                mgr.handle_input(ManagerInput::BackendResolved { flow: flow_id(&inp["flow"]), backend, addr }, at);
            }
            "Config" => {
                let ev = &inp["ev"];
                let e = match ev["what"].as_str().unwrap_or("") {
                    "SetCluster" => ConfigEvent::SetCluster(conc.cfg(&cfg_array(&ev["cfg"]))),
                    "SetMaxFlows" => ConfigEvent::SetMaxFlows(ev["v"].as_i64().unwrap() as usize),
                    "SetMaxRx" => ConfigEvent::SetMaxRxDatagramSize(ev["v"].as_i64().unwrap() as usize * conc.len_unit),
                    "Drain" => ConfigEvent::Drain,
                    w => panic!("harness: unknown config event {w}"),
                };
                mgr.handle_input(ManagerInput::Config(e), at);
            }
            "Timeout" => mgr.handle_timeout(at),
            "Abort" => mgr.abort_flow(flow_id(&inp["flow"]), at, CloseReason::Aborted),
            "CloseAll" => mgr.close_all(at),
            "Tick" => {}
            w => panic!("harness: unknown op {w}"),
        }
        let mut outs = Vec::new();
        while let Some(o) = mgr.poll_output() {
            outs.push(o);
            if outs.len() > 10_000 {
                break;
            }
        }
        outs
    }));
    match r {
        Ok(outputs) => StepResult { outputs, panic: None },
        Err(e) => StepResult { outputs: Vec::new(), panic: Some(vh::util::panic_message(e)) },
    }
}

/// A cluster configuration is either the spec's record (TLC output) or a CfgT array (traces).
pub fn cfg_array(v: &Value) -> Value {
    if v.is_array() {
        return v.clone();
    }
    let b = |x: &Value| x.as_bool().map(|b| b as i64).or(x.as_i64()).unwrap_or(0);
    json!([
        v["name"].as_i64().unwrap_or(0),
        b(&v["withPort"]),
        v["responses"].as_i64().unwrap_or(0),
        v["requests"].as_i64().unwrap_or(0),
        v["ft"].as_i64().unwrap_or(0),
        v["bt"].as_i64().unwrap_or(0),
        b(&v["pp"]),
        b(&v["ppEvery"])
    ])
}

pub fn new_manager(conc: &Conc, cluster: &Value, max_flows: i64, max_rx: i64, hash_seed: u64) -> UdpManager {
    UdpManager::new(conc.cfg(&cfg_array(cluster)), max_flows as usize, max_rx as usize * conc.len_unit, hash_seed)
}

/// Vacuity bookkeeping: which inputs, outputs, drop reasons and teardown causes were exercised.
pub fn note_cover(cov: &mut std::collections::BTreeMap<String, u64>, inp: &Value, out: &Value) {
    let op = inp["op"].as_str().unwrap_or("?");
    let opname = if op == "Config" { format!("op:Config.{}", inp["ev"]["what"].as_str().unwrap_or("?")) } else { format!("op:{op}") };
    *cov.entry(opname).or_default() += 1;
    for o in out.as_array().into_iter().flatten() {
        let k = o["k"].as_str().unwrap_or("?");
        let name = match k {
            "Drop" => format!("out:Drop.{}", o["reason"].as_str().unwrap_or("?")),
            "Metric" => format!("out:Metric.{}", o["m"].as_str().unwrap_or("?")),
            "SendToBackend" => format!("out:SendToBackend{}", if o["pp"] == true { "+pp" } else { "" }),
            _ => format!("out:{k}"),
        };
        *cov.entry(name).or_default() += 1;
        if k == "CloseFlow" {
            *cov.entry(format!("close-by:{op}")).or_default() += 1;
        }
    }
}

