------------------------------- MODULE H2Conn -------------------------------
(***************************************************************************)
(* Receiver view of one HTTP/2 server connection of sozu (property C15).   *)
(*                                                                         *)
(* Code: lib/src/protocol/mux/h2.rs (readable / handle_header_state /      *)
(* handle_continuation_header_state / handle_*_frame / H2FloodDetector),   *)
(* parser.rs (frame_header / frame_body), LIFECYCLE.md section 9.          *)
(*                                                                         *)
(* Two descriptions of the reaction to a peer frame live side by side:     *)
(*   React(s, f)  - the RELATION: every reaction RFC 9113 section 5-6      *)
(*                  (+ RFC 9218 PRIORITY_UPDATE, + sozu's documented flood *)
(*                  policy) admits in state s;                             *)
(*   Sozu(s, f)   - the code model: the reaction sozu chooses and the      *)
(*                  successor state, written in the order of the checks    *)
(*                  in h2.rs.                                              *)
(* P_C15_React says the second is always inside the first. The S->I replay *)
(* compares the implementation with the relation (verdict) and with the    *)
(* code model (to keep following the sequence).                            *)
(*                                                                         *)
(* Stream ids of the model universe: 0 (connection), 1 3 5 (client), 2     *)
(* (even: never legal from a client).                                      *)
(*                                                                         *)
(* Flow-control ledger (RFC 9113 6.9, 6.9.1, 6.9.2): the reaction to       *)
(* WINDOW_UPDATE and to SETTINGS(INITIAL_WINDOW_SIZE) depends on history - *)
(* on the windows the earlier WINDOW_UPDATEs, SETTINGS changes and the     *)
(* response bytes already sent have left behind. The state carries the     *)
(* real numbers: iws (the peer's current INITIAL_WINDOW_SIZE), cw (the     *)
(* connection send window), sw[x] (send window of every stream of the map) *)
(* and rem[x] (response body bytes not yet sent because the window is      *)
(* closed). TLC computes with the true values (2^31-1 fits its integers;   *)
(* every sum is guarded by Over so that nothing overflows).                *)
(***************************************************************************)
EXTENDS Naturals, Sequences, FiniteSets, SequencesExt, TLC, Json

CONSTANTS MaxStreams,      \* advertised SETTINGS_MAX_CONCURRENT_STREAMS
          MaxRst,          \* h2_max_rst_stream_per_window
          MaxPing,         \* h2_max_ping_per_window
          MaxSettings,     \* h2_max_settings_per_window
          MaxEmpty,        \* h2_max_empty_data_per_window
          MaxWu0,          \* h2_max_window_update_stream0_per_window
          MaxCont,         \* h2_max_continuation_frames
          MaxGlitch,       \* h2_max_glitch_count
          MaxRstLife,      \* h2_max_rst_stream_lifetime
          MaxRstAbusive,   \* h2_max_rst_stream_abusive_lifetime
          MaxRstEmitted,   \* h2_max_rst_stream_emitted_lifetime
          MaxRstQueued,    \* MAX_PENDING_RST_STREAMS (hard-coded 200): lifetime cap on queued resets
          MaxPingLife,     \* DEFAULT_MAX_PING_LIFETIME (hard-coded 10 000)
          MaxSettingsLife, \* DEFAULT_MAX_SETTINGS_LIFETIME (hard-coded 10 000)
          OddSids,         \* client stream ids of the universe ({1, 3, 5} in the model-checking configurations)
          MaxDepth,        \* bound on the number of peer/backend steps of a behaviour
          MaxValid,        \* generator: length of the valid prefix
          Deviations,      \* open known findings modelled as the code behaves
          Emit,            \* "off" (depth-bounded) | "mc" (valid prefix, then arbitrary frames) |
                           \* "cover" (one REPLAY line per prefix state) | "walk" (one REPLAY line per behaviour)
          Focus            \* "all" | "win": the valid prefix (and, for walks, every frame) is drawn from the
                           \* flow-control alphabet WinAlphabet, so that the bounded prefix is spent on the ledger

VARIABLES st, hist
vars == <<st, hist>>

Generating == Emit \in {"cover", "walk"}    \* generator configurations (S->I): histories are recorded
Sid5    == {0, 1, 2, 3, 5}
IsEven(x) == x # 0 /\ x % 2 = 0

---------------------------------------------------------------------------
(* Flow-control numbers *)
WMax == 2147483647            \* 2^31-1
WDef == 65535                 \* initial value of every window
BigBody == 100                \* response body of a "big" answer of the mock backend (bytes)
SmallBody == 2                \* response body of an "ok" answer
\* w + d > 2^31-1, without computing the sum
Over(w, d) == d > 0 /\ w > 0 /\ d > WMax - w
Min2(a, b) == IF a < b THEN a ELSE b
\* WINDOW_UPDATE increments: near + WDef = 2^31-2, tomax + WDef = 2^31-1
WuInc(p) == CASE p = "inc1" -> 1 [] p = "near" -> WMax - WDef - 1 [] p = "tomax" -> WMax - WDef
              [] p = "incmax" -> WMax [] OTHER -> 0
\* SETTINGS_INITIAL_WINDOW_SIZE values (all legal by themselves: <= 2^31-1)
IwsPay == {"iws_up", "iws_def", "iws_0", "iws_10", "iws_max"}
IwsVal(p) == CASE p = "iws_up" -> WDef + 1 [] p = "iws_def" -> WDef [] p = "iws_0" -> 0 [] p = "iws_10" -> 10
               [] OTHER -> WMax
\* abstract class of a window (generator bookkeeping: which ledger situations were replayed)
LClass(w) == CASE w < 0 -> "neg" [] w = 0 -> "zero" [] w = WMax -> "max" [] w >= WMax - WDef - 1 -> "near"
               [] w = WDef -> "def" [] w < WDef -> "low" [] OTHER -> "raised"

---------------------------------------------------------------------------
(* Reactions *)
R(k, c) == [k |-> k, c |-> c]
Handle  == R("handle", "-")
Ignore  == R("ignore", "-")
CloseR  == R("close", "-")        \* connection dropped without GOAWAY
Rst(c)  == R("rst", c)
Goaway(c) == R("goaway", c)
Http4xx == R("http", "4xx")       \* an HTTP error response instead of RST_STREAM (RFC 9113 8.1.1)

---------------------------------------------------------------------------
(* Frame alphabet. len: zero | ok | bad (wrong fixed size) | huge (> SETTINGS_MAX_FRAME_SIZE) *)
F(ty, fl, sid, len, pay) == [ty |-> ty, fl |-> fl, sid |-> sid, len |-> len, pay |-> pay]

DataFrames ==
  {F("DATA", fl, s, len, "x") : fl \in {"-", "ES"}, s \in Sid5, len \in {"ok", "zero"}}
  \cup {F("DATA", "-", s, "ok", "badpad") : s \in {0, 1}}
  \cup {F("DATA", "-", s, "huge", "x") : s \in {0, 1}}
HeadersFrames ==
  {F("HEADERS", fl, s, "ok", "req") : fl \in {"-", "ES", "EH", "EHES"}, s \in Sid5}
  \cup {F("HEADERS", "EHES", s, "ok", p) : s \in OddSids,
                                           p \in {"badhpack", "malformed", "oversize", "selfdep", "badpad"}}
  \cup {F("HEADERS", "-", s, "ok", "split") : s \in OddSids}
  \* idx_add: the block inserts an entry in the HPACK dynamic table; idx_use: the block references that entry
  \cup {F("HEADERS", "EHES", s, "ok", p) : s \in OddSids, p \in {"idx_add", "idx_use"}}
  \cup {F("HEADERS", "EHES", 1, "huge", "req"), F("HEADERS", "EHES", 5, "zero", "req")}
ContFrames ==
  {F("CONT", fl, s, "ok", "empty") : fl \in {"-", "EH"}, s \in {0, 1, 3}}
  \cup {F("CONT", "EH", s, "ok", "rest") : s \in {1, 3}}
  \cup {F("CONT", "EH", 1, "huge", "empty")}
PriorityFrames ==
  {F("PRIORITY", "-", s, "ok", p) : s \in {0, 1, 2, 5}, p \in {"dep0", "selfdep"}}
  \cup {F("PRIORITY", "-", s, "bad", "dep0") : s \in {1, 5}}
RstFrames ==
  {F("RST", "-", s, "ok", "CANCEL") : s \in Sid5}
  \cup {F("RST", "-", s, "bad", "CANCEL") : s \in {0, 1}}
SettingsFrames ==
  {F("SETTINGS", "-", 0, "zero", "-"), F("SETTINGS", "ACK", 0, "zero", "-"),
   F("SETTINGS", "ACK", 0, "ok", "benign"), F("SETTINGS", "-", 0, "bad", "-"),
   F("SETTINGS", "-", 1, "zero", "-"), F("SETTINGS", "-", 0, "huge", "-")}
  \cup {F("SETTINGS", "-", 0, "ok", p) : p \in {"benign", "push2", "win_big", "frame_small", "unknown_id"}}
  \cup {F("SETTINGS", "-", 0, "ok", p) : p \in IwsPay}
PushFrames == {F("PUSH", "EH", s, "ok", "req") : s \in {0, 1, 2}}
PingFrames ==
  {F("PING", fl, s, "ok", "-") : fl \in {"-", "ACK"}, s \in {0, 1}} \cup {F("PING", "-", 0, "bad", "-")}
GoawayFrames ==
  {F("GOAWAY", "-", 0, "ok", "last0"), F("GOAWAY", "-", 0, "ok", "lastmax"),
   F("GOAWAY", "-", 1, "ok", "last0"), F("GOAWAY", "-", 0, "bad", "-")}
WuFrames ==
  {F("WU", "-", s, "ok", p) : s \in Sid5, p \in {"inc1", "inc0", "incmax"}}
  \cup {F("WU", "-", s, "bad", "-") : s \in {0, 1}}
  \cup {F("WU", "-", s, "ok", p) : s \in {0, 1, 3}, p \in {"near", "tomax"}}
PuFrames ==
  {F("PU", "-", 0, "ok", p) : p \in {"ps1", "ps0", "ps5"}}
  \cup {F("PU", "-", 1, "ok", "ps1"), F("PU", "-", 0, "bad", "-")}
UnkFrames ==
  {F("UNK", "-", s, len, "-") : s \in {0, 1}, len \in {"zero", "ok"}} \cup {F("UNK", "-", 0, "huge", "-")}

Frames == DataFrames \cup HeadersFrames \cup ContFrames \cup PriorityFrames \cup RstFrames
          \cup SettingsFrames \cup PushFrames \cup PingFrames \cup GoawayFrames \cup WuFrames
          \cup PuFrames \cup UnkFrames

NeedStream == {"DATA", "HEADERS", "PRIORITY", "RST", "PUSH", "CONT"}
NeedZero   == {"SETTINGS", "PING", "GOAWAY", "PU"}
SidInvalid(f) == (f.ty \in NeedStream /\ f.sid = 0) \/ (f.ty \in NeedZero /\ f.sid # 0)
HasES(f) == f.fl \in {"ES", "EHES"}
HasEH(f) == f.fl \in {"EH", "EHES"}

\* what parser::frame_body rejects once the header was accepted: "-" or the error code
BodyErr(f) ==
  CASE f.ty = "PUSH" -> "PE"
    [] f.ty \in {"PRIORITY", "RST", "PING", "GOAWAY", "WU", "PU"} /\ f.len = "bad" -> "FSE"
    [] f.ty = "SETTINGS" /\ (f.len = "bad" \/ (f.fl = "ACK" /\ f.len # "zero")) -> "FSE"
    [] f.ty \in {"DATA", "HEADERS"} /\ f.pay = "badpad" -> "PE"
    [] OTHER -> "-"

---------------------------------------------------------------------------
(* State *)
Counters == {"rst", "ping", "settings", "empty", "wu0", "cont", "glitch", "gmin",
             "rstLife", "rstAb", "rstEm", "rstQ", "pingLife", "settingsLife"}
ZeroCounters == [c \in Counters |-> 0]

InitState == [cs |-> "preface",           \* preface | settingsWait | open | draining | closed
              gs |-> FALSE,               \* GOAWAY (or silent close) decided, socket not yet released
              ss |-> [x \in OddSids |-> "idle"],
              hi |-> 0,                   \* highest_peer_stream_id
              wm |-> 0,                   \* last_stream_id watermark (moves only when a stream is created)
              ec |-> 0,                   \* stream of the header block in progress, 0 = none
              ecEs |-> FALSE, ecHalf |-> FALSE, ecNew |-> FALSE,
              ecRef |-> 0,                \* refused stream whose header block is still in progress (spec-only memory)
              hpPeer |-> FALSE,           \* the peer's HPACK encoder has inserted the dynamic entry
              hpSozu |-> FALSE,           \* sozu's decoder has seen a block inserting it
              rsent |-> {},               \* rst_sent entries that outlive their stream
              fc |-> ZeroCounters,
              iws |-> WDef,               \* peer_settings.settings_initial_window_size
              cw |-> WDef,                \* flow_control.window: connection send window
              sw |-> [x \in OddSids |-> 0],    \* stream send window (streams of the map; 0 otherwise)
              rem |-> [x \in OddSids |-> 0],   \* response body bytes held back by a closed window
              depth |-> 0, nvalid |-> 0, nany |-> 0]

InMap(s, x)  == x \in OddSids /\ s.ss[x] \in {"hdr", "open", "hcr"}
Active(s)    == Cardinality({x \in OddSids : InMap(s, x)})
Dead(s)      == s.cs = "closed" \/ s.gs
Max2(a, b)   == IF a > b THEN a ELSE b
\* a stream that leaves the map takes its window and its unsent bytes with it
SetSS(s, x, v) == IF x \notin OddSids THEN s
                  ELSE IF v \in {"hdr", "open", "hcr"} THEN [s EXCEPT !.ss[x] = v]
                  ELSE [s EXCEPT !.ss[x] = v, !.sw[x] = 0, !.rem[x] = 0]
StOf(s, x)   == IF x \in OddSids THEN s.ss[x] ELSE "even"

Bump(s, c) == [s EXCEPT !.fc[c] = @ + 1]
WindowTripped(s) ==
  \/ s.fc.rst > MaxRst \/ s.fc.ping > MaxPing \/ s.fc.settings > MaxSettings
  \/ s.fc.empty > MaxEmpty \/ s.fc.cont > MaxCont \/ s.fc.wu0 > MaxWu0
  \/ s.fc.pingLife > MaxPingLife \/ s.fc.settingsLife > MaxSettingsLife
GlitchTripped(s) == s.fc.glitch > MaxGlitch
Tripped(s) == WindowTripped(s) \/ GlitchTripped(s)

\* result of one run-to-completion step of the code model
Res(s, r, why) == [s |-> s, r |-> r, why |-> why]
GoAwayRes(s, c, why) == Res([s EXCEPT !.gs = TRUE], Goaway(c), why)
FloodRes(s) == GoAwayRes(s, "EYC", IF WindowTripped(s) THEN "flood" ELSE "glitch")

\* enqueue_rst + account_emitted_rst: RST_STREAM(x, c) unless deduplicated; lifetime cap on emitted resets
EmitRst(s, x, c, keep) ==
  IF x \in s.rsent
  THEN Res([s EXCEPT !.rsent = IF keep THEN @ ELSE @ \ {x}], Ignore, "-")
  ELSE LET s1 == [Bump(Bump(s, "rstEm"), "rstQ") EXCEPT !.rsent = IF keep THEN @ \cup {x} ELSE @]
       IN IF s1.fc.rstEm > MaxRstEmitted \/ s1.fc.rstQ >= MaxRstQueued
          THEN GoAwayRes(s1, "EYC", "flood") ELSE Res(s1, Rst(c), "-")

\* reset_stream + remove_dead_stream on a stream of the map
ResetInMap(s, x, c) == EmitRst(SetSS(s, x, "rstUs"), x, c, FALSE)

\* refuse_stream_and_discard: RST_STREAM(REFUSED_STREAM), payload discarded, no HPACK decoding
Refuse(s, f) == EmitRst(SetSS([s EXCEPT !.hi = Max2(@, f.sid), !.ecRef = IF HasEH(f) THEN 0 ELSE f.sid],
                              f.sid, "rstUs"), f.sid, "RS", TRUE)

---------------------------------------------------------------------------
(* The code model *)

\* a complete header block for stream x (handle_headers_frame with END_HEADERS)
CompleteBlock(s0, x, es, pay, len, half, new) ==
  LET s == [s0 EXCEPT !.fc.cont = 0, !.ec = 0, !.ecEs = FALSE, !.ecHalf = FALSE, !.ecNew = FALSE]
  IN CASE pay = "selfdep" -> ResetInMap(s, x, "PE")
       [] pay = "badhpack" \/ half \/ (pay = "idx_use" /\ ~s.hpSozu) -> GoAwayRes(s, "CE", "-")
       [] pay = "idx_add" -> Res(SetSS([s EXCEPT !.hpSozu = TRUE], x, IF es THEN "hcr" ELSE "open"), Handle, "-")
       [] pay = "oversize" -> ResetInMap(s, x, "EYC")
       [] pay = "malformed" \/ (len = "zero" /\ new) -> ResetInMap(s, x, "PE")   \* an empty trailer block is fine
       [] OTHER -> Res(SetSS(s, x, IF es THEN "hcr" ELSE "open"), Handle, "-")

HandleData(s, f) ==
  LET s1 == IF f.len = "zero" /\ ~HasES(f) THEN Bump(s, "empty") ELSE s
  IN IF Tripped(s1) THEN FloodRes(s1)
     ELSE IF InMap(s1, f.sid)
          THEN Res(IF HasES(f) THEN SetSS(s1, f.sid, "hcr") ELSE s1, Handle, "-")
          ELSE Res(s1, Ignore, "-")

HandleHeaders(s, f, new) ==
  IF ~HasEH(f)
  THEN Res([s EXCEPT !.ec = f.sid, !.ecEs = HasES(f), !.ecHalf = (f.pay = "split"), !.ecNew = new], Handle, "-")
  ELSE CompleteBlock(s, f.sid, HasES(f), f.pay, f.len, FALSE, new)

HandlePriority(s, f) ==
  IF f.pay # "selfdep" THEN Res(s, Handle, "-")
  ELSE IF InMap(s, f.sid) THEN ResetInMap(s, f.sid, "PE")
  ELSE IF f.sid > s.wm /\ f.sid <= s.wm + 64 THEN GoAwayRes(s, "PE", "-")     \* idle look-ahead accepted, then rejected as invalid
  ELSE Res(s, Ignore, "-")

HandleRst(s, f) ==
  LET s1 == Bump(s, "rst")
  IN IF Tripped(s1) THEN FloodRes(s1)
     ELSE LET s2 == Bump(IF InMap(s1, f.sid) THEN Bump(s1, "rstAb") ELSE s1, "rstLife")
          IN IF s2.fc.rstLife > MaxRstLife \/ s2.fc.rstAb > MaxRstAbusive THEN GoAwayRes(s2, "EYC", "flood")
             ELSE IF InMap(s2, f.sid) THEN Res(SetSS(s2, f.sid, "rstPeer"), Handle, "-")
             ELSE Res(s2, Ignore, "-")

HandleSettings(s, f) ==
  IF f.fl = "ACK" THEN Res(IF s.cs = "settingsWait" THEN [s EXCEPT !.cs = "open"] ELSE s, Handle, "-")
  ELSE LET s1 == Bump(Bump(s, "settings"), "settingsLife")
       IN IF Tripped(s1) THEN FloodRes(s1)
          ELSE CASE f.pay \in {"push2", "frame_small"} -> GoAwayRes(s1, "PE", "-")
                 [] f.pay = "win_big" -> GoAwayRes(s1, "FCE", "-")
                 [] f.pay = "unknown_id" -> Res(Bump(Bump(s1, "glitch"), "gmin"), Handle, "-")
                 \* update_initial_window_size: the delta is applied to every stream of the map
                 [] f.pay \in IwsPay ->
                      LET d == IwsVal(f.pay) - s1.iws
                          over == \E x \in OddSids : InMap(s1, x) /\ Over(s1.sw[x], d)
                      IN IF over /\ "WinSaturate" \notin Deviations THEN GoAwayRes(s1, "FCE", "-")
                         ELSE Res([s1 EXCEPT !.iws = IwsVal(f.pay),
                                             !.sw = [x \in OddSids |->
                                                       IF ~InMap(s1, x) THEN 0
                                                       ELSE IF Over(s1.sw[x], d) THEN WMax ELSE s1.sw[x] + d]],
                                  Handle, "-")
                 [] OTHER -> Res(s1, Handle, "-")

HandlePing(s, f) ==
  IF f.fl = "ACK" THEN Res(s, Ignore, "-")
  ELSE LET s1 == Bump(Bump(s, "ping"), "pingLife") IN IF Tripped(s1) THEN FloodRes(s1) ELSE Res(s1, Handle, "-")

HandleGoaway(s, f) ==
  LET kept == IF f.pay = "lastmax" THEN s.ss
              ELSE [x \in OddSids |-> IF InMap(s, x) THEN "closed" ELSE s.ss[x]]
      s1 == [s EXCEPT !.ss = kept,
                      !.sw = [x \in OddSids |-> IF kept[x] \in {"hdr", "open", "hcr"} THEN s.sw[x] ELSE 0],
                      !.rem = [x \in OddSids |-> IF kept[x] \in {"hdr", "open", "hcr"} THEN s.rem[x] ELSE 0]]
  IN IF Active(s1) = 0 THEN GoAwayRes(s1, "NO", "-")
     ELSE Res([s1 EXCEPT !.cs = "draining"], Handle, "-")

HandleWu(s, f) ==
  IF f.pay = "inc0"
  THEN IF f.sid = 0 THEN GoAwayRes(s, "PE", "-")
       ELSE IF InMap(s, f.sid) THEN ResetInMap(s, f.sid, "PE")
       ELSE LET s1 == Bump(s, "glitch") IN IF Tripped(s1) THEN FloodRes(s1) ELSE Res(s1, Ignore, "-")
  ELSE IF f.sid = 0
  THEN LET s1 == Bump(s, "wu0")
       IN IF Tripped(s1) THEN FloodRes(s1)
          ELSE IF Over(s1.cw, WuInc(f.pay))          \* checked_add on the accumulated connection window
               THEN IF "WinSaturate" \in Deviations THEN Res([s1 EXCEPT !.cw = WMax], Handle, "-")
                    ELSE GoAwayRes(s1, "FCE", "-")
               ELSE Res([s1 EXCEPT !.cw = @ + WuInc(f.pay)], Handle, "-")
  ELSE IF InMap(s, f.sid)
  THEN IF Over(s.sw[f.sid], WuInc(f.pay))            \* checked_add on the accumulated stream window
       THEN IF "WinSaturate" \in Deviations THEN Res([s EXCEPT !.sw[f.sid] = WMax], Handle, "-")
            ELSE ResetInMap(s, f.sid, "FCE")
       ELSE Res([s EXCEPT !.sw[f.sid] = @ + WuInc(f.pay)], Handle, "-")
  ELSE LET s1 == Bump(s, "glitch") IN IF Tripped(s1) THEN FloodRes(s1) ELSE Res(s1, Ignore, "-")

HandleFrame(s, f, new) ==
  CASE f.ty = "DATA" -> HandleData(s, f)
    [] f.ty = "HEADERS" -> HandleHeaders(s, f, new)
    [] f.ty = "PRIORITY" -> HandlePriority(s, f)
    [] f.ty = "RST" -> HandleRst(s, f)
    [] f.ty = "SETTINGS" -> HandleSettings(s, f)
    [] f.ty = "PING" -> HandlePing(s, f)
    [] f.ty = "GOAWAY" -> HandleGoaway(s, f)
    [] f.ty = "WU" -> HandleWu(s, f)
    [] f.ty = "PU" -> IF f.pay = "ps0" THEN GoAwayRes(s, "PE", "-") ELSE Res(s, Handle, "-")
    [] OTHER -> Res(s, Ignore, "-")     \* UNK

\* frame body stage (H2State::Frame): parse, then dispatch. `pre` is what the header stage already emitted
BodyStage(s, f, new, pre) ==
  IF BodyErr(f) # "-" THEN GoAwayRes(s, BodyErr(f), "-")
  ELSE LET h == HandleFrame(s, f, new)
       IN IF pre # Ignore /\ h.r \in {Handle, Ignore} THEN [h EXCEPT !.r = pre] ELSE h

\* H2State::ContinuationHeader
ContStage(s, f) ==
  IF f.len = "huge" THEN GoAwayRes(s, "FSE", "-")
  ELSE IF SidInvalid(f) \/ f.ty # "CONT" \/ f.sid # s.ec THEN GoAwayRes(s, "PE", "-")
  ELSE LET s1 == Bump(s, "cont")
       IN IF Tripped(s1) THEN FloodRes(s1)
          ELSE IF ~HasEH(f) THEN Res([s1 EXCEPT !.ecHalf = s1.ecHalf /\ f.pay # "rest"], Handle, "-")
          ELSE CompleteBlock(s1, s1.ec, s1.ecEs, "req", "ok", s1.ecHalf /\ f.pay # "rest", s1.ecNew)

\* H2State::Header
HeaderStage(s, f) ==
  IF f.len = "huge" THEN GoAwayRes(s, "FSE", "-")
  ELSE IF SidInvalid(f) \/ f.ty = "CONT" THEN GoAwayRes(s, "PE", "-")
  ELSE IF f.sid = 0 \/ f.ty = "UNK" THEN BodyStage(s, f, FALSE, Ignore)
  ELSE IF InMap(s, f.sid)
  THEN IF f.ty \notin {"WU", "PRIORITY", "RST"} /\ s.ss[f.sid] = "hcr" THEN GoAwayRes(s, "SC", "-")
       ELSE IF f.ty = "HEADERS" /\ ~HasES(f) THEN GoAwayRes(s, "PE", "-")
       ELSE BodyStage(s, f, FALSE, Ignore)
  ELSE IF f.ty = "HEADERS" /\ f.sid \in OddSids /\ f.sid > s.wm /\ f.sid > s.hi   \* a refused id is not accepted again
  THEN IF s.cs = "draining" \/ Active(s) >= MaxStreams THEN Refuse(s, f)
       ELSE BodyStage([SetSS(s, f.sid, "hdr") EXCEPT !.hi = Max2(@, f.sid), !.wm = f.sid + 1, !.sw[f.sid] = s.iws],
                      f, TRUE, Ignore)
  ELSE IF f.ty = "PRIORITY" THEN BodyStage(s, f, FALSE, Ignore)
  ELSE IF f.sid <= s.hi
  THEN IF f.ty \in {"RST", "WU"}
       THEN LET s1 == Bump(Bump(s, "glitch"), "gmin")
            IN IF Tripped(s1) THEN FloodRes(s1) ELSE BodyStage(s1, f, FALSE, Ignore)
       ELSE IF f.ty = "DATA"
       THEN LET s1 == Bump(Bump(s, "glitch"), "gmin")
            IN IF Tripped(s1) THEN FloodRes(s1)
               ELSE LET e == EmitRst(SetSS(s1, f.sid, "rstUs"), f.sid, "SC", TRUE)
                    IN IF e.r.k = "goaway" THEN e ELSE BodyStage(e.s, f, FALSE, e.r)
       ELSE GoAwayRes(s, "SC", "-")
  ELSE GoAwayRes(s, "PE", "-")

\* a header block is still in progress after the step (no other frame may be interleaved)
BlockOpen(s) == ~s.gs /\ (s.ec # 0 \/ (s.ecRef # 0 /\ "RefusedBlockDropped" \notin Deviations))

\* a draining connection whose last stream is gone sends the final GOAWAY(NO_ERROR) and is released
Drained(c) ==
  IF c.s.cs = "draining" /\ ~c.s.gs /\ Active(c.s) = 0 /\ c.s.ec = 0
  THEN [c EXCEPT !.s.gs = TRUE, !.r = Goaway("NO")] ELSE c

SozuRaw(s, f) ==
  IF Dead(s) THEN Res(s, Ignore, "-")
  ELSE IF s.cs = "preface" THEN Res([s EXCEPT !.gs = TRUE], CloseR, "-")
  ELSE IF s.ec # 0 THEN ContStage(s, f)
  ELSE IF s.ecRef # 0
  THEN IF "RefusedBlockDropped" \in Deviations
       THEN HeaderStage([s EXCEPT !.ecRef = 0], f)          \* the code has forgotten the discarded block
       ELSE IF f.len = "huge" THEN GoAwayRes(s, "FSE", "-")
       ELSE IF f.ty # "CONT" \/ f.sid # s.ecRef THEN GoAwayRes(s, "PE", "-")
       ELSE Res([s EXCEPT !.ecRef = IF HasEH(f) THEN 0 ELSE @], Ignore, "-")
  ELSE HeaderStage(s, f)

\* the writer: every stream with unsent response bytes sends what its window allows (the connection window never
\* binds in the model universe: at most 3 x BigBody bytes are ever sent, see TypeOK); a body sent completely ends the
\* stream (END_STREAM)
TxN(s, x) == IF InMap(s, x) /\ s.rem[x] > 0 /\ s.sw[x] > 0 THEN Min2(s.rem[x], s.sw[x]) ELSE 0
RECURSIVE SumTx(_, _)
SumTx(s, S) == IF S = {} THEN 0 ELSE LET x == CHOOSE y \in S : TRUE IN TxN(s, x) + SumTx(s, S \ {x})
Sending(s) == {x \in OddSids : TxN(s, x) > 0}
Drain(s) ==
  LET fin(x) == TxN(s, x) > 0 /\ TxN(s, x) = s.rem[x]
  IN IF Sending(s) = {} THEN s ELSE
     [s EXCEPT !.cw = @ - SumTx(s, Sending(s)),
               !.sw = [x \in OddSids |-> IF fin(x) THEN 0 ELSE s.sw[x] - TxN(s, x)],
               !.rem = [x \in OddSids |-> s.rem[x] - TxN(s, x)],
               !.ss = [x \in OddSids |-> IF fin(x) THEN "closed" ELSE s.ss[x]]]
\* the bytes a state is about to send: {[sid, n, fin]}
TxSet(s) == {[sid |-> x, n |-> TxN(s, x), fin |-> TxN(s, x) = s.rem[x]] : x \in Sending(s)}
DrainRes(c) == IF c.s.gs THEN c ELSE [c EXCEPT !.s = Drain(c.s)]

\* whatever the receiver does, a block with an inserting literal leaves the entry in the peer's encoder table;
\* a receiver that keeps the connection must have decompressed it (RFC 9113 4.3)
Sozu(s, f) ==
  LET c == Drained(DrainRes(SozuRaw(s, f)))
      add == f.ty = "HEADERS" /\ f.pay = "idx_add" /\ ~Dead(s) /\ s.cs # "preface"
      c1 == IF add THEN [c EXCEPT !.s.hpPeer = TRUE,
                                   !.s.hpSozu = IF "RefusedBlockDropped" \in Deviations THEN @ ELSE (@ \/ ~c.s.gs)]
            ELSE c
      \* generator modes: the replayer follows every frame with a marker PING, whose handler runs the flood
      \* check and so trips on an anomaly that was counted without a check (unknown SETTINGS identifier)
  IN IF Generating /\ ~c1.s.gs /\ ~BlockOpen(c1.s) /\ Tripped(c1.s)
     THEN [c1 EXCEPT !.s.gs = TRUE, !.r = Goaway("EYC"), !.why = IF WindowTripped(c1.s) THEN "flood" ELSE "glitch"]
     ELSE c1

---------------------------------------------------------------------------
(* The relation. A rule violation is [cls, c]: "conn" -> GOAWAY(c) + close; "stream" ->        *)
(* RST_STREAM(c), or GOAWAY(c) since an endpoint MAY treat a stream error as a connection      *)
(* error (RFC 9113 5.4.1).                                                                     *)
V(cls, c) == [cls |-> cls, c |-> c]
OfViol(v) == IF v.cls = "conn" THEN {Goaway(v.c)} ELSE {Rst(v.c), Goaway(v.c)}

\* effective state of a client stream id (5.1.1: a new id implicitly closes lower idle ids)
Eff(s, x) == IF IsEven(x) \/ x \notin OddSids THEN "even"
             ELSE IF s.ss[x] = "idle" THEN (IF x < s.hi THEN "implicit" ELSE "idle") ELSE s.ss[x]

SizeViol(f) ==
  (IF f.len = "huge"
   THEN IF f.sid # 0 /\ f.ty \in {"DATA", "PRIORITY", "UNK", "WU", "RST"} THEN {V("stream", "FSE")} ELSE {V("conn", "FSE")}
   ELSE {})
  \cup (IF BodyErr(f) = "FSE" THEN (IF f.ty = "PRIORITY" THEN {V("stream", "FSE")} ELSE {V("conn", "FSE")}) ELSE {})
  \cup (IF f.pay = "badpad" THEN {V("conn", "PE")} \cup (IF f.ty = "HEADERS" THEN {V("stream", "PE")} ELSE {}) ELSE {})

\* admissible reactions by stream state for frames on a stream id (violations and normal outcomes)
StreamAdm(s, f) ==
  LET e == Eff(s, f.sid)
      closedLike == e \in {"closed", "rstPeer", "rstUs", "implicit"}
  IN CASE f.ty = "PRIORITY" ->
            IF f.pay = "selfdep" THEN {Handle, Ignore, Rst("PE"), Goaway("PE")} ELSE {Handle, Ignore}
       [] e = "even" ->
            {Goaway("PE")} \cup (IF f.sid <= s.hi
                                 THEN CASE f.ty = "DATA" -> {Rst("SC"), Goaway("SC")}
                                        [] f.ty = "HEADERS" -> {Goaway("SC")}
                                        [] OTHER -> {Ignore}
                                 ELSE {})
                         \cup (IF f.sid \in s.rsent THEN {Ignore} ELSE {})     \* already reset by us
       [] e = "idle" /\ f.ty # "HEADERS" -> {Goaway("PE")}
       [] e = "idle" ->                                       \* new stream
            (IF s.cs = "draining" THEN {Rst("RS"), Handle} ELSE {})
            \cup (IF Active(s) >= MaxStreams THEN {Rst("RS"), Rst("PE"), Goaway("RS"), Goaway("PE")} ELSE {})
            \cup (IF s.cs # "draining" /\ Active(s) < MaxStreams /\ f.pay \in {"req", "split"} /\ f.len # "zero"
                  THEN {Handle} ELSE {})
            \cup (CASE f.pay = "badhpack" -> {Goaway("CE")}
                    [] f.pay = "malformed" \/ f.len = "zero" -> {Rst("PE"), Goaway("PE"), Http4xx}
                    [] f.pay = "oversize" -> {Rst("EYC"), Rst("PE"), Rst("RS"), Goaway("EYC"), Http4xx}
                    [] f.pay = "selfdep" -> {Rst("PE"), Goaway("PE")}
                                            \cup (IF s.cs # "draining" /\ Active(s) < MaxStreams THEN {Handle} ELSE {})
                    [] f.pay = "idx_use" /\ ~s.hpPeer -> {Goaway("CE")}      \* reference to an entry that was never inserted
                    [] f.pay \in {"idx_add", "idx_use"} ->
                         IF s.cs # "draining" /\ Active(s) < MaxStreams THEN {Handle} ELSE {}
                    [] OTHER -> {})
       [] e = "implicit" ->
            CASE f.ty = "HEADERS" -> {Goaway("PE"), Goaway("SC")}
              [] f.ty = "DATA" -> {Goaway("PE"), Goaway("SC"), Rst("SC")}
              [] OTHER -> {Ignore, Goaway("PE")}
       [] e = "open" ->
            CASE f.ty = "HEADERS" /\ ~HasES(f) -> {Rst("PE"), Goaway("PE")}
              [] f.ty = "HEADERS" ->                          \* trailers
                   CASE f.pay = "badhpack" -> {Goaway("CE")}
                     [] f.pay \in {"malformed"} \/ f.len = "zero" -> {Rst("PE"), Goaway("PE"), Handle}
                     [] f.pay = "oversize" -> {Rst("EYC"), Rst("PE"), Goaway("EYC")}
                     [] f.pay = "selfdep" -> {Handle, Rst("PE"), Goaway("PE")}
                     [] f.pay = "idx_use" /\ ~s.hpPeer -> {Goaway("CE")}
                     [] OTHER -> {Handle}
              [] f.ty = "WU" /\ f.pay = "inc0" -> {Rst("PE"), Goaway("PE")}
              \* 6.9.1: the sum of the stream's window and the increment must not exceed 2^31-1
              [] f.ty = "WU" -> IF Over(s.sw[f.sid], WuInc(f.pay)) THEN {Rst("FCE"), Goaway("FCE")} ELSE {Handle}
              [] OTHER -> {Handle}
       [] e = "hcr" ->
            CASE f.ty \in {"DATA", "HEADERS"} -> {Rst("SC"), Goaway("SC")}
              [] f.ty = "WU" /\ f.pay = "inc0" -> {Rst("PE"), Goaway("PE")}
              [] f.ty = "WU" -> IF Over(s.sw[f.sid], WuInc(f.pay)) THEN {Rst("FCE"), Goaway("FCE")} ELSE {Handle}
              [] OTHER -> {Handle}
       [] closedLike ->
            CASE f.ty = "DATA" -> {Rst("SC"), Goaway("SC")} \cup (IF e = "rstUs" THEN {Ignore} ELSE {})
              [] f.ty = "HEADERS" ->
                   (IF e = "closed" THEN {Goaway("SC"), Goaway("PE")} ELSE {Rst("SC"), Goaway("SC")})
                   \cup (IF e = "rstUs" THEN {Ignore} ELSE {})
              [] f.ty = "WU" /\ f.pay = "inc0" -> {Ignore, Rst("PE"), Goaway("PE")}
              [] OTHER -> {Ignore, Goaway("PE")}     \* RST_STREAM / WINDOW_UPDATE: ignore; MAY PROTOCOL_ERROR after a long time
       [] OTHER -> {Goaway("PE")}                    \* "hdr": unreachable, a header block is in progress

ConnAdm(s, f) ==       \* frames on stream 0 (and unknown types), sizes and stream-id rule already fine
  CASE f.ty = "SETTINGS" ->
         IF f.fl = "ACK" THEN (IF s.cs = "settingsWait" THEN {Handle} ELSE {Handle, Ignore, Goaway("PE")})
         ELSE CASE f.pay \in {"push2", "frame_small"} -> {Goaway("PE")}
                [] f.pay = "win_big" -> {Goaway("FCE")}
                \* 6.9.2: a change of the initial window size that takes any stream window past 2^31-1 is a
                \* connection error FLOW_CONTROL_ERROR; otherwise every window moves by the difference (it may
                \* become negative) and the SETTINGS is acknowledged
                [] f.pay \in IwsPay -> IF \E x \in OddSids : InMap(s, x) /\ Over(s.sw[x], IwsVal(f.pay) - s.iws)
                                       THEN {Goaway("FCE")} ELSE {Handle}
                [] OTHER -> {Handle}
    [] f.ty = "PING" -> IF f.fl = "ACK" THEN {Handle, Ignore} ELSE {Handle}
    [] f.ty = "GOAWAY" -> {Handle, Goaway("NO"), CloseR}
    [] f.ty = "WU" -> CASE f.pay = "inc0" -> {Goaway("PE")} [] Over(s.cw, WuInc(f.pay)) -> {Goaway("FCE")} [] OTHER -> {Handle}
    [] f.ty = "PU" -> CASE f.pay = "ps0" -> {Goaway("PE")} [] f.pay = "ps5" -> {Handle, Ignore, Goaway("PE")} [] OTHER -> {Handle, Ignore}
    [] OTHER -> {Ignore}         \* UNK: MUST be ignored

RfcAdm(s, f) ==
  IF s.ecRef # 0
  THEN IF f.ty = "CONT" /\ f.sid = s.ecRef /\ f.len # "huge" THEN {Handle, Ignore}
       ELSE {Goaway("PE")} \cup (IF f.len = "huge" THEN {Goaway("FSE")} ELSE {})
  ELSE IF s.ec # 0
  THEN IF f.ty = "CONT" /\ f.sid = s.ec /\ f.len # "huge"
       THEN IF HasEH(f) /\ s.ecHalf /\ f.pay # "rest" THEN {Goaway("CE")} ELSE {Handle}
       ELSE {Goaway("PE")} \cup (IF f.len = "huge" THEN {Goaway("FSE")} ELSE {})
  ELSE LET sv == UNION {OfViol(v) : v \in SizeViol(f)}
           basic == (IF SidInvalid(f) \/ f.ty \in {"CONT", "PUSH"} THEN {Goaway("PE")} ELSE {})
                    \* a PUSH_PROMISE on a stream that is closed or half-closed (remote) also breaks the stream-state rule
                    \cup (IF f.ty = "PUSH" /\ f.sid # 0 /\ (Eff(s, f.sid) \in {"hcr", "closed", "rstPeer", "rstUs", "implicit"}
                                                            \/ (IsEven(f.sid) /\ f.sid <= s.hi))
                          THEN {Goaway("SC")} ELSE {})
           st8 == IF f.sid # 0 /\ f.ty \in {"DATA", "HEADERS", "PRIORITY", "RST", "WU"} /\ ~SidInvalid(f)
                  THEN StreamAdm(s, f)
                  ELSE IF SidInvalid(f) \/ f.ty \in {"CONT", "PUSH"} THEN {} ELSE ConnAdm(s, f)
           errs == sv \cup basic \cup {r \in st8 : r.k \in {"rst", "goaway", "http"}}
       IN IF sv \cup basic # {} THEN errs ELSE st8

React(s, f) ==
  IF Dead(s) THEN {Ignore}
  ELSE IF s.cs = "preface" THEN {CloseR, Goaway("PE")}
  ELSE LET base == RfcAdm(s, f)
           c    == Sozu(s, f)
           \* over a flood cap the connection has to go: GOAWAY(ENHANCE_YOUR_CALM), or a GOAWAY for the frame's own error
           errs == {r \in base : r.k = "goaway"}
           fin  == IF c.r = Goaway("NO") /\ s.cs = "draining" THEN {Goaway("NO")} ELSE {}
       IN fin \cup
          CASE c.why = "flood"  -> {Goaway("EYC")} \cup errs
            \* anomalies ("glitches"): required once even the most lenient counting (one per anomalous frame)
            \* is over the cap, admissible as soon as the code's own counting is
            [] c.why = "glitch" -> IF c.s.fc.gmin > MaxGlitch THEN {Goaway("EYC")} \cup errs ELSE base \cup {Goaway("EYC")}
            [] OTHER -> base

---------------------------------------------------------------------------
(* Actions *)
Valid(s, f) == LET c == Sozu(s, f) IN c.r = Handle /\ c.why = "-" /\ ~c.s.gs /\ c.r \in React(s, f)
\* generators: the prefix may also contain the FIRST stream error sozu answers (a refused stream, a stream reset for a
\* zero increment, a malformed block...): the connection lives on, and the states behind it (a stream id sozu has
\* reset or refused, watermarks apart) are where the closed-vs-idle classification of later frames is decided
FirstReset(s, f) == LET c == Sozu(s, f)
                    IN Generating /\ Focus = "all" /\ c.r.k = "rst" /\ c.why = "-" /\ ~c.s.gs /\ s.fc.rstEm = 0
                       /\ c.r \in React(s, f)

Step(op, f, c, adm, blk, fwd, dev, trl, tx, lg) ==
  [op |-> op, f |-> f, code |-> c, adm |-> adm, blk |-> blk, fwd |-> fwd, dev |-> dev, trl |-> trl, tx |-> tx, lg |-> lg]
\* a HEADERS frame on a stream whose request headers are complete carries trailers
Trl(s, f) == f.ty = "HEADERS" /\ f.sid \in OddSids /\ s.ss[f.sid] \in {"open", "hcr"}

\* the stream whose request the backend must receive as a consequence of the step (0: none)
Fwd(s, t) == LET xs == {x \in OddSids : s.ss[x] \notin {"open", "hcr"} /\ t.ss[x] \in {"open", "hcr"}}
             IN IF xs = {} THEN 0 ELSE CHOOSE x \in xs : TRUE
\* the open deviations that shape the code model's answer in this state
DevOf(s, f) ==
  (IF "RefusedBlockDropped" \in Deviations /\ (s.ecRef # 0 \/ (s.hpPeer /\ ~s.hpSozu /\ f.pay = "idx_use"))
        THEN {"RefusedBlockDropped"} ELSE {})
NoFrame == F("-", "-", 0, "-", "-")
HRec(h) == IF Generating THEN Append(hist, h) ELSE hist

\* response bytes the frame sets free (the code model's prediction; only meaningful when the reaction is the predicted one)
TxOf(s, f) == LET c == SozuRaw(s, f) IN IF Dead(s) \/ c.s.gs THEN {} ELSE TxSet(c.s)
\* the ledger situation the frame meets (which windows decide the reaction, and in which class they are)
\* ... and where the frame's stream id stands: its state, above / below the two watermarks (an id sozu refused is above
\* last_stream_id but not above highest_peer_stream_id), reset by sozu with the entry kept
IdClass(s, f) ==
  IF f.sid = 0 THEN {}
  ELSE {<<"id", StOf(s, f.sid), IF f.sid > s.wm THEN "above-wm" ELSE IF f.sid > s.hi THEN "above-hi" ELSE "-">>}
       \cup (IF f.sid \in s.rsent THEN {<<"id", "rsent", "-">>} ELSE {})
Lg(s, f) == IdClass(s, f) \cup
  CASE f.ty = "WU" /\ f.sid = 0 /\ f.len = "ok" -> {<<"conn", LClass(s.cw), "-">>}
    [] f.ty = "WU" /\ f.len = "ok" /\ InMap(s, f.sid) ->
         {<<"stream", LClass(s.sw[f.sid]), IF s.rem[f.sid] > 0 THEN "stalled" ELSE "-">>}
    [] f.ty = "SETTINGS" /\ f.pay \in IwsPay ->
         {<<"iws", LClass(s.iws), "-">>}
         \cup {<<"stream", LClass(s.sw[x]), IF s.rem[x] > 0 THEN "stalled" ELSE "-">> : x \in {y \in OddSids : InMap(s, y)}}
    [] OTHER -> {}

\* "mc": every state reached by at most MaxValid valid frames, then every sequence of at most MaxDepth frames
CanStep(s) == s.cs # "closed" /\ (IF Emit = "mc" THEN s.nany < MaxDepth ELSE s.depth < MaxDepth)
InPrefix(s) == s.nany = 0 /\ s.nvalid < MaxValid

\* the flow-control alphabet: requests, WINDOW_UPDATEs, INITIAL_WINDOW_SIZE changes, and what ends a stream
WinAlphabet ==
  {f \in Frames : \/ f.ty = "WU" /\ f.len = "ok" /\ f.sid \in {0, 1, 3}
                  \/ f.ty = "SETTINGS" /\ f.pay \in IwsPay
                  \/ f.ty = "HEADERS" /\ f.pay = "req" /\ f.fl \in {"EH", "EHES"} /\ f.sid \in {1, 3} /\ f.len = "ok"
                  \/ f.ty = "DATA" /\ f.fl = "ES" /\ f.len = "ok" /\ f.pay = "x" /\ f.sid \in {1, 3}
                  \/ f.ty = "RST" /\ f.len = "ok" /\ f.sid \in {1, 3}}
WinOnly(f) == f.pay \in IwsPay \cup {"near", "tomax"}
\* frames the valid prefix of a generator / of the "mc" mode is drawn from: with Focus "win" the flow-control
\* alphabet; the general cover generator leaves the ledger in its default state (its tables still hold every frame)
PrefixAlphabet(f) == Focus = "win" => f \in WinAlphabet
\* the exhaustive configurations and the general cover generator do not *take* the steps that move the ledger far
\* from its default (their invariants / tables still evaluate every frame in every state they reach); the ledger
\* is explored by the Focus "win" configurations and by the random walks
StepAlphabet(f) == (Focus = "all" /\ Emit # "walk") => ~WinOnly(f)

\* client preface: "ok" = magic + SETTINGS; the others are not a valid connection start
Peer_Preface(kind) ==
  /\ st.cs = "preface" /\ ~st.gs /\ CanStep(st)
  /\ ((Emit = "walk" /\ MaxValid > 1) \/ Focus = "win" => kind = "ok")      \* bad prefaces are sampled by the MaxValid = 1 walks only
  /\ st' = IF kind = "ok" THEN [st EXCEPT !.cs = "settingsWait", !.depth = IF Emit = "mc" THEN @ ELSE @ + 1, !.fc.settings = 1, !.fc.settingsLife = 1]  \* the preface SETTINGS counts (per-window; sozu does not count it for the lifetime... it does: same handler)
                          ELSE [st EXCEPT !.gs = TRUE, !.depth = IF Emit = "mc" THEN @ ELSE @ + 1]
  /\ hist' = HRec(Step("preface", F("-", "-", 0, "-", kind),
                      IF kind = "ok" THEN Handle ELSE CloseR,
                      IF kind = "ok" THEN {Handle} ELSE {CloseR, Goaway("PE")}, FALSE, 0, {}, FALSE, {}, {}))
PrefaceKinds == {"ok", "nomagic", "notsettings", "settings_ack"}

Peer_Frame(f) ==
  /\ CanStep(st)
  /\ (Emit = "cover" => InPrefix(st))
  /\ (Emit = "walk" /\ Focus = "win" => f \in WinAlphabet)
  /\ StepAlphabet(f)
  /\ LET c == Sozu(st, f)
         pre == InPrefix(st) /\ (Valid(st, f) \/ FirstReset(st, f)) /\ PrefixAlphabet(f)
     IN /\ (Generating /\ InPrefix(st)) => pre                                 \* generator: valid prefix first
        /\ st' = [c.s EXCEPT !.depth = IF Emit = "mc" THEN @ ELSE @ + 1,
                             !.nvalid = IF pre THEN @ + 1 ELSE @,
                             !.nany = IF pre THEN @ ELSE @ + 1]
        /\ hist' = HRec(Step("frame", f, c.r, React(st, f), BlockOpen(c.s), Fwd(st, c.s), DevOf(st, f), Trl(st, f),
                             TxOf(st, f), Lg(st, f)))

\* the backend answers a complete request: response HEADERS, then as much of the body ("ok": SmallBody bytes,
\* "big": BigBody bytes) as the stream's window allows; the stream is closed once the body is out (END_STREAM)
RespondKinds == {"ok", "big"}
RespondPre(s, x, kind) == [s EXCEPT !.rem[x] = IF kind = "big" THEN BigBody ELSE SmallBody]
RespondState(s, x, kind) ==
  LET s1 == Drain(RespondPre(s, x, kind))
  \* the last stream of a draining connection: final GOAWAY(NO_ERROR) and close
  IN IF s.cs = "draining" /\ Active(s1) = 0 THEN [s1 EXCEPT !.gs = TRUE] ELSE s1
Sozu_Respond(x, kind) ==
  /\ CanStep(st) /\ ~st.gs /\ st.ec = 0 /\ st.ss[x] = "hcr" /\ st.rem[x] = 0
  /\ (Emit # "off" => InPrefix(st))
  /\ (kind = "big" => Focus = "win" \/ Emit = "walk")
  /\ LET s2 == RespondState(st, x, kind)
         r  == IF s2.gs THEN Goaway("NO") ELSE Handle
     IN /\ st' = [s2 EXCEPT !.depth = IF Emit = "mc" THEN @ ELSE @ + 1, !.nvalid = IF Emit = "off" THEN @ ELSE @ + 1]
        /\ hist' = HRec(Step("respond", F("-", "-", x, "-", kind), r, {r}, FALSE, 0, {}, FALSE,
                             TxSet(RespondPre(st, x, kind)),
                             {<<"stream", LClass(st.sw[x]), "respond">>}))

\* after a GOAWAY (or a silent drop) the socket is released
Sozu_Close ==
  /\ st.gs /\ st.cs # "closed"
  /\ st' = [st EXCEPT !.cs = "closed"]
  /\ UNCHANGED hist

\* the 1 s flood window expires: per-window counters are halved (H2FloodDetector::maybe_reset_window)
Tick_Decay ==
  /\ ~Generating /\ ~Dead(st) /\ st.cs # "preface"
  /\ \E c \in {"rst", "ping", "settings", "empty", "wu0", "glitch"} : st.fc[c] > 0
  /\ st' = [st EXCEPT !.fc = [c \in Counters |->
                                IF c \in {"rst", "ping", "settings", "empty", "wu0", "glitch", "gmin"}
                                THEN st.fc[c] \div 2 ELSE st.fc[c]]]
  /\ UNCHANGED hist

\* no SETTINGS ACK within SETTINGS_ACK_TIMEOUT: GOAWAY(SETTINGS_TIMEOUT)
Sozu_SettingsTimeout ==
  /\ ~Generating /\ st.cs = "settingsWait" /\ ~st.gs
  /\ st' = [st EXCEPT !.gs = TRUE]
  /\ UNCHANGED hist

Init == st = InitState /\ hist = <<>>
Next == \/ \E k \in PrefaceKinds : Peer_Preface(k)
        \/ \E f \in Frames : Peer_Frame(f)
        \/ \E x \in OddSids, k \in RespondKinds : Sozu_Respond(x, k)
        \/ Sozu_Close \/ Tick_Decay \/ Sozu_SettingsTimeout
Spec == Init /\ [][Next]_vars
FairSpec == Spec /\ WF_vars(Sozu_Close)

---------------------------------------------------------------------------
(* Properties (C15) *)
StreamStates == {"idle", "hdr", "open", "hcr", "closed", "rstPeer", "rstUs"}
TypeOK == /\ st.cs \in {"preface", "settingsWait", "open", "draining", "closed"}
          /\ st.gs \in BOOLEAN /\ st.hpPeer \in BOOLEAN /\ st.hpSozu \in BOOLEAN
          /\ \A x \in OddSids : st.ss[x] \in StreamStates
          /\ st.hi \in Nat /\ st.ec \in {0} \cup OddSids /\ st.ecRef \in {0} \cup OddSids
          /\ \A c \in Counters : st.fc[c] \in Nat
          /\ st.iws \in 0..WMax /\ st.cw \in (3 * BigBody)..WMax            \* the connection window never binds
          /\ \A x \in OddSids : /\ st.sw[x] \in (0 - 3 * BigBody)..WMax /\ st.rem[x] \in 0..BigBody
                                /\ (~InMap(st, x) => st.sw[x] = 0 /\ st.rem[x] = 0)
                                /\ (st.rem[x] > 0 => st.ss[x] = "hcr" /\ (st.sw[x] <= 0 \/ Dead(st)))   \* unsent bytes: the window is closed

\* every frame, in every state, yields a reaction of the relation
P_C15_React == \A f \in Frames : Sozu(st, f).r \in React(st, f)
\* the relation is never empty (the property is satisfiable by some implementation)
P_C15_Total == \A f \in Frames : React(st, f) # {}
\* never more concurrent streams than advertised
P_C15_Streams == Active(st) <= MaxStreams
\* structural: the header block in progress belongs to a live stream; cached ids are live
P_C15_Structural == Dead(st) \/
                    /\ st.ec # 0 => st.ss[st.ec] \in {"hdr", "open"}
                    /\ \A x \in OddSids : InMap(st, x) => x <= st.hi
                    /\ (st.cs = "preface" => Active(st) = 0)
                    /\ \A x \in OddSids : st.ss[x] = "hdr" => st.ec = x
\* no new stream while draining or after GOAWAY
P_C15_NoNewWhileDraining ==
  [][(st.cs = "draining" \/ st.gs) => \A x \in OddSids : (InMap(st', x) => InMap(st, x))]_vars
\* after GOAWAY + close decision the connection reaches closed
P_C15_GoawayCloses == (st.gs ~> st.cs = "closed")
\* a reaction that announces a connection error always releases the connection
P_C15_ConnErrorCloses ==
  \A f \in Frames : LET c == Sozu(st, f) IN (c.r.k \in {"goaway", "close"}) => c.s.gs

\* error-trace helper (ALIAS): the frames that break P_C15_React in this state
DebugAlias == [cs |-> st.cs, ss |-> st.ss, hi |-> st.hi, ec |-> st.ec, fc |-> st.fc,
               iws |-> st.iws, cw |-> st.cw, sw |-> st.sw, rem |-> st.rem,
               bad |-> {<<f, Sozu(st, f).r, React(st, f)>> : f \in {g \in Frames : Sozu(st, g).r \notin React(st, g)}}]

P_C15 == P_C15_React /\ P_C15_Total /\ P_C15_Streams /\ P_C15_Structural /\ P_C15_ConnErrorCloses

\* vacuity guards (TLC's -coverage runs out of memory on this module): each of these MUST be violated
Never_Peer_Preface == [][~(\E k \in PrefaceKinds : Peer_Preface(k))]_vars
Never_Peer_Frame == [][~(\E f \in Frames : Peer_Frame(f))]_vars
Never_Sozu_Respond == [][~(\E x \in OddSids, k \in RespondKinds : Sozu_Respond(x, k))]_vars
Never_Sozu_Close == [][~Sozu_Close]_vars
Never_Tick_Decay == [][~Tick_Decay]_vars
Never_Sozu_SettingsTimeout == [][~Sozu_SettingsTimeout]_vars

---------------------------------------------------------------------------
(* Generators *)
\* with Focus "win" the tables hold the frames whose reaction the ledger decides (plus the rest of the alphabet)
FrameSeq == SetToSeq(IF Focus = "win" THEN WinAlphabet ELSE Frames)
Table(s) == [i \in 1..Len(FrameSeq) |->
               LET c == Sozu(s, FrameSeq[i])
               IN [f |-> FrameSeq[i], code |-> c.r, adm |-> React(s, FrameSeq[i]), blk |-> BlockOpen(c.s),
                   fwd |-> Fwd(s, c.s), dev |-> DevOf(s, FrameSeq[i]), trl |-> Trl(s, FrameSeq[i]),
                   tx |-> TxOf(s, FrameSeq[i]), lg |-> Lg(s, FrameSeq[i])]]

\* "cover": one line per distinct state reached by the valid prefix, with the full frame table
\* "walk" : one line per finished behaviour (simulation mode)
EmitState ==
  CASE Emit = "cover" -> (st.nany = 0 /\ ~Dead(st)) =>
                           PrintT(<<"REPLAY", ToJson([kind |-> "cover", path |-> hist, table |-> Table(st)])>>)
    [] Emit = "walk" -> (hist # <<>> /\ ((st.depth = MaxDepth /\ ~st.gs) \/ st.cs = "closed")) =>
                           PrintT(<<"REPLAY", ToJson([kind |-> "walk", path |-> hist])>>)
    [] OTHER -> TRUE

\* generator configs hide the history so that each prefix state is expanded once
GenView == [st EXCEPT !.depth = 0, !.nvalid = 0]
=============================================================================
