SPECIFICATION Spec
INVARIANTS Emit
CHECK_DEADLOCK FALSE
