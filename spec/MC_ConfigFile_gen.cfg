SPECIFICATION Spec
CONSTANTS
  MaxListeners = 2
  MaxClusters = 2
  MaxFronts = 2
  MaxBacks = 2
  MaxSize = 5
  Deviations = {"DupFrontendAccepted"}
  Focus = "all"
  Emit = TRUE
INVARIANTS EmitFile
CHECK_DEADLOCK FALSE
