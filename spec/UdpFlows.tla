------------------------------ MODULE UdpFlows ------------------------------
(***************************************************************************)
(* The sans-io UDP flow manager of sozu                                    *)
(* (lib/src/protocol/udp/manager.rs, flow.rs, mod.rs).                     *)
(*                                                                         *)
(* The manager is a sequential object: every public entry point            *)
(* (handle_input / handle_timeout / abort_flow / close_all) runs to        *)
(* completion and leaves a FIFO of `Output`s that the shell drains.  One   *)
(* spec action per entry point; the handlers are written as pure           *)
(* operators  state -> [s |-> state', out |-> outputs]  named after the    *)
(* Rust functions, so that the same text serves the model checker, the     *)
(* generator (S->I replay) and the trace specification (I->S).             *)
(*                                                                         *)
(* Everything is an integer (TLC cannot compare values of different        *)
(* types): a source is [ip, port] with port >= 1 (port 0 is the            *)
(* normalised port of a per-IP flow key), a backend is an address number   *)
(* >= 1 (0 = none), a cluster name is a number (0 = the empty name), a     *)
(* payload is [id, len] (ids are unique per run: who received what is      *)
(* decided on ids, byte-exactness on the Rust side), time is a number.     *)
(***************************************************************************)
EXTENDS Integers, Sequences, FiniteSets, SequencesExt, FiniteSetsExt, TLC, Json

CONSTANTS Deviations,   \* subset of {"AffinityRekey"}: open known findings, modelled as the code behaves
                        \* (+ self-test switches that TLC must refute: "CapFloorsAtLive"; Trace_UdpShell: "StaleInFlightUpstream")
          Family,       \* which small universe the model checker explores (see "Universe")
          MaxInputs,    \* bound on the number of inputs of a behaviour
          MaxTime,      \* virtual time ranges over 0..MaxTime
          Emit          \* "none" | "edges" (one REPLAY line per transition) | "hist" (one per behaviour)

VARIABLES table,        \* FlowKey -> FlowId                     (UdpManager.table)
          flows,        \* FlowId  -> flow record                (UdpManager.flows, a slab)
          free,         \* the slab's vacant list, most recently freed first
          slabLen,      \* the slab's number of slots ever used
          maxFlows, maxRx, draining, cluster,     \* configuration
          armed,        \* the deadline last reflected to the shell, NoTimer if none
          now,          \* virtual clock (the `now` injected in the next call)
          n,            \* number of inputs so far; a datagram input carries payload id n+1
          inp, out,     \* the last input and the outputs it produced (observation only)
          hist          \* generator only

core == <<table, flows, free, slabLen, maxFlows, maxRx, draining, cluster, armed, now>>
vars == <<core, n, inp, out, hist>>

NoFlow    == -1
NoTimer   == -1
NoPayload == [id |-> 0, len |-> 0]

St == [table |-> table, flows |-> flows, free |-> free, slabLen |-> slabLen,
       maxFlows |-> maxFlows, maxRx |-> maxRx, draining |-> draining, cluster |-> cluster,
       armed |-> armed, now |-> now]

---------------------------------------------------------------------------
(* Small helpers *)

Live(s) == DOMAIN s.flows
R(s) == [s |-> s, out |-> <<>>]
Push(r, os) == [r EXCEPT !.out = @ \o os]
Sorted(S) == SetToSortSeq(S, LAMBDA a, b : a < b)

\* FlowKey::from_src
KeyOf(src, withPort) == IF withPort THEN src ELSE [ip |-> src.ip, port |-> 0]

Metric(m) == [k |-> "Metric", m |-> m]
MetricLen(m, l) == [k |-> "Metric", m |-> m, len |-> l]

\* drop_datagram
DropDatagram(r, reason) ==
  Push(r, << [k |-> "Metric", m |-> "DatagramDropped", reason |-> reason], [k |-> "Drop", reason |-> reason] >>)

\* reschedule: recompute the earliest deadline, emit ArmTimer only when it changes (and is Some)
Reschedule(r) ==
  LET ds   == {r.s.flows[f].deadline : f \in Live(r.s)}
      next == IF ds = {} THEN NoTimer ELSE Min(ds)
  IN IF next = r.s.armed THEN r
     ELSE [s |-> [r.s EXCEPT !.armed = next],
           out |-> IF next = NoTimer THEN r.out ELSE Append(r.out, [k |-> "ArmTimer", at |-> next])]

DropKey(t, key) == [k \in DOMAIN t \ {key} |-> t[k]]
Maps(t, key, f) == key \in DOMAIN t /\ t[key] = f

\* close_flow: idempotent; unmap the key (current mode first, then the flow's own), free the slot
CloseFlow(r, f) ==
  IF f \notin Live(r.s) THEN r
  ELSE LET s   == r.s
           fl  == s.flows[f]
           key == KeyOf(fl.client, s.cluster.withPort)
           own == KeyOf(fl.client, fl.cfg.withPort)
           t1  == IF Maps(s.table, key, f) THEN DropKey(s.table, key)
                  ELSE IF Maps(s.table, own, f) THEN DropKey(s.table, own) ELSE s.table
           s1  == [s EXCEPT !.table = t1,
                            !.flows = [g \in Live(s) \ {f} |-> s.flows[g]],
                            !.free  = <<f>> \o @]
       IN Reschedule([s |-> s1, out |-> r.out \o << Metric("FlowEvicted"), [k |-> "CloseFlow", flow |-> f] >>])

RECURSIVE CloseSeq(_, _)
CloseSeq(r, ids) == IF ids = <<>> THEN r ELSE CloseSeq(CloseFlow(r, Head(ids)), Tail(ids))

\* UdpFlow::touch
Touch(fl, timeout, t) == [fl EXCEPT !.deadline = t + timeout, !.gen = @ + 1]

\* UdpFlow::teardown_reason /= None
Exhausted(fl) == \/ fl.cfg.responses # 0 /\ fl.resp >= fl.cfg.responses
                 \/ fl.cfg.requests # 0 /\ fl.req >= fl.cfg.requests

\* UdpFlow::take_proxy_protocol
TakePP(fl) == [use |-> fl.cfg.pp /\ (fl.cfg.ppEvery \/ fl.firstPP),
               fl  |-> IF fl.cfg.pp /\ ~fl.cfg.ppEvery /\ fl.firstPP THEN [fl EXCEPT !.firstPP = FALSE] ELSE fl]

\* The forward site shared by forward_on_existing_flow (Established) and the flush of
\* on_backend_resolved: count the request, refresh the idle deadline, send, tear down or re-arm.
SendUp(r, f, pl) ==
  LET s   == r.s
      tp  == TakePP(s.flows[f])
      fl1 == Touch([tp.fl EXCEPT !.req = @ + 1], tp.fl.cfg.ft, s.now)
      r1  == [s |-> [s EXCEPT !.flows[f] = fl1],
              out |-> r.out \o << MetricLen("DatagramIn", pl.len),
                                  [k |-> "SendToBackend", dst |-> fl1.backend, p |-> pl.id, pp |-> tp.use] >>]
  IN IF Exhausted(fl1) THEN CloseFlow(r1, f) ELSE Reschedule(r1)

---------------------------------------------------------------------------
(* Which tracked flow serves a client datagram.                            *)
(* Code (deviation AffinityRekey): the key is computed with the CURRENT    *)
(* cluster's affinity mode, so after SetCluster flipped the mode the flows *)
(* admitted under the other mode are no longer found from the client side. *)
(* Property reading (documented: "existing flows keep their captured       *)
(* config, affinity is stable"): a flow keeps owning its key.              *)
Lookup(s, src) ==
  IF "AffinityRekey" \in Deviations
  THEN LET key == KeyOf(src, s.cluster.withPort)
       IN IF key \in DOMAIN s.table THEN s.table[key] ELSE NoFlow
  ELSE LET exact == KeyOf(src, TRUE)
           ipk   == KeyOf(src, FALSE)
       IN IF exact \in DOMAIN s.table THEN s.table[exact]
          ELSE IF ipk \in DOMAIN s.table THEN s.table[ipk] ELSE NoFlow

---------------------------------------------------------------------------
(* Handlers (one per Rust entry point) *)

NewFlow(s, src, pl) ==
  [client |-> src, phase |-> "awaiting", backend |-> 0, cfg |-> s.cluster, pending |-> pl,
   deadline |-> s.now + s.cluster.ft, gen |-> 0, req |-> 0, resp |-> 0, firstPP |-> s.cluster.pp]

\* forward_on_existing_flow
ForwardExisting(s, f, pl) ==
  IF f \notin Live(s) THEN DropDatagram(R(s), "UnknownFlow")
  ELSE LET fl == s.flows[f] IN
       CASE fl.phase = "awaiting" ->       \* one-slot buffer, newest wins; refresh idle only
              Reschedule(R([s EXCEPT !.flows[f] = Touch([fl EXCEPT !.pending = pl], fl.cfg.ft, s.now)]))
         [] fl.phase = "established" -> SendUp(R(s), f, pl)
         [] OTHER -> DropDatagram(R(s), "Shed")

\* on_client_datagram
OnClientDatagram(s, src, pl) ==
  IF pl.len > s.maxRx THEN DropDatagram(R(s), "Truncated")
  ELSE IF s.cluster.name = 0 THEN DropDatagram(R(s), "NoBackend")
  ELSE IF pl.len = 0 THEN DropDatagram(R(s), "Invalid")
  ELSE LET f == Lookup(s, src) IN
       IF f # NoFlow THEN ForwardExisting(s, f, pl)
       ELSE IF s.draining THEN DropDatagram(R(s), "Shed")
       ELSE IF Cardinality(Live(s)) >= s.maxFlows
            THEN DropDatagram(Push(R(s), << Metric("FlowShed") >>), "Shed")
       ELSE LET id  == IF s.free = <<>> THEN s.slabLen ELSE Head(s.free)      \* slab::insert
                key == KeyOf(src, s.cluster.withPort)
                s1  == [s EXCEPT !.flows = (id :> NewFlow(s, src, pl)) @@ @,
                                 !.table = (key :> id) @@ @,
                                 !.free = IF @ = <<>> THEN @ ELSE Tail(@),
                                 !.slabLen = IF s.free = <<>> THEN @ + 1 ELSE @]
            IN Reschedule([s |-> s1,
                           out |-> << Metric("FlowCreated"),
                                      [k |-> "SelectBackend", flow |-> id, cluster |-> s.cluster.name, key |-> key] >>])

\* on_backend_resolved
OnBackendResolved(s, f, b) ==
  IF f \notin Live(s) THEN DropDatagram(R(s), "UnknownFlow")
  ELSE IF s.flows[f].phase # "awaiting" THEN R(s)            \* duplicate / late resolution: ignored
  ELSE LET pend == s.flows[f].pending
           fl   == [s.flows[f] EXCEPT !.backend = b, !.phase = "established", !.pending = NoPayload]
           r1   == [s |-> [s EXCEPT !.flows[f] = fl],
                    out |-> << [k |-> "OpenUpstream", flow |-> f, backend |-> b] >>]
       IN IF pend.id # 0 THEN SendUp(r1, f, pend)
          ELSE Reschedule([r1 EXCEPT !.s.flows[f] = Touch(@, s.cluster.ft, s.now)])

\* on_backend_datagram
OnBackendDatagram(s, f, pl) ==
  IF pl.len > s.maxRx THEN DropDatagram(R(s), "Truncated")
  ELSE IF f \notin Live(s) THEN DropDatagram(R(s), "UnknownFlow")
  ELSE IF s.flows[f].phase # "established" THEN DropDatagram(R(s), "UnknownFlow")
  ELSE LET fl0 == s.flows[f]
           fl1 == Touch([fl0 EXCEPT !.resp = @ + 1], fl0.cfg.bt, s.now)
           r1  == [s |-> [s EXCEPT !.flows[f] = fl1],
                   out |-> << MetricLen("DatagramOut", pl.len),
                              [k |-> "SendToClient", client |-> fl1.client, p |-> pl.id] >>]
       IN IF Exhausted(fl1) THEN CloseFlow(r1, f) ELSE Reschedule(r1)

\* on_config
OnConfig(s, ev) ==
  CASE ev.what = "SetCluster"  -> R([s EXCEPT !.cluster = ev.cfg])
    [] ev.what = "SetMaxFlows" ->
         \* self-test switch CapFloorsAtLive (never an open finding; TLC must refute it with P_C19_Cap): the defect
         \* class "a cap lowered below the live count is not stored as configured" (floored at the population)
         R([s EXCEPT !.maxFlows = IF "CapFloorsAtLive" \in Deviations THEN Max({ev.v, Cardinality(Live(s))}) ELSE ev.v])
    [] ev.what = "SetMaxRx"    -> R([s EXCEPT !.maxRx = ev.v])
    [] ev.what = "Drain"       -> R([s EXCEPT !.draining = TRUE])

\* handle_timeout: close every due flow (slab order), then reschedule
OnTimeout(s) == Reschedule(CloseSeq(R(s), Sorted({f \in Live(s) : s.flows[f].deadline <= s.now})))
\* abort_flow
OnAbort(s, f) == CloseFlow(R(s), f)
\* close_all
OnCloseAll(s) == CloseSeq(R(s), Sorted(Live(s)))

\* The whole manager as a function of (state, input)
Step(s, i) ==
  CASE i.op = "ClientDatagram"  -> OnClientDatagram(s, i.src, i.pl)
    [] i.op = "BackendDatagram" -> OnBackendDatagram(s, i.flow, i.pl)
    [] i.op = "BackendResolved" -> OnBackendResolved(s, i.flow, i.backend)
    [] i.op = "Config"          -> OnConfig(s, i.ev)
    [] i.op = "Timeout"         -> OnTimeout(s)
    [] i.op = "Abort"           -> OnAbort(s, i.flow)
    [] i.op = "CloseAll"        -> OnCloseAll(s)
    [] i.op = "Tick"            -> R([s EXCEPT !.now = @ + 1])

---------------------------------------------------------------------------
(* Observable projection (what UdpManager's public accessors show: flow(id), *)
(* flow_count, poll_timeout, max_flows, is_draining, affinity_with_port) and *)
(* the complete state, as compact integer tuples (JSON arrays): hundreds of  *)
(* thousands of them cross the TLC -> Rust pipe.                             *)

B(b) == IF b THEN 1 ELSE 0
CfgT(c) == <<c.name, B(c.withPort), c.responses, c.requests, c.ft, c.bt, B(c.pp), B(c.ppEvery)>>
FlowT(id, f) == <<id, f.client.ip, f.client.port, IF f.phase = "awaiting" THEN 0 ELSE 1, f.backend,
                  f.pending.id, f.pending.len, f.deadline, f.gen, f.req, f.resp, B(f.firstPP), CfgT(f.cfg)>>
FlowsT(s) == LET ids == Sorted(Live(s)) IN [j \in 1..Len(ids) |-> FlowT(ids[j], s.flows[ids[j]])]
TableT(s) == SetToSortSeq({<<k.ip, k.port, s.table[k]>> : k \in DOMAIN s.table},
                          LAMBDA a, b : a[1] < b[1] \/ (a[1] = b[1] /\ a[2] < b[2]))
\* what the public accessors show
ObsT(s) == <<s.armed, s.maxFlows, B(s.draining), B(s.cluster.withPort), FlowsT(s)>>
\* everything (identity of a state in the generated graph); k = number of inputs so far
StateT(s, k) == <<k, s.now, s.maxRx, s.slabLen, s.free, CfgT(s.cluster), TableT(s), ObsT(s)>>

---------------------------------------------------------------------------
(* Actions *)

Apply(i) ==
  LET r == Step(St, i) IN
  /\ table' = r.s.table /\ flows' = r.s.flows /\ free' = r.s.free /\ slabLen' = r.s.slabLen
  /\ maxFlows' = r.s.maxFlows /\ maxRx' = r.s.maxRx /\ draining' = r.s.draining /\ cluster' = r.s.cluster
  /\ armed' = r.s.armed /\ now' = r.s.now
  /\ n' = IF i.op = "Tick" THEN n ELSE n + 1
  /\ inp' = i /\ out' = r.out
  /\ hist' = IF Emit = "hist" THEN Append(hist, [inp |-> i, out |-> r.out, post |-> StateT(r.s, IF i.op = "Tick" THEN n ELSE n + 1)]) ELSE hist

ClientDatagram(src, pl)  == Apply([op |-> "ClientDatagram", src |-> src, pl |-> pl])
BackendDatagram(f, pl)   == Apply([op |-> "BackendDatagram", flow |-> f, pl |-> pl])
BackendResolved(f, b)    == Apply([op |-> "BackendResolved", flow |-> f, backend |-> b])
SetCluster(c)            == Apply([op |-> "Config", ev |-> [what |-> "SetCluster", cfg |-> c]])
SetMaxFlows(v)           == Apply([op |-> "Config", ev |-> [what |-> "SetMaxFlows", v |-> v]])
SetMaxRx(v)              == Apply([op |-> "Config", ev |-> [what |-> "SetMaxRx", v |-> v]])
Drain                    == Apply([op |-> "Config", ev |-> [what |-> "Drain"]])
Timeout                  == Apply([op |-> "Timeout"])
Abort(f)                 == Apply([op |-> "Abort", flow |-> f])
CloseAll                 == Apply([op |-> "CloseAll"])
Tick                     == Apply([op |-> "Tick"])       \* environment: the clock advances, no call

---------------------------------------------------------------------------
(* Universe of the model checker: 3 sources (two share an IP), 2 backends, *)
(* caps 1..2, a handful of cluster configurations per family.              *)

S1 == [ip |-> 1, port |-> 1]
S2 == [ip |-> 1, port |-> 2]
S3 == [ip |-> 2, port |-> 1]
Sources  == {S1, S2, S3}
Backends == {1, 2}
FlowIds  == 0..2                 \* 2 is never allocated with caps <= 2: an unknown id

Cfg(name, withPort, responses, requests, ft, bt, pp, ppEvery) ==
  [name |-> name, withPort |-> withPort, responses |-> responses, requests |-> requests,
   ft |-> ft, bt |-> bt, pp |-> pp, ppEvery |-> ppEvery]
Base(withPort) == Cfg(1, withPort, 0, 0, 2, 1, FALSE, FALSE)

U == CASE Family = "affinity" ->     \* both affinity modes, switched while flows live
            [init |-> {Base(TRUE), Base(FALSE)}, set |-> {Base(TRUE), Base(FALSE)},
             caps |-> {1, 2}, rx |-> {2}, lens |-> {1}, blens |-> {1}]
       [] Family = "limits" ->       \* responses / requests caps, routing removed and replaced, sizes
            [init |-> {Cfg(1, TRUE, 1, 0, 2, 1, FALSE, FALSE), Cfg(1, FALSE, 0, 2, 1, 2, FALSE, FALSE)},
             set  |-> {Cfg(0, FALSE, 0, 0, 2, 2, FALSE, FALSE), Cfg(2, TRUE, 2, 1, 1, 1, FALSE, FALSE)},
             caps |-> {0, 1, 2}, rx |-> {1, 2}, lens |-> {0, 1, 2}, blens |-> {0, 2}]
       [] Family = "pp" ->           \* PROXY-protocol prefixing (first datagram only / every datagram)
            [init |-> {Cfg(1, TRUE, 0, 0, 2, 2, TRUE, FALSE), Cfg(1, FALSE, 0, 3, 1, 1, TRUE, TRUE)},
             set  |-> {Cfg(1, TRUE, 0, 0, 1, 1, FALSE, FALSE)},
             caps |-> {2}, rx |-> {2}, lens |-> {1}, blens |-> {1}]
       [] Family = "cap" ->          \* cap changes below the live count, teardown, new sources: few input kinds, deeper
            [init |-> {Base(TRUE)}, set |-> {}, caps |-> {0, 1, 2}, rx |-> {2}, lens |-> {1}, blens |-> {}]
       [] Family = "all" ->          \* simulation only
            [init |-> {Base(TRUE), Base(FALSE), Cfg(1, TRUE, 1, 0, 2, 1, TRUE, FALSE), Cfg(1, FALSE, 0, 2, 1, 2, TRUE, TRUE)},
             set  |-> {Base(TRUE), Base(FALSE), Cfg(0, FALSE, 0, 0, 2, 2, FALSE, FALSE), Cfg(2, TRUE, 2, 1, 1, 1, FALSE, FALSE),
                       Cfg(2, FALSE, 0, 3, 3, 1, TRUE, FALSE)},
             caps |-> {0, 1, 2, 3}, rx |-> {1, 2}, lens |-> {0, 1, 2}, blens |-> {0, 1, 2}]
       [] OTHER ->                   \* trace validation: the universe is whatever the trace contains
            [init |-> {}, set |-> {}, caps |-> {}, rx |-> {}, lens |-> {}, blens |-> {}]

Init ==
  /\ table = <<>> /\ flows = <<>> /\ free = <<>> /\ slabLen = 0
  /\ maxFlows \in U.caps \ {0} /\ maxRx \in U.rx /\ draining = FALSE /\ cluster \in U.init
  /\ armed = NoTimer /\ now = 0 /\ n = 0 /\ inp = [op |-> "Init"] /\ out = <<>>
  /\ hist = IF Emit = "hist" THEN << [init |-> StateT(St, 0)] >> ELSE <<>>

Lite == Family = "cap"
Input ==
  \/ \E src \in Sources, len \in U.lens : ClientDatagram(src, [id |-> n + 1, len |-> len])
  \/ \E f \in FlowIds, len \in U.blens : BackendDatagram(f, [id |-> n + 1, len |-> len])
  \/ \E f \in FlowIds, b \in (IF Lite THEN {1} ELSE Backends) : BackendResolved(f, b)
  \/ \E c \in U.set : SetCluster(c)
  \/ \E v \in U.caps : SetMaxFlows(v)
  \/ ~Lite /\ \E v \in U.rx : SetMaxRx(v)
  \/ ~Lite /\ (Drain \/ Timeout)
  \/ CloseAll
  \/ \E f \in FlowIds : Abort(f)

Next == (n < MaxInputs /\ Input) \/ (now < MaxTime /\ Tick)

Spec == Init /\ [][Next]_vars

\* states that differ only in the observation variables are the same manager state
View == <<core, n>>

---------------------------------------------------------------------------
(* Structural invariants (the "resources released" half of teardown)       *)

TypeOK ==
  /\ \A f \in Live(St) : /\ flows[f].phase \in {"awaiting", "established"}      \* Closing never persists
                         /\ (flows[f].phase = "established") = (flows[f].backend # 0)
                         /\ (flows[f].phase = "established") => flows[f].pending = NoPayload
  /\ \A i, j \in 1..Len(free) : i # j => free[i] # free[j]
  /\ \A i \in 1..Len(free) : free[i] \notin Live(St) /\ free[i] < slabLen
  /\ \A f \in Live(St) : f < slabLen

\* the table maps exactly the live flows, each under the key it was admitted with
TableOK ==
  /\ \A k \in DOMAIN table : table[k] \in Live(St)
  /\ \A k1, k2 \in DOMAIN table : table[k1] = table[k2] => k1 = k2
  /\ \A f \in Live(St) : Maps(table, KeyOf(flows[f].client, flows[f].cfg.withPort), f)

\* the armed deadline is the earliest live deadline; none armed iff no flow
TimerCoherent ==
  armed = (IF Live(St) = {} THEN NoTimer ELSE Min({flows[f].deadline : f \in Live(St)}))

\* an exhausted flow never stays alive
NoImmortal == \A f \in Live(St) : ~Exhausted(flows[f])

---------------------------------------------------------------------------
(* C19 as step properties: s = state before, i = input, o = outputs, t = state after *)

Has(o, kind) == {j \in 1..Len(o) : o[j].k = kind}
NoClose(o, f) == \A j \in Has(o, "CloseFlow") : o[j].flow # f

\* flow f serves source src: src has the key f was admitted under
Owns(fl, src) == KeyOf(src, fl.cfg.withPort) = KeyOf(fl.client, fl.cfg.withPort)
Owners(s, src) == {f \in Live(s) : Owns(s.flows[f], src)}
Owner(s, src) == LET os == Owners(s, src)
                     ex == {f \in os : s.flows[f].cfg.withPort}
                 IN IF ex # {} THEN CHOOSE f \in ex : TRUE ELSE CHOOSE f \in os : TRUE
ValidPl(s, pl) == pl.len >= 1 /\ pl.len <= s.maxRx

\* the owner of the source was admitted under the other affinity mode than the one now configured
RekeyCase(s, i) == i.op = "ClientDatagram" /\ \E f \in Owners(s, i.src) : s.flows[f].cfg.withPort # s.cluster.withPort

StickyOK(s, i, o, t, exempt) ==
  \* a live flow never changes client, contract or backend
  /\ \A f \in Live(s) \cap Live(t) : NoClose(o, f) =>
        /\ t.flows[f].client = s.flows[f].client /\ t.flows[f].cfg = s.flows[f].cfg
        /\ s.flows[f].backend # 0 => t.flows[f].backend = s.flows[f].backend
  \* datagrams of an owned source never open a second flow (= a second backend choice); they go to the
  \* owner's backend, and an established owner forwards every valid datagram whatever the cap / drain
  /\ (i.op = "ClientDatagram" /\ ~exempt) =>
        LET os == Owners(s, i.src) IN
        IF os = {} THEN Has(o, "SendToBackend") = {}
        ELSE /\ Has(o, "SelectBackend") = {}
             /\ \A j \in Has(o, "SendToBackend") : o[j].dst = s.flows[Owner(s, i.src)].backend /\ o[j].dst # 0
             /\ (s.flows[Owner(s, i.src)].phase = "established" /\ ValidPl(s, i.pl) /\ s.cluster.name # 0)
                   => Cardinality(Has(o, "SendToBackend")) = 1
  \* the only other forward site is the flush on resolution, to the backend just resolved
  /\ i.op = "BackendResolved" =>
        \A j \in Has(o, "SendToBackend") :
           /\ i.flow \in Live(s) /\ s.flows[i.flow].phase = "awaiting" /\ o[j].dst = i.backend
           /\ i.flow \in Live(t) => t.flows[i.flow].backend = i.backend
  /\ i.op \notin {"ClientDatagram", "BackendResolved"} => Has(o, "SendToBackend") = {}

IsolationOK(s, i, o, t) ==
  /\ Cardinality(Has(o, "SendToClient")) <= 1
  /\ \A j \in Has(o, "SendToClient") :
        /\ i.op = "BackendDatagram" /\ i.flow \in Live(s) /\ s.flows[i.flow].phase = "established"
        /\ o[j].client = s.flows[i.flow].client /\ o[j].p = i.pl.id
  /\ (i.op = "BackendDatagram" /\ i.flow \in Live(s) /\ s.flows[i.flow].phase = "established" /\ i.pl.len <= s.maxRx)
        => Cardinality(Has(o, "SendToClient")) = 1

\* no duplication / merge / reordering: a step sends at most one datagram up; it is the fresh one just
\* offered, or the single buffered one, which is then forgotten (TypeOK: established => nothing buffered)
IntegrityOK(s, i, o, t) ==
  /\ Cardinality(Has(o, "SendToBackend")) <= 1
  /\ \A j \in Has(o, "SendToBackend") :
        CASE i.op = "ClientDatagram"  -> o[j].p = i.pl.id
          [] i.op = "BackendResolved" -> /\ i.flow \in Live(s) /\ o[j].p = s.flows[i.flow].pending.id /\ o[j].p # 0
                                         /\ i.flow \in Live(t) => t.flows[i.flow].pending = NoPayload
          [] OTHER -> FALSE
  \* what is buffered is something that was offered by a source the flow serves, newest wins
  /\ i.op = "ClientDatagram" => \A f \in Live(t) : t.flows[f].pending.id # 0 =>
        \/ (f \in Live(s) /\ NoClose(o, f) /\ t.flows[f].pending = s.flows[f].pending)
        \/ t.flows[f].pending = i.pl
  /\ i.op # "ClientDatagram" => \A f \in Live(t) : t.flows[f].pending.id # 0 =>
        f \in Live(s) /\ t.flows[f].pending = s.flows[f].pending

CapOK(s, i, o, t) ==
  \* the cap in force is the CONFIGURED one: SetMaxFlows(v) installs exactly v, whatever the population (a cap
  \* below the live count evicts nothing but admits nothing either until the population is under it), and no
  \* other step touches it - so "s.maxFlows" below is the last value the control plane asked for
  /\ IF i.op = "Config" /\ i.ev.what = "SetMaxFlows" THEN t.maxFlows = i.ev.v ELSE t.maxFlows = s.maxFlows
  /\ Cardinality(Live(t)) <= Cardinality(Live(s)) + 1
  /\ Live(t) \ Live(s) # {} =>          \* an admission: under the cap in force, nothing else disturbed
        /\ i.op = "ClientDatagram" /\ ~s.draining
        /\ Cardinality(Live(t)) <= s.maxFlows
        /\ \A f \in Live(s) : f \in Live(t) /\ t.flows[f] = s.flows[f]
  /\ (i.op = "ClientDatagram" /\ ValidPl(s, i.pl) /\ s.cluster.name # 0 /\ Owners(s, i.src) = {}
        /\ Lookup(s, i.src) = NoFlow /\ (s.draining \/ Cardinality(Live(s)) >= s.maxFlows)) =>
        /\ t.flows = s.flows /\ t.table = s.table        \* shed: allocate nothing, existing flows untouched
        /\ Has(o, "SelectBackend") = {}
        /\ \E j \in Has(o, "Drop") : o[j].reason = "Shed"

TeardownOK(s, i, o, t) ==
  LET closed == Live(s) \ Live(t)
      new    == Live(t) \ Live(s)
  IN
  \* exactly one CloseFlow per flow that disappears, none for any other id
  /\ \A f \in closed : Cardinality({j \in Has(o, "CloseFlow") : o[j].flow = f}) = 1
  /\ \A j \in Has(o, "CloseFlow") : o[j].flow \in closed
  \* nothing mentions a flow after its CloseFlow; ids that are not live are never mentioned
  /\ \A j \in Has(o, "CloseFlow") : \A j2 \in (j+1)..Len(o) :
        /\ o[j2].k \in {"SelectBackend", "OpenUpstream", "CloseFlow"} => o[j2].flow # o[j].flow
        /\ o[j2].k \notin {"SendToBackend", "SendToClient"}
  /\ \A j \in Has(o, "SelectBackend") : o[j].flow \in new
  /\ \A j \in Has(o, "OpenUpstream") : i.op = "BackendResolved" /\ o[j].flow = i.flow /\ i.flow \in Live(s)
  \* accounting the shell's gauge relies on
  /\ Cardinality({j \in Has(o, "Metric") : o[j].m = "FlowEvicted"}) = Cardinality(closed)
  /\ Cardinality({j \in Has(o, "Metric") : o[j].m = "FlowCreated"}) = Cardinality(new)
  \* who is torn down
  /\ i.op = "Timeout"  => closed = {f \in Live(s) : s.flows[f].deadline <= s.now}
  /\ i.op = "CloseAll" => Live(t) = {}
  /\ i.op = "Abort"    => closed = Live(s) \cap {i.flow}
  /\ i.op \in {"Config", "Tick"} => t.flows = s.flows /\ t.table = s.table /\ o = <<>>

TimerOK(s, i, o, t) ==
  /\ i.op = "Timeout" => (t.armed = NoTimer \/ t.armed > t.now) /\ \A f \in Live(t) : t.flows[f].deadline > t.now
  \* the last deadline handed to the shell is the armed one (the manager never emits a "disarm":
  \* when the last flow goes the shell keeps a stale deadline, which costs one idle wake-up)
  /\ (Has(o, "ArmTimer") # {} /\ t.armed # NoTimer) => o[Max(Has(o, "ArmTimer"))].at = t.armed
  /\ (t.armed # s.armed /\ t.armed # NoTimer) => Has(o, "ArmTimer") # {}

P_C19_Sticky    == [][StickyOK(St, inp', out', St', FALSE)]_vars
P_C19_Isolation == [][IsolationOK(St, inp', out', St')]_vars
P_C19_Integrity == [][IntegrityOK(St, inp', out', St')]_vars
P_C19_Cap       == [][CapOK(St, inp', out', St')]_vars
P_C19_Teardown  == [][TeardownOK(St, inp', out', St')]_vars
P_C19_Timer     == [][TimerOK(St, inp', out', St')]_vars

\* used only when an open deviation is switched on: everything Sticky demands except the precise
\* situation the AffinityRekey finding describes
P_C19_StickyModuloRekey == [][StickyOK(St, inp', out', St', RekeyCase(St, inp'))]_vars

---------------------------------------------------------------------------
(* Generators *)

\* one line per explored transition (ACTION_CONSTRAINT): the replayer rebuilds the graph
EmitEdge ==
  Emit = "edges" => PrintT(<<"REPLAY", ToJson([pre |-> StateT(St, n), inp |-> inp', out |-> out', post |-> StateT(St', n')])>>)

\* one line per finished behaviour (simulation): the steps in order
EmitHist ==
  (Emit = "hist" /\ n = MaxInputs /\ now = MaxTime) =>
     PrintT(<<"REPLAY", ToJson([init |-> hist[1].init, steps |-> SubSeq(hist, 2, Len(hist))])>>)
=============================================================================
