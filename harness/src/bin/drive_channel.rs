//! I->S driver for spec/Channel.tla (property C11).
//!
//! Drives two REAL `Channel` ends (created with `Channel::new(sock, init, max)`, production sizes by
//! default) with seeded random calls: many small messages and a few huge ones (up to and above the
//! maximum), partial writes (send() shim: random byte budgets, or whatever the kernel accepts), partial
//! deliveries (the harness is the wire between two socket pairs), spurious wake-ups, and frames forged by
//! the peer (declared length below the prefix size / above the maximum, payload that does not decode).
//! Every call and environment step is recorded as one ndjson event with its result and the public
//! projection of both ends; spec/Trace_Channel.tla + TLC decide whether the recording is a behaviour of
//! the specification (the driver itself judges nothing: a panic of the code under test is recorded as an
//! event that no specification step explains).
//!
//! usage: drive_channel --seed S --runs N --steps M --init I --max X --out trace.ndjson

#[path = "../c11_common.rs"]
mod common;

use std::io::Write as _;
use std::panic::{AssertUnwindSafe, catch_unwind};
use std::sync::atomic::{AtomicBool, AtomicI32, AtomicU64, Ordering};
use std::sync::{Arc, Mutex};
use std::time::{Duration, Instant};

use common::*;
use rand::rngs::StdRng;
use rand::{RngExt, SeedableRng};
use serde_json::{Value, json};
use sozu_command_lib::ready::Ready;

fn hash31(bytes: &[u8]) -> u64 {
    let mut h: u64 = 0xcbf29ce484222325;
    for &b in bytes {
        h ^= b as u64;
        h = h.wrapping_mul(0x100000001b3);
    }
    (h ^ (h >> 31)) & 0x3fff_ffff
}

fn pick_len(rng: &mut StdRng, init: usize, max: usize, profile: u32) -> usize {
    let small_top = 200.min(max);
    let l = match rng.random_range(0..100u32) {
        0..=54 => rng.random_range(D..=small_top),
        55..=64 => rng.random_range(D..=(max / 4).max(D)),
        65..=79 => {
            let c = [D, D + 2, init - 1, init, init + 1, init * 2, max / 2, max / 2 + 1, max - D, max - 1, max];
            c[rng.random_range(0..c.len())]
        }
        80..=86 => max + [1usize, 2, D, 100][rng.random_range(0..4)],
        87..=93 => rng.random_range((max / 2).max(D)..=max),
        _ => rng.random_range(D..=max),
    };
    let l = if profile == 1 && rng.random_range(0..10u32) < 8 { rng.random_range(D..=small_top) } else { l };
    let l = l.max(D);
    if l == D + 1 { D + 2 } else { l }
}

/// Counters of the run + what the driving thread is doing (for the watchdog: a call into the code under test
/// that never returns is recorded as a `Hang` event, which no step of the specification explains).
#[derive(Default)]
struct Shared {
    events: AtomicU64,
    delivered: AtomicU64,
    errors: AtomicU64,
    partial_writes: AtomicU64,
    kernel_partial: AtomicU64,
    panics: AtomicU64,
    grown_max: AtomicU64,
    huge: AtomicU64,
    runs_started: AtomicU64,
    tid: AtomicI32,
    progress: AtomicU64,
    in_sozu: AtomicBool,
    call: Mutex<&'static str>,
    done: AtomicBool,
}

impl Shared {
    fn sozu<T>(&self, call: &'static str, f: impl FnOnce() -> T) -> T {
        *self.call.lock().unwrap_or_else(|e| e.into_inner()) = call;
        self.in_sozu.store(true, Ordering::SeqCst);
        let r = f();
        self.in_sozu.store(false, Ordering::SeqCst);
        r
    }
    fn summary(&self, out_path: &str, runs: usize, init: usize, max: usize, samples: &[Value], aborted: Option<&str>) -> Value {
        let g = |a: &AtomicU64| a.load(Ordering::SeqCst);
        json!({
            "kind": "summary", "trace": out_path, "runs": runs, "events": g(&self.events), "init": init, "max": max,
            "delivered": g(&self.delivered), "receiver_errors": g(&self.errors), "planned_partial_writes": g(&self.partial_writes),
            "kernel_partial_writes": g(&self.kernel_partial), "panics": g(&self.panics), "steps_at_max_capacity": g(&self.grown_max),
            "messages_over_half_max": g(&self.huge), "samples": samples, "aborted": aborted,
        })
    }
}

fn thread_stat(tid: i32) -> Option<(u64, char)> {
    let s = std::fs::read_to_string(format!("/proc/self/task/{tid}/stat")).ok()?;
    let rest = &s[s.rfind(')')? + 2..];
    let f: Vec<&str> = rest.split_whitespace().collect();
    let state = f.first()?.chars().next()?;
    Some((f.get(11)?.parse::<u64>().ok()? + f.get(12)?.parse::<u64>().ok()?, state))
}

fn env_secs(name: &str, default: f64) -> f64 {
    std::env::var(name).ok().and_then(|v| v.parse().ok()).unwrap_or(default)
}

fn main() {
    let args: Vec<String> = std::env::args().collect();
    let (mut seed, mut runs, mut steps, mut init, mut max) = (1u64, 10usize, 300usize, 1_000_000usize, 2_000_000usize);
    let mut out_path = String::from("trace.ndjson");
    let mut i = 1;
    while i + 1 < args.len() {
        match args[i].as_str() {
            "--seed" => seed = args[i + 1].parse().unwrap_or(1),
            "--runs" => runs = args[i + 1].parse().unwrap_or(10),
            "--steps" => steps = args[i + 1].parse().unwrap_or(300),
            "--init" => init = args[i + 1].parse().unwrap_or(init),
            "--max" => max = args[i + 1].parse().unwrap_or(max),
            "--out" => out_path = args[i + 1].clone(),
            _ => {}
        }
        i += 2;
    }
    vh::util::quiet_panics();
    if let Err(e) = self_test(&[0, 2, 3, 100, 127, 128, 129, 130, 131, 200, 16383, 16384, 16390]) {
        eprintln!("drive_channel self-test failed: {e}");
        std::process::exit(3);
    }
    let out = Arc::new(Mutex::new(std::io::BufWriter::new(std::fs::File::create(&out_path).expect("trace file"))));
    let mut rng = StdRng::seed_from_u64(seed ^ ((init as u64) << 20) ^ max as u64);
    let sh = Arc::new(Shared::default());
    sh.tid.store(unsafe { libc::syscall(libc::SYS_gettid) } as i32, Ordering::SeqCst);
    let mut samples: Vec<Value> = Vec::new();
    // ---- watchdog (same rules as replay_channel): CPU burnt / time asleep inside ONE call into sozu is a verdict
    // about that call (recorded as a `Hang` event); no progress outside the code under test is a tool error
    {
        let (sh, out, out_path) = (sh.clone(), out.clone(), out_path.clone());
        let spin_cpu = env_secs("VERIF_C11_SPIN_CPU_S", 10.0);
        let block_wall = env_secs("VERIF_C11_BLOCK_S", 40.0);
        let starve_wall = env_secs("VERIF_C11_STALL_S", 600.0);
        let harness_wall = env_secs("VERIF_C11_HARNESS_STALL_S", 180.0);
        std::thread::spawn(move || {
            let ticks = unsafe { libc::sysconf(libc::_SC_CLK_TCK) }.max(1) as f64;
            let (mut p0, mut since, mut cpu0, mut asleep_since) = (u64::MAX, Instant::now(), 0u64, None::<Instant>);
            loop {
                std::thread::sleep(Duration::from_millis(500));
                if sh.done.load(Ordering::SeqCst) {
                    return;
                }
                let p = sh.progress.load(Ordering::SeqCst);
                let Some((cpu, state)) = thread_stat(sh.tid.load(Ordering::SeqCst)) else { continue };
                if p != p0 {
                    (p0, since, cpu0, asleep_since) = (p, Instant::now(), cpu, None);
                    continue;
                }
                let in_sozu = sh.in_sozu.load(Ordering::SeqCst);
                let stalled = since.elapsed().as_secs_f64();
                let burnt = (cpu - cpu0) as f64 / ticks;
                if state == 'S' || state == 'D' {
                    asleep_since.get_or_insert_with(Instant::now);
                } else {
                    asleep_since = None;
                }
                let asleep = asleep_since.map(|t| t.elapsed().as_secs_f64()).unwrap_or(0.0);
                if sh.progress.load(Ordering::SeqCst) != p {
                    continue;
                }
                let how = if in_sozu && burnt >= spin_cpu {
                    Some(format!("burnt {burnt:.1} s of CPU in {stalled:.0} s without returning"))
                } else if in_sozu && asleep >= block_wall {
                    Some(format!("blocked in the kernel for {asleep:.0} s on a non-blocking channel"))
                } else {
                    None
                };
                if let Some(how) = how {
                    let call = *sh.call.lock().unwrap_or_else(|e| e.into_inner());
                    let mut o = out.lock().unwrap_or_else(|e| e.into_inner());
                    let _ = writeln!(o, "{}", json!({"op": "Hang", "call": call, "message": how}));
                    let _ = o.flush();
                    sh.events.fetch_add(1, Ordering::SeqCst);
                    let runs = sh.runs_started.load(Ordering::SeqCst) as usize;
                    vh::util::emit(&sh.summary(&out_path, runs, init, max, &[], Some("hang of the code under test")));
                    let _ = std::io::stdout().flush();
                    std::process::exit(0);
                }
                if (!in_sozu && stalled >= harness_wall) || stalled >= starve_wall {
                    eprintln!("drive_channel: no progress for {stalled:.0} s (in_sozu={in_sozu}, cpu {burnt:.1} s, state {state}): giving up (tool error)");
                    std::process::exit(4);
                }
            }
        });
    }

    for run in 0..runs {
        let mut rig = Rig::new(init as u64, max as u64).expect("socket pairs");
        sh.runs_started.fetch_add(1, Ordering::SeqCst);
        let emit = |v: Value| {
            let _ = writeln!(out.lock().unwrap_or_else(|e| e.into_inner()), "{v}");
            sh.events.fetch_add(1, Ordering::SeqCst);
        };
        emit(json!({"op": "reset", "init": init, "max": max, "run": run}));
        let profile = rng.random_range(0..3u32); // 0 mixed, 1 many small then huge, 2 tiny budgets
        let mut next_id = 1u64;
        let mut poisoned = false;
        let total_steps = steps + 400;
        for step in 0..total_steps {
            let draining = step >= steps; // final phase: only make progress, no new traffic
            let choice = if draining { [25u32, 35, 50, 65, 75, 85, 85][step % 7] } else { rng.random_range(0..100u32) };
            let mut ev: Option<Value> = None;
            sh.progress.fetch_add(1, Ordering::SeqCst);
            let r = catch_unwind(AssertUnwindSafe(|| -> Option<Value> {
                match choice {
                    // ---- write_message
                    0..=19 => {
                        let len = if profile == 1 && step == steps / 2 { max - rng.random_range(0..3usize) } else { pick_len(&mut rng, init, max, profile) };
                        let msg = make_msg(next_id, len - D)?;
                        let enc = encode_msg(&msg);
                        let res = match sh.sozu("Write", || rig.tx.write_message(&msg)) {
                            Ok(()) => {
                                rig.tx_expect.extend(len.to_le_bytes());
                                rig.tx_expect.extend(enc.iter().copied());
                                "ok".to_string()
                            }
                            Err(e) => error_name(&e),
                        };
                        let id = next_id;
                        if res == "ok" {
                            next_id += 1;
                            if len > max / 2 {
                                sh.huge.fetch_add(1, Ordering::SeqCst);
                            }
                        }
                        Some(json!({"op": "Write", "len": len, "id": id, "h": hash31(&enc), "res": res}))
                    }
                    // ---- handle_events(WRITABLE)
                    20..=29 => {
                        sh.sozu("TxEvents", || rig.tx.handle_events(Ready::WRITABLE));
                        Some(json!({"op": "TxEvents"}))
                    }
                    // ---- writable()
                    30..=44 => {
                        let data = rig.tx.back_buf.available_data();
                        let plan: Option<Vec<usize>> = if draining || data == 0 {
                            None
                        } else {
                            match rng.random_range(0..10u32) {
                                0..=2 => None, // the kernel decides
                                3 => Some(vec![]),
                                4..=6 => Some(vec![rng.random_range(1..=data)]),
                                _ => {
                                    let tiny = profile == 2;
                                    let mut v = Vec::new();
                                    let mut left = data;
                                    for _ in 0..rng.random_range(1..=4u32) {
                                        if left == 0 {
                                            break;
                                        }
                                        let k = if tiny { rng.random_range(1..=left.min(16)) } else { rng.random_range(1..=left) };
                                        v.push(k);
                                        left -= k;
                                    }
                                    Some(v)
                                }
                            }
                        };
                        let planned = plan.is_some();
                        shim_arm(rig.tx_fd, plan);
                        let r = sh.sozu("Writable", || rig.tx.writable());
                        let calls = shim_disarm();
                        let chunks: Vec<usize> = calls.iter().filter(|c| c.1 > 0).map(|c| c.1 as usize).collect();
                        let mut e = match r {
                            Ok(n) => json!({"op": "Writable", "chunks": chunks, "res": "ok", "n": n}),
                            Err(e) => json!({"op": "Writable", "chunks": [], "res": error_name(&e)}),
                        };
                        if let Err(s) = rig.drain_sender() {
                            e["stream_error"] = json!(s);
                        }
                        if calls.iter().any(|c| c.1 > 0 && (c.1 as usize) < c.0) {
                            if planned { sh.partial_writes.fetch_add(1, Ordering::SeqCst) } else { sh.kernel_partial.fetch_add(1, Ordering::SeqCst) };
                        }
                        Some(e)
                    }
                    // ---- the wire delivers some bytes
                    45..=59 => {
                        if rig.wire.is_empty() {
                            return None;
                        }
                        let n = rig.wire.len();
                        let k = if draining { n } else {
                            match rng.random_range(0..4u32) {
                                0 => n,
                                1 => rng.random_range(1..=n.min(D + 3)),
                                _ => rng.random_range(1..=n),
                            }
                        };
                        let moved = rig.wire_move(k).ok()?;
                        if moved == 0 {
                            return None;
                        }
                        Some(json!({"op": "WireMove", "k": moved}))
                    }
                    // ---- handle_events(READABLE)
                    60..=69 => {
                        sh.sozu("RxEvents", || rig.rx.handle_events(Ready::READABLE));
                        Some(json!({"op": "RxEvents"}))
                    }
                    // ---- readable()
                    70..=79 => match sh.sozu("Readable", || rig.rx.readable()) {
                        Ok(n) => {
                            rig.sock -= n.min(rig.sock);
                            Some(json!({"op": "Readable", "res": "ok", "n": n}))
                        }
                        Err(e) => Some(json!({"op": "Readable", "res": error_name(&e)})),
                    },
                    // ---- read_message()
                    80..=95 => match sh.sozu("ReadMessage", || rig.rx.read_message()) {
                        Ok(m) => {
                            let enc = encode_msg(&m);
                            sh.delivered.fetch_add(1, Ordering::SeqCst);
                            Some(json!({"op": "ReadMessage", "res": "ok", "len": enc.len() + D, "h": hash31(&enc)}))
                        }
                        Err(e) => {
                            let name = error_name(&e);
                            if name != "nothing_read" {
                                sh.errors.fetch_add(1, Ordering::SeqCst);
                            }
                            Some(json!({"op": "ReadMessage", "res": name, "len": 0, "h": 0}))
                        }
                    },
                    // ---- the peer writes a frame itself (well-formed or not), between two frames of the sender
                    _ => {
                        if rig.tx.back_buf.available_data() != 0 || !rig.tx_expect.is_empty() {
                            return None;
                        }
                        let (len, decl, kind) = match rng.random_range(0..10u32) {
                            0..=2 => {
                                let l = pick_len(&mut rng, init, max, 1).min(max);
                                (l, l, "good")
                            }
                            3..=5 => {
                                let l = rng.random_range(D + 1..=(300.min(max)));
                                (l, l, "undec")
                            }
                            6..=7 => (D, rng.random_range(0..D), "short"),
                            _ => {
                                let l = max + rng.random_range(1..=64usize);
                                (l, l, "over")
                            }
                        };
                        let bytes = frame_bytes(next_id, len, decl, kind).ok()?;
                        let h = hash31(&bytes[D..]);
                        rig.wire.extend(bytes);
                        let id = next_id;
                        next_id += 1;
                        Some(json!({"op": "Inject", "id": id, "len": len, "decl": decl, "kind": kind, "h": h}))
                    }
                }
            }));
            match r {
                Ok(Some(e)) => ev = Some(e),
                Ok(None) => {}
                Err(p) => {
                    shim_disarm();
                    sh.panics.fetch_add(1, Ordering::SeqCst);
                    poisoned = true;
                    let call = *sh.call.lock().unwrap_or_else(|e| e.into_inner());
                    ev = Some(json!({"op": "Panic", "call": call, "message": vh::util::panic_message(p)}));
                }
            }
            sh.in_sozu.store(false, Ordering::SeqCst);
            if let Some(mut e) = ev {
                if !poisoned {
                    // reading the state of the code under test can panic too (position/end beyond the capacity)
                    match catch_unwind(AssertUnwindSafe(|| {
                        let v = rig.project();
                        let _ = rig.rx.front_buf.data().len();
                        let _ = rig.tx.back_buf.data().len();
                        v
                    })) {
                        Ok(v) => e["st"] = v,
                        Err(p) => {
                            sh.panics.fetch_add(1, Ordering::SeqCst);
                            poisoned = true;
                            e = json!({"op": "Panic", "call": e["op"], "after": e,
                                       "message": format!("the buffers cannot be read any more after the call: {}", vh::util::panic_message(p))});
                        }
                    }
                    if e["st"]["rx"][2].as_u64() == Some(max as u64) || e["st"]["tx"][2].as_u64() == Some(max as u64) {
                        sh.grown_max.fetch_add(1, Ordering::SeqCst);
                    }
                }
                if samples.len() < 6 && (e["op"] == "ReadMessage" && e["res"] != "nothing_read" && e["res"] != "ok" || e["op"] == "Writable" && e["chunks"].as_array().map(|a| a.len() > 1).unwrap_or(false)) {
                    samples.push(e.clone());
                }
                emit(e);
            }
            if poisoned {
                break;
            }
        }
    }
    sh.done.store(true, Ordering::SeqCst);
    let _ = out.lock().unwrap_or_else(|e| e.into_inner()).flush();
    vh::util::emit(&sh.summary(&out_path, runs, init, max, &samples, None));
}
