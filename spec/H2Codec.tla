------------------------------- MODULE H2Codec -------------------------------
(***************************************************************************)
(* Frame decoder of sozu (lib/src/protocol/mux/parser.rs: frame_header,    *)
(* frame_body) as a total function of the 9-byte header fields, the number *)
(* of payload bytes available and the padding byte (property C15: "the     *)
(* frame decoder consumes exactly header plus declared payload or reports  *)
(* an error, for every input"), and the serializer round trip              *)
(* (serializer.rs gen_* followed by the decoder gives the fields back).    *)
(*                                                                         *)
(* Outcome of Decode: "ok" (consumed = 9 + len), "FSE" (FRAME_SIZE_ERROR), *)
(* "PE" (PROTOCOL_ERROR) or "short" (not enough bytes: a parse error, no   *)
(* byte consumed). The payload bytes themselves are seeded random data in  *)
(* the replayer; only the padding byte matters to the outcome.             *)
(***************************************************************************)
EXTENDS Naturals, Sequences, FiniteSets, SequencesExt, TLC, Json

MaxFrame == 16384
Lens   == {0, 1, 3, 4, 5, 6, 7, 8, 9, 12, 13, 390, 396, 1028, 1029, 16384, 16385}
Types  == (0..10) \cup {16, 32}
Flags  == {0, 1, 4, 5, 8, 9, 32, 40, 45}
SidCls == {"zero", "one", "two", "max", "rbit_one", "rbit_zero"}   \* rbit: reserved bit set on the wire
Avails == {"exact", "short", "extra"}
Pads   == {"zero", "fit", "over"}

SidIsZero(c) == c \in {"zero", "rbit_zero"}
DecodedSid(c) == CASE c = "rbit_one" -> "one" [] c = "rbit_zero" -> "zero" [] OTHER -> c

NeedStream == {0, 1, 2, 3, 5, 9}
NeedZero   == {4, 6, 7, 16}
Bit(fl, b) == (fl \div b) % 2 = 1
Padded(fl) == Bit(fl, 8)
Prio(fl)   == Bit(fl, 32)
Ack(fl)    == Bit(fl, 1)
Min2(a, b) == IF a < b THEN a ELSE b

H(len, ty, fl, sid, av, pad) == [len |-> len, ty |-> ty, fl |-> fl, sid |-> sid, av |-> av, pad |-> pad]
Cases == {H(l, t, f, s, a, p) : l \in Lens, t \in Types, f \in Flags, s \in SidCls, a \in Avails, p \in Pads}

\* number of payload bytes handed to frame_body
Avail(h) == CASE h.av = "exact" -> h.len [] h.av = "short" -> (IF h.len = 0 THEN 0 ELSE h.len - 1) [] OTHER -> h.len + 5

HasPadByte(h) == h.ty \in {0, 1} /\ Padded(h.fl)
Rem1(h) == IF HasPadByte(h) THEN h.len - 1 ELSE h.len             \* after the pad-length byte (len >= 1 then)
HasPrio(h) == h.ty = 1 /\ Prio(h.fl)
\* the padding byte the replayer writes for the class (as a function of the header only)
PadByte(h) ==
  IF ~HasPadByte(h) \/ h.len = 0 THEN 0
  ELSE LET r == IF HasPrio(h) THEN (IF Rem1(h) >= 5 THEN Rem1(h) - 5 ELSE 0) ELSE Rem1(h)
       IN CASE h.pad = "zero" -> 0
            [] h.pad = "fit" -> Min2(r, 255)
            [] OTHER -> IF HasPrio(h) /\ Rem1(h) < 5 THEN Min2(Rem1(h) + 1, 255) ELSE Min2(r + 1, 255)

HeaderOutcome(h) ==
  IF h.len > MaxFrame THEN "FSE"
  ELSE IF (h.ty \in NeedStream /\ SidIsZero(h.sid)) \/ (h.ty \in NeedZero /\ ~SidIsZero(h.sid)) THEN "PE"
  ELSE "ok"

Short(h) == Avail(h) < h.len

PaddedOutcome(h) ==       \* DATA / HEADERS once `take(len)` succeeded
  IF HasPadByte(h) /\ h.len = 0 THEN "short"                      \* no pad-length byte to read
  ELSE LET p == PadByte(h)
           r1 == Rem1(h)
       IN IF HasPadByte(h) /\ p > r1 THEN "PE"
          ELSE IF HasPrio(h) /\ r1 < 5 THEN "short"
          ELSE IF HasPadByte(h) /\ p > (IF HasPrio(h) THEN r1 - 5 ELSE r1) THEN "PE"
          ELSE "ok"

BodyOutcome(h) ==
  CASE h.ty \in {0, 1} -> IF Short(h) THEN "short" ELSE PaddedOutcome(h)
    [] h.ty = 2 -> IF h.len # 5 THEN "FSE" ELSE IF Short(h) THEN "short" ELSE "ok"
    [] h.ty = 3 -> IF h.len # 4 THEN "FSE" ELSE IF Short(h) THEN "short" ELSE "ok"
    [] h.ty = 4 -> IF (Ack(h.fl) /\ h.len # 0) \/ h.len % 6 # 0 \/ h.len \div 6 > 64 THEN "FSE"
                   ELSE IF Short(h) THEN "short" ELSE "ok"
    [] h.ty = 5 -> IF Short(h) THEN "short" ELSE "PE"              \* PUSH_PROMISE is never accepted
    [] h.ty = 6 -> IF h.len # 8 THEN "FSE" ELSE IF Short(h) THEN "short" ELSE "ok"
    [] h.ty = 7 -> IF h.len < 8 THEN "FSE" ELSE IF Short(h) THEN "short" ELSE "ok"
    [] h.ty = 8 -> IF h.len # 4 THEN "FSE" ELSE IF Short(h) THEN "short" ELSE "ok"
    [] h.ty = 16 -> IF h.len < 4 THEN "FSE" ELSE IF h.len - 4 > 1024 THEN "PE" ELSE IF Short(h) THEN "short" ELSE "ok"
    [] OTHER -> IF Short(h) THEN "short" ELSE "ok"                 \* CONTINUATION and unknown types

Decode(h) == IF HeaderOutcome(h) # "ok" THEN HeaderOutcome(h) ELSE BodyOutcome(h)
\* bytes consumed by a successful decode
Consumed(h) == 9 + h.len

\* P_C15 (decoder part): the decoder is total, and success means exactly header + declared payload
P_C15_DecoderTotal ==
  \A h \in Cases : /\ Decode(h) \in {"ok", "FSE", "PE", "short"}
                   /\ (Decode(h) = "ok" => Avail(h) >= h.len /\ Consumed(h) = 9 + h.len /\ h.len <= MaxFrame)
                   /\ (h.len > MaxFrame => Decode(h) = "FSE")

---------------------------------------------------------------------------
(* serializer round trip: what the decoder must give back for what gen_* wrote *)
Codes == 0..13
RtCases ==
  {[fn |-> "rst", sid |-> s, a |-> c] : s \in {"one", "max", "rbit_one"}, c \in Codes}
  \cup {[fn |-> "wu", sid |-> s, a |-> i] : s \in {"zero", "one", "max"}, i \in {1, 65535, 2147483647}}
  \cup {[fn |-> "goaway", sid |-> s, a |-> c] : s \in {"zero", "one", "max", "rbit_one"}, c \in Codes}
  \cup {[fn |-> "ping", sid |-> "zero", a |-> 0], [fn |-> "settings", sid |-> "zero", a |-> 0]}
  \cup {[fn |-> "header", sid |-> s, a |-> t] : s \in SidCls, t \in (0..9) \cup {16}}
RtExpect(c) == [sid |-> DecodedSid(c.sid), a |-> c.a,
                out |-> IF c.fn = "header" /\ ((c.a \in NeedStream /\ SidIsZero(c.sid)) \/ (c.a \in NeedZero /\ ~SidIsZero(c.sid)))
                        THEN "PE" ELSE "ok"]

VARIABLE done
Init == done = FALSE
Next == ~done /\ done' = TRUE
Spec == Init /\ [][Next]_done

CaseSeq == SetToSeq(Cases)
Emit ==
  done => PrintT(<<"REPLAY", ToJson([decode |-> [i \in 1..Len(CaseSeq) |->
                                                  [h |-> CaseSeq[i], pad |-> PadByte(CaseSeq[i]), out |-> Decode(CaseSeq[i])]],
                                     roundtrip |-> {[c |-> c, expect |-> RtExpect(c)] : c \in RtCases}])>>)
=============================================================================
