SPECIFICATION FairSpec
CONSTANTS
  MaxStreams = 2
  MaxRst = 2
  MaxPing = 2
  MaxSettings = 2
  MaxEmpty = 2
  MaxWu0 = 2
  MaxCont = 2
  MaxGlitch = 2
  MaxRstLife = 3
  MaxRstAbusive = 2
  MaxRstEmitted = 2
  MaxRstQueued = 200
  MaxPingLife = 1000
  MaxSettingsLife = 1000
  OddSids = {1, 3, 5}
  MaxDepth = 4
  MaxValid = 0
  Deviations = {}
  Emit = "off"
  Focus = "all"
INVARIANTS TypeOK P_C15_React P_C15_Total P_C15_Streams P_C15_Structural P_C15_ConnErrorCloses
PROPERTIES P_C15_NoNewWhileDraining P_C15_GoawayCloses
CHECK_DEADLOCK FALSE
ALIAS DebugAlias
