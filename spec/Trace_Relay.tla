----------------------------- MODULE Trace_Relay -----------------------------
(***************************************************************************)
(* I->S trace validation for Relay (property C01).                         *)
(*                                                                         *)
(* harness/drive_relay runs exchanges through a real sozu worker (HTTP/1.1 *)
(* and HTTP/2-over-TLS clients, HTTP/1.1 and h2c backends) and records,    *)
(* per MESSAGE (run, stream, direction), what its two observers saw, each  *)
(* in its own program order:                                               *)
(*   the sender  : Sent(off,len)* then EndSent(kind) | SendStall           *)
(*   the receiver: Rcvd(off,len,bad)* then EndRcvd(kind) | Stall | Missing *)
(* The file is ndjson: a `msg` line (ns, nr, companion_aborted, park_hol,  *)
(* the plan) followed by the ns sender events and the nr receiver events;  *)
(* a final `msg` line with run -1.  No cross-thread order is recorded: the *)
(* only relation between the two observers is the data flow (a byte is not *)
(* received before it was sent), and all guards are monotone in what the   *)
(* sender did, so consuming the sender's events first loses no acceptable  *)
(* trace (eager consumption of sent events, DESIGN 2.4).                   *)
(*                                                                         *)
(* Every message is one pipe <<1,d>> of Relay instantiated with N = 1; its *)
(* events must be explained by the observable actions O_Sent, O_EndSent,   *)
(* O_Rcvd, O_EndRcvd of Relay.tla (TLC checks separately that every step   *)
(* of the detailed model is one of these or stutters: P_C01_RefinesObs).   *)
(* A Stall / SendStall / Missing event has no action: it is only tolerated *)
(* under an OPEN deviation, in the precise class the deviation describes.  *)
(***************************************************************************)
EXTENDS Relay, Json, IOUtils

ASSUME TLCSet(1, 0) /\ TLCSet(2, 0)

Rec == ndJsonDeserialize(IOEnv.TRACE)

VARIABLES i,        \* index of the next line of Rec
          hdr,      \* index of the `msg` line of the current message (0 before the first)
          excused   \* the current message hit an open deviation: its remaining events are not judged

tvars == <<vars, i, hdr, excused>>

Cur == Rec[i]
P(d) == <<1, d>>
\* the pipe of the current message
Pd == P(Rec[hdr].d)
Hidden == UNCHANGED <<rd, wr, endRd, endWr, inK, outK, event, interest, kfull, edgeR, edgeW, parked, win, credit, ok, killed>>

\* a cleanly ended message has arrived completely, with its end
MsgComplete ==
  IF hdr = 0 THEN TRUE
  ELSE excused \/ (endSent[Pd] = "clean" => (endRcvd[Pd] = "clean" /\ rcvd[Pd] = sent[Pd]))

T_Msg ==
  /\ i <= Len(Rec) /\ Cur.ev = "msg"
  /\ MsgComplete
  /\ sent' = [p \in Pipes |-> 0] /\ rcvd' = [p \in Pipes |-> 0]
  /\ endRcvd' = [p \in Pipes |-> "none"]
  \* what is known of the other direction of the exchange: whether its sender gave up
  /\ endSent' = [p \in Pipes |-> IF p = Other(P(Cur.d)) /\ Cur.companion_aborted THEN "abort" ELSE "none"]
  /\ hdr' = i /\ i' = i + 1 /\ excused' = FALSE
  /\ Hidden

\* an open deviation explains a message that does not complete
SozuCut == \/ Dev("HolBlocking") /\ Rec[hdr].park_hol
           \/ Dev("LoopBudgetKill") /\ Rec[hdr].budget_kill
StallExcused ==
  \/ SozuCut
  \* the sender of the exchange gave up: C01 says nothing about how (or whether) the cut reaches the receiver
  \/ endSent[Pd] = "abort" \/ endSent[Other(Pd)] = "abort"

T_Ev ==
  /\ i <= Len(Rec) /\ hdr > 0 /\ Cur.ev # "msg"
  /\ Cur.run = Rec[hdr].run /\ Cur.s = Rec[hdr].s /\ Cur.d = Rec[hdr].d
  /\ LET p == Pd IN
     IF excused THEN UNCHANGED <<sent, rcvd, endSent, endRcvd, excused>>
     ELSE CASE Cur.k = "sent" ->
                 /\ endSent[p] = "none" /\ Cur.len > 0 /\ Cur.off = sent[p]
                 /\ sent' = [sent EXCEPT ![p] = Cur.off + Cur.len]
                 /\ UNCHANGED <<rcvd, endSent, endRcvd, excused>>
            [] Cur.k = "endsent" ->
                 /\ endSent[p] = "none" /\ Cur.kind \in {"clean", "abort"} /\ Cur.at = sent[p]
                 \* a run none of whose senders gives up (full-duplex schedules: the instance has Aborts = FALSE): a sender
                 \* that records "abort" was cut by sozu - Peer_Close(p, "abort") is not an action of that instance
                 /\ (Cur.kind = "abort" /\ "no_aborts" \in DOMAIN Rec[hdr] /\ Rec[hdr].no_aborts) => SozuCut
                 /\ endSent' = [endSent EXCEPT ![p] = Cur.kind]
                 /\ UNCHANGED <<sent, rcvd, endRcvd, excused>>
            [] Cur.k = "rcvd" ->
                 \* in order, no gap, no duplicate, content matches the position code, never ahead of the sender
                 /\ endRcvd[p] = "none" /\ Cur.bad = -1 /\ Cur.len > 0 /\ Cur.off = rcvd[p]
                 /\ Cur.off + Cur.len <= sent[p]
                 /\ rcvd' = [rcvd EXCEPT ![p] = Cur.off + Cur.len]
                 /\ UNCHANGED <<sent, endSent, endRcvd, excused>>
            [] Cur.k = "endrcvd" ->
                 /\ endRcvd[p] = "none" /\ Cur.at = rcvd[p]
                 /\ \/ EndRcvdAllowed(p, Cur.kind, endSent, rcvd, sent) /\ UNCHANGED excused
                    \* an exchange cut by sozu itself while a listed deviation holds: the message is not judged further
                    \/ Cur.kind = "abort" /\ SozuCut /\ excused' = TRUE
                 /\ endRcvd' = [endRcvd EXCEPT ![p] = Cur.kind]
                 /\ UNCHANGED <<sent, rcvd, endSent>>
            [] Cur.k \in {"stall", "sendstall", "missing"} ->
                 /\ StallExcused
                 /\ excused' = TRUE
                 /\ UNCHANGED <<sent, rcvd, endSent, endRcvd>>
            [] OTHER -> FALSE
  /\ i' = i + 1 /\ hdr' = hdr
  /\ Hidden

TInit == Init /\ i = 1 /\ hdr = 0 /\ excused = FALSE
TNext == T_Msg \/ T_Ev
TraceSpec == TInit /\ [][TNext]_tvars

\* register 1: lines explained on the longest prefix; register 2: header line of the message being explained
Track == (i - 1 > TLCGet(1) => TLCSet(1, i - 1) /\ TLCSet(2, hdr)) /\ TRUE

TraceAccepted ==
  /\ IF TLCGet(1) = Len(Rec)
     THEN PrintT(<<"TRACE-ACCEPTED", TLCGet(1)>>)
     ELSE /\ PrintT(<<"TRACE-REJECTED", TLCGet(1), Len(Rec)>>)
          /\ PrintT(<<"STUCK-RUN", IF TLCGet(2) = 0 THEN 0 ELSE Rec[TLCGet(2)].run>>)
          /\ PrintT(<<"STUCK-MSG", IF TLCGet(2) = 0 THEN <<>> ELSE
                        <<Rec[TLCGet(2)].run, Rec[TLCGet(2)].s, Rec[TLCGet(2)].d, Rec[TLCGet(2)].pair>>>>)
          /\ PrintT(<<"STUCK-EVENT", IF TLCGet(1) + 1 <= Len(Rec) THEN Rec[TLCGet(1) + 1] ELSE <<>>>>)
  /\ TRUE

\* the recorded steps are steps of the observable spec, and the safety part of C01 holds in every state reached
T_C01_Obs == [][ObsNext \/ hdr' # hdr \/ excused' \/ (hdr > 0 /\ SozuCut)]_<<obs, hdr>>
T_C01_Prefix == \A p \in Pipes : rcvd[p] <= sent[p]
T_C01_CleanEnd == excused \/ P_C01_CleanEnd
=============================================================================
