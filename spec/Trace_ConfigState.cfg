SPECIFICATION TraceSpec
CONSTANTS
  Family = "M"
  MaxObj = 1000
  MaxDepth = 1000000
  Wide = FALSE
  Deviations = {}
  Emit = "none"
INVARIANTS P_C05 P_C06_Near P_C07
CONSTRAINT Track
POSTCONDITION TraceAccepted
CHECK_DEADLOCK FALSE
