//! S->I replayer for spec/Backends.tla (property C12): TLC is the generator and the oracle.
//!
//! stdin: ndjson, one behaviour of spec/Gen_Backends.tla per line: an array of snapshots
//!   {"step":{op,args,ret?}, "list":[oid], "objs":[state record], "policy", "metric",
//!    "probes":[{"key","sticky","adm":[oid]}], "eligible":[oid], "coarse":[[id,addr,w]], "fine":[[addr,w]]}.
//! Every step is executed on a REAL `sozu_lib::backends::BackendMap` (harness/src/c12kit.rs); after
//! every step
//!   * the call's result equals the spec's (`ret`),
//!   * the projection of the real cluster equals the spec's state (list order, configuration, status,
//!     health, back-off, counters, availability),
//!   * every query of the probe table is asked several times through the real entry points
//!     (backend_from_cluster_id_with_key, backend_from_cluster_id, backend_from_sticky_session; a
//!     connection is closed again at once) and each answer must be in the spec's admissible set;
//!     keyed answers of the affinity policies must be a function of (key, spec's eligible-set
//!     signature) over the whole replay (all behaviours: the hash seed is a constant).
//!
//! Time: `Elapse(d)` moves every backend's `last_try` d seconds into the past before the next call; `RetryFail`
//! is the real `fail()` - whether it counts, what it stamps and the window it draws are the policy's doing.
//! The drawn length (unseeded random) is checked against the range TLC printed (`wmax`) and then replaced by
//! the length TLC drew, so that the history can go on. Real time that passes during a history adds to every
//! age; a history that took longer than `--slack-ms` is executed again (up to 3 times) and, if it never fits,
//! reported as inconclusive (class harness:slow), never judged.
//!
//! stdout: {"kind":"violation","class":..,"detail":..}* {"kind":"summary",...}

use std::collections::{BTreeMap, BTreeSet};
use std::io::{BufRead, BufReader};
use std::panic::{AssertUnwindSafe, catch_unwind};

use serde_json::{Value, json};
use vh::c12kit::{NONE, Rng, World, addr_table};

const C: &str = "cluster";

fn arg(name: &str, default: &str) -> String {
    let a: Vec<String> = std::env::args().collect();
    a.iter().position(|x| x == name).and_then(|i| a.get(i + 1).cloned()).unwrap_or_else(|| default.to_string())
}

fn canon(v: &Value) -> String {
    let mut xs: Vec<String> = v.as_array().map(|a| a.iter().map(|x| x.to_string()).collect()).unwrap_or_default();
    xs.sort();
    xs.join(",")
}

struct Viol {
    class: String,
    what: String,
}

struct Stats {
    probes: u64,
    probes_multi: u64,
    steps: u64,
    per_obj: BTreeSet<String>,
    joint: BTreeSet<String>,
    dev_explained: u64,
    by_policy: BTreeMap<String, u64>,
    by_op: BTreeMap<String, u64>,
    counted: u64,
    ignored: u64,
    max_tries_seen: u64,
    max_wsec: u64,
    probes_waiting: u64,
    reinstalls: u64,
}

struct Ctx {
    keys: Vec<u64>,
    reps: u32,
    hcap: u32,
    max_tries: usize,
    age_cap: u64,
    dev_maglev: bool,
    aff_fine: BTreeMap<String, i64>,
    aff_coarse: BTreeMap<String, i64>,
    stats: Stats,
}

fn exec(w: &mut World, step: &Value) -> Result<Option<Value>, String> {
    let op = step["op"].as_str().unwrap_or("");
    let oid = step["oid"].as_i64().unwrap_or(0);
    Ok(match op {
        "Add" => {
            let wgt = step["w"].as_i64().unwrap() as i32;
            // weight 100 is also what an absent weight means: alternate between the two spellings
            let wopt = if wgt == 100 && step["addr"].as_i64().unwrap() % 2 == 1 { None } else { Some(wgt) };
            w.add(C, step["id"].as_str().unwrap(), step["addr"].as_i64().unwrap(), step["backup"].as_bool().unwrap(),
                  step["sticky"].as_str().unwrap(), wopt);
            None
        }
        "Remove" => Some(json!(w.remove(C, step["addr"].as_i64().unwrap()))),
        "SetPolicy" => {
            w.set_policy(C, step["policy"].as_str().unwrap(), step["metric"].as_str().unwrap());
            None
        }
        "Health" => Some(json!(w.health(C, oid, step["up"].as_bool().unwrap(), step["th"].as_u64().unwrap() as u32))),
        "ResetHealth" => { w.reset_health(C); None }
        "RetryFail" => {
            w.retry_fail(C, oid);
            if step["counted"].as_bool().unwrap_or(false) {
                // the window the real policy drew must be one the spec allows; the history goes on with TLC's draw
                let (_, wait, _) = w.retry_view(C, oid);
                let wmax = step["wmax"].as_u64().unwrap_or(0);
                if wait.subsec_nanos() != 0 || wait.as_secs() < 1 || wait.as_secs() > wmax {
                    return Err(format!("window: a counted failure drew a window of {wait:?}, the spec allows 1..={wmax} s"));
                }
                w.redraw_window(C, oid, step["w"].as_u64().unwrap());
            }
            None
        }
        "RetrySucceed" => { w.retry_succeed(C, oid); None }
        "Elapse" => { w.elapse_all(step["d"].as_u64().unwrap()); None }
        "SetClosing" => { w.set_closing(C, oid); None }
        "Inc" => Some(json!(w.inc(C, oid))),
        "Dec" => Some(json!(w.dec(C, oid))),
        "ReqStart" => { w.req_start(C, oid); None }
        "ReqEnd" => { w.req_end(C, oid); None }
        other => return Err(format!("generator emitted an operation the replayer does not know: {other}")),
    })
}

fn state_diff(real: &Value, snap: &Value) -> Option<String> {
    if real["list"] != snap["list"] {
        return Some(format!("list: real {} spec {}", real["list"], snap["list"]));
    }
    let (r, s) = (real["objs"].as_array().unwrap(), snap["objs"].as_array().unwrap());
    if r.len() != s.len() {
        return Some(format!("live objects: real {} spec {}", r.len(), s.len()));
    }
    for (a, b) in r.iter().zip(s.iter()) {
        for f in ["oid", "id", "addr", "backup", "sticky", "w", "st", "h", "cs", "cf", "tries", "wait", "left", "conns", "reqs", "out", "rout", "avail"] {
            if a[f] != b[f] {
                return Some(format!("object {} field {}: real {} spec {}", b["oid"], f, a[f], b[f]));
            }
        }
    }
    None
}

fn replay(ctx: &mut Ctx, beh: &[Value], variant: u64) -> Result<(), Viol> {
    let mut w = World::new(addr_table(3, variant, 0));
    // the instance's retry budget and age cap travel with the behaviour (so that a replay file is self-contained)
    w.retry_budget = Some(beh.first().and_then(|s| s["mt"].as_u64()).map(|n| n as usize).unwrap_or(ctx.max_tries));
    w.age_cap = beh.first().and_then(|s| s["ac"].as_u64()).unwrap_or(ctx.age_cap);
    for (i, snap) in beh.iter().enumerate() {
        let step = &snap["step"];
        ctx.stats.steps += 1;
        *ctx.stats.by_op.entry(step["op"].as_str().unwrap_or("?").to_string()).or_default() += 1;
        let ret = exec(&mut w, step).map_err(|e| match e.strip_prefix("window: ") {
            Some(m) => Viol { class: "replay:window".into(), what: format!("step {i} {step}: {m}") },
            None => Viol { class: "harness".into(), what: e },
        })?;
        if let (Some(r), Some(exp)) = (&ret, step.get("ret")) {
            if r != exp {
                return Err(Viol { class: "replay:ret".into(), what: format!("step {i} {step}: the call returned {r}, the spec says {exp}") });
            }
        }
        let real = w.project(C, ctx.hcap);
        if let Some(d) = state_diff(&real, snap) {
            return Err(Viol { class: "replay:state".into(), what: format!("after step {i} {step}: {d}") });
        }
        // coverage bookkeeping
        match step["op"].as_str().unwrap_or("") {
            "RetryFail" => if step["counted"].as_bool().unwrap_or(false) { ctx.stats.counted += 1 } else { ctx.stats.ignored += 1 },
            "SetPolicy" => if snap["list"].as_array().map(|l| l.len() >= 2).unwrap_or(false) { ctx.stats.reinstalls += 1 },
            _ => {}
        }
        for o in snap["objs"].as_array().unwrap() {
            ctx.stats.max_tries_seen = ctx.stats.max_tries_seen.max(o["tries"].as_u64().unwrap_or(0));
            ctx.stats.max_wsec = ctx.stats.max_wsec.max(o["wsec"].as_u64().unwrap_or(0));
        }
        if snap["objs"].as_array().unwrap().iter().any(|o| o["wait"].as_bool().unwrap() && snap["list"].as_array().unwrap().contains(&o["oid"])) {
            ctx.stats.probes_waiting += 1;
        }
        let mut joint = Vec::new();
        for o in snap["objs"].as_array().unwrap() {
            let listed = snap["list"].as_array().unwrap().contains(&o["oid"]);
            let k = format!("{}{}{}{}{}{}", if listed { "L" } else { "D" }, o["st"].as_str().unwrap(),
                            if o["h"].as_bool().unwrap() { "H" } else { "u" }, if o["wait"].as_bool().unwrap() { "W" } else { "-" },
                            if o["backup"].as_bool().unwrap() { "B" } else { "P" }, if o["avail"].as_bool().unwrap() { "a" } else { "x" });
            ctx.stats.per_obj.insert(k.clone());
            joint.push(k);
        }
        joint.sort();
        ctx.stats.joint.insert(format!("{}|{}", snap["policy"].as_str().unwrap(), joint.join(",")));
        let policy = snap["policy"].as_str().unwrap().to_string();
        *ctx.stats.by_policy.entry(policy.clone()).or_default() += 1;
        // probes
        for p in snap["probes"].as_array().unwrap() {
            let adm: Vec<i64> = p["adm"].as_array().unwrap().iter().map(|x| x.as_i64().unwrap()).collect();
            let key = p["key"].as_i64().unwrap();
            let sticky = p["sticky"].as_str().unwrap();
            if adm.len() > 1 {
                ctx.stats.probes_multi += 1;
            }
            let mut answers = BTreeSet::new();
            for rep in 0..ctx.reps {
                ctx.stats.probes += 1;
                // the keyed entry point for keyed and plain queries; the connecting entry points for plain and sticky ones
                let use_connect = !sticky.is_empty() || (key == NONE && rep % 2 == 1);
                let got = if use_connect {
                    let (res, oid, _addr) = w.connect(C, sticky);
                    match res {
                        "ok" => { w.dec(C, oid); oid }
                        "none" => NONE,
                        // an immediate connection error to a loopback address is the host's doing (no ports / descriptors
                        // left): the history is inconclusive, not a violation; the check fails as a tool error if it is frequent
                        other => return Err(Viol { class: "harness:connect".into(), what: format!("after step {i} {step}: connect reported {other} for a loopback address") }),
                    }
                } else {
                    w.keyed(C, if key == NONE { None } else { Some(ctx.keys[(key - 1) as usize]) })
                };
                answers.insert(got);
                let ok = if adm.is_empty() { got == NONE } else { adm.contains(&got) };
                if !ok {
                    return Err(Viol { class: "replay:select".into(), what: format!(
                        "after step {i} {step}: query key={key} sticky='{sticky}' ({}) answered object {got}, admissible per spec: {:?}; state {}",
                        if use_connect { "connect" } else { "keyed" }, adm, real) });
                }
            }
            // affinity: a function of (policy, key, eligible-set signature[, table basis])
            if key != NONE && sticky.is_empty() && (policy == "hrw" || policy == "maglev") {
                if answers.len() > 1 {
                    return Err(Viol { class: "replay:affinity".into(), what: format!("after step {i} {step}: key {key} got different backends in one state: {:?}", answers) });
                }
                let got = *answers.iter().next().unwrap();
                if got != NONE {
                    let addr = snap["objs"].as_array().unwrap().iter().find(|o| o["oid"] == json!(got)).map(|o| o["addr"].as_i64().unwrap()).unwrap_or(0);
                    let coarse = format!("{policy}|{key}|{}", canon(&snap["coarse"]));
                    let fine = format!("{coarse}|{}", snap["fine"]);
                    if let Some(prev) = ctx.aff_fine.insert(fine.clone(), addr) {
                        if prev != addr {
                            return Err(Viol { class: "replay:affinity".into(), what: format!(
                                "after step {i} {step}: key {key} over eligible set {} went to address {prev} before and to {addr} now ({fine})", snap["coarse"]) });
                        }
                    }
                    if let Some(prev) = ctx.aff_coarse.insert(coarse.clone(), addr) {
                        if prev != addr {
                            if policy == "maglev" && ctx.dev_maglev {
                                ctx.stats.dev_explained += 1;
                            } else {
                                return Err(Viol { class: "replay:affinity".into(), what: format!(
                                    "after step {i} {step}: key {key} over eligible set {} went to address {prev} before and to {addr} now", snap["coarse"]) });
                            }
                        }
                    }
                }
            }
        }
        let again = w.project(C, ctx.hcap);
        if let Some(d) = state_diff(&again, snap) {
            return Err(Viol { class: "replay:state".into(), what: format!("selection (and closing the connection again) changed the state after step {i} {step}: {d}") });
        }
    }
    Ok(())
}

fn main() {
    vh::util::quiet_panics();
    vh::c12kit::quiet_logs();
    let seed: u64 = arg("--seed", "1").parse().unwrap_or(1);
    let reps: u32 = arg("--reps", "4").parse().unwrap_or(4);
    let hcap: u32 = arg("--hcap", "2").parse().unwrap_or(2);
    let devs = arg("--deviations", "");
    let mut rng = Rng(seed ^ 0xC12);
    let mut ctx = Ctx {
        keys: vec![rng.next(), rng.next(), rng.next(), rng.next()],
        reps,
        hcap,
        max_tries: arg("--max-tries", "2").parse().unwrap_or(2),
        age_cap: arg("--age-cap", "4").parse().unwrap_or(4),
        dev_maglev: devs.split(',').any(|d| d == "MaglevRebuild"),
        aff_fine: BTreeMap::new(),
        aff_coarse: BTreeMap::new(),
        stats: Stats { probes: 0, probes_multi: 0, steps: 0, per_obj: BTreeSet::new(), joint: BTreeSet::new(), dev_explained: 0, by_policy: BTreeMap::new(), by_op: BTreeMap::new(),
                       counted: 0, ignored: 0, max_tries_seen: 0, max_wsec: 0, probes_waiting: 0, reinstalls: 0 },
    };
    let variant = rng.next();
    let mut histories = 0u64;
    let mut violations = 0u64;
    let mut samples = Vec::new();
    let slack = std::time::Duration::from_millis(arg("--slack-ms", "400").parse().unwrap_or(400));
    let mut slow_attempts = 0u64;
    for line in BufReader::new(std::io::stdin()).lines() {
        let line = line.expect("stdin");
        if !line.starts_with('[') {
            continue;
        }
        let beh: Vec<Value> = serde_json::from_str(&line).expect("behaviour line");
        histories += 1;
        let labels: Vec<Value> = beh.iter().map(|s| s["step"].clone()).collect();
        // a verdict only counts if the history ran within the slack (real time adds to every back-off age)
        let mut attempts = 0;
        let v = loop {
            attempts += 1;
            let t0 = std::time::Instant::now();
            let r = catch_unwind(AssertUnwindSafe(|| replay(&mut ctx, &beh, variant)));
            let took = t0.elapsed();
            if took > slack {
                slow_attempts += 1;
                if attempts < 3 {
                    continue;
                }
                break Some(Viol { class: "harness:slow".into(), what: format!("the history took {took:?} (> {slack:?}) three times: inconclusive") });
            }
            break match r {
                Ok(Ok(())) => None,
                Ok(Err(v)) => Some(v),
                Err(p) => Some(Viol { class: "panic".into(), what: format!("sozu panicked: {}", vh::util::panic_message(p)) }),
            };
        };
        if let Some(v) = v {
            violations += 1;
            if violations <= 50 {
                vh::util::emit(&json!({"kind":"violation","class":v.class,"detail":{"what":v.what,"history":labels,"behaviour":histories}}));
            }
        } else if samples.len() < 2 {
            samples.push(format!("history {histories}: {}", labels.iter().take(6).map(|l| l.to_string()).collect::<Vec<_>>().join(" ")));
        }
    }
    vh::util::emit(&json!({"kind":"summary","histories":histories,"steps":ctx.stats.steps,"probes":ctx.stats.probes,
        "probes_with_several_admissible":ctx.stats.probes_multi,"violations":violations,
        "per_backend_state_combinations":ctx.stats.per_obj.len(),"joint_state_combinations":ctx.stats.joint.len(),
        "affinity_points":ctx.aff_fine.len(),"deviation_explained":ctx.stats.dev_explained,
        "by_policy":ctx.stats.by_policy,"by_op":ctx.stats.by_op,"slow_attempts":slow_attempts,
        "backoff":{"counted_failures":ctx.stats.counted, "ignored_failures":ctx.stats.ignored, "max_tries_seen":ctx.stats.max_tries_seen,
                   "max_window_seen":ctx.stats.max_wsec, "selections_with_a_backend_in_its_window":ctx.stats.probes_waiting,
                   "reinstalls_on_populated_cluster":ctx.stats.reinstalls},
        "samples":samples}));
}
