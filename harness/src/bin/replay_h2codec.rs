//! S->I replayer for spec/H2Codec.tla (property C15, decoder part).
//!
//! stdin: one JSON object {"decode": [{"h": header fields, "pad": byte, "out": outcome}...],
//!                         "roundtrip": [{"c": case, "expect": fields}...]} printed by TLC.
//! For every decode case `--variants` byte strings are built (header fields as enumerated by TLC, padding byte
//! as the spec prescribes, every other payload byte seeded random) and fed to the real
//! `sozu_lib::protocol::mux::parser::{frame_header, frame_body}` in-process. The outcome class must equal the
//! spec's `Decode`, and on success exactly 9 + len bytes must have been consumed. A panic (debug assertions
//! are on) is a violation. Round trip: `serializer::gen_*` (cfg(sozu_verif) re-export) then the decoder.
//!
//! stdout: ndjson violations + summary.

use std::io::Read;
use std::panic::{AssertUnwindSafe, catch_unwind};

use rand::rngs::StdRng;
use rand::{RngExt, SeedableRng};
use serde_json::{Value, json};
use sozu_lib::protocol::mux::parser::{self, Frame, FrameHeader, FrameType, H2Error, ParserErrorKind};
use sozu_lib::protocol::mux::verif_reexport as ser;
use vh::util::{emit, panic_message, quiet_panics};

fn sid_val(c: &str) -> u32 {
    match c { "zero" => 0, "one" => 1, "two" => 2, "max" => 0x7fff_ffff, "rbit_one" => 0x8000_0001, "rbit_zero" => 0x8000_0000, _ => 3 }
}

fn classify<T>(r: &Result<T, nom::Err<parser::ParserError>>) -> &'static str {
    match r {
        Ok(_) => "ok",
        Err(nom::Err::Failure(e)) | Err(nom::Err::Error(e)) => match e.kind {
            ParserErrorKind::H2(H2Error::FrameSizeError) => "FSE",
            ParserErrorKind::H2(H2Error::ProtocolError) => "PE",
            ParserErrorKind::H2(_) => "other-h2",
            ParserErrorKind::Nom(_) => "short",
        },
        Err(nom::Err::Incomplete(_)) => "short",
    }
}

/// returns (outcome, consumed) of header + body decoding of `bytes`
fn decode(bytes: &[u8]) -> (String, usize, Option<FrameHeader>) {
    let rh = parser::frame_header(bytes, 16_384);
    let c = classify(&rh);
    let (rest, hdr) = match rh { Ok(x) => x, Err(_) => return (c.to_string(), 0, None) };
    let used_h = bytes.len() - rest.len();
    if used_h != 9 { return (format!("header-consumed-{used_h}"), used_h, Some(hdr)); }
    let rb = parser::frame_body(rest, &hdr);
    let c = classify(&rb);
    match rb {
        Ok((rest2, _)) => ("ok".to_string(), 9 + rest.len() - rest2.len(), Some(hdr)),
        Err(_) => (c.to_string(), 9, Some(hdr)),
    }
}

fn main() {
    quiet_panics();
    let args: Vec<String> = std::env::args().collect();
    let arg = |name: &str, d: u64| args.iter().position(|a| a == name).and_then(|i| args.get(i + 1)).and_then(|v| v.parse().ok()).unwrap_or(d);
    let seed = arg("--seed", 1);
    let variants = arg("--variants", 2);
    let mut input = String::new();
    std::io::stdin().read_to_string(&mut input).expect("stdin");
    let v: Value = serde_json::from_str(&input).expect("json");
    let mut rng = StdRng::seed_from_u64(seed);
    let mut n_eval = 0u64;
    let mut n_viol = 0u64;
    let mut classes = std::collections::BTreeMap::<String, u64>::new();
    for case in v["decode"].as_array().cloned().unwrap_or_default() {
        let h = &case["h"];
        let len = h["len"].as_u64().unwrap() as usize;
        let ty = h["ty"].as_u64().unwrap() as u8;
        let fl = h["fl"].as_u64().unwrap() as u8;
        let sid = sid_val(h["sid"].as_str().unwrap());
        let avail = match h["av"].as_str().unwrap() { "exact" => len, "short" => len.saturating_sub(1), _ => len + 5 };
        let pad = case["pad"].as_u64().unwrap() as u8;
        let want = case["out"].as_str().unwrap();
        for _ in 0..variants {
            let mut b = Vec::with_capacity(9 + avail);
            b.extend_from_slice(&[(len >> 16) as u8, (len >> 8) as u8, len as u8, ty, fl]);
            b.extend_from_slice(&sid.to_be_bytes());
            for _ in 0..avail { b.push(rng.random::<u8>()); }
            if (ty == 0 || ty == 1) && fl & 0x8 != 0 && avail >= 1 { b[9] = pad; }
            n_eval += 1;
            let got = catch_unwind(AssertUnwindSafe(|| decode(&b)));
            let (out, consumed) = match got {
                Ok((o, c, hdr)) => {
                    // header fields must come back as written (reserved bit masked)
                    if let Some(hd) = hdr {
                        if hd.payload_len as usize != len || hd.flags != fl || hd.stream_id != (sid & 0x7fff_ffff) {
                            n_viol += 1;
                            emit(&json!({"kind": "violation", "class": "decoder:header-fields", "detail": {"case": case, "decoded": format!("{hd:?}")}}));
                        }
                    }
                    (o, c)
                }
                Err(e) => (format!("panic: {}", panic_message(e)), 0),
            };
            *classes.entry(format!("{ty}:{want}")).or_insert(0) += 1;
            let consumed_ok = out != "ok" || consumed == 9 + len;
            if out != want || !consumed_ok {
                n_viol += 1;
                if n_viol <= 50 {
                    emit(&json!({"kind": "violation", "class": format!("decoder:{}:{}", want, out.split(':').next().unwrap_or("")),
                                 "detail": {"case": case, "got": out, "consumed": consumed, "declared": 9 + len, "bytes_head": &b[..b.len().min(24)]}}));
                }
            }
        }
    }
    // truncated headers: fewer than 9 bytes never decode
    for n in 0..9usize {
        let b: Vec<u8> = (0..n).map(|_| rng.random::<u8>() & 0x3f).collect();
        n_eval += 1;
        let got = catch_unwind(AssertUnwindSafe(|| parser::frame_header(&b, 16_384).is_ok()));
        if !matches!(got, Ok(false)) {
            n_viol += 1;
            emit(&json!({"kind": "violation", "class": "decoder:truncated-header", "detail": {"bytes": b, "got": format!("{got:?}")}}));
        }
    }
    // serializer round trip
    let mut n_rt = 0u64;
    for rt in v["roundtrip"].as_array().cloned().unwrap_or_default() {
        let c = &rt["c"];
        let e = &rt["expect"];
        let fnn = c["fn"].as_str().unwrap();
        let sid = sid_val(c["sid"].as_str().unwrap());
        let a = c["a"].as_u64().unwrap();
        let want_sid = sid_val(e["sid"].as_str().unwrap());
        n_rt += 1;
        let r = catch_unwind(AssertUnwindSafe(|| -> Result<(), String> {
            let mut buf = vec![0u8; 256];
            let size = match fnn {
                "rst" => ser::gen_rst_stream(&mut buf, sid, H2Error::try_from(a as u32).map_err(|_| "code")?).map(|x| x.1),
                "wu" => ser::gen_window_update(&mut buf, sid, a as u32).map(|x| x.1),
                "goaway" => ser::gen_goaway(&mut buf, sid, H2Error::try_from(a as u32).map_err(|_| "code")?).map(|x| x.1),
                "ping" => ser::gen_ping_acknowledgement(&mut buf, b"12345678").map(|x| x.1),
                "settings" => ser::gen_settings(&mut buf, &ser::H2Settings::default()).map(|x| x.1),
                _ => {
                    let ft = match a { 0 => FrameType::Data, 1 => FrameType::Headers, 2 => FrameType::Priority, 3 => FrameType::RstStream, 4 => FrameType::Settings,
                                       5 => FrameType::PushPromise, 6 => FrameType::Ping, 7 => FrameType::GoAway, 8 => FrameType::WindowUpdate, 9 => FrameType::Continuation, _ => FrameType::PriorityUpdate };
                    ser::gen_frame_header(&mut buf, &FrameHeader { payload_len: 7, frame_type: ft, flags: 5, stream_id: sid }).map(|x| x.1)
                }
            }.map_err(|e| format!("serializer error {e:?}"))?;
            let bytes = &buf[..size];
            if fnn == "header" {
                if size != 9 { return Err(format!("header size {size}")); }
                let r = parser::frame_header(bytes, 16_384);
                let got = classify(&r);
                if got != e["out"].as_str().unwrap() { return Err(format!("header outcome {got}")); }
                if let Ok((_, h)) = r {
                    if h.payload_len != 7 || h.flags != 5 || h.stream_id != want_sid || ser::serialize_frame_type(&h.frame_type) as u64 != a { return Err(format!("header fields {h:?}")); }
                }
                return Ok(());
            }
            let (rest, h) = parser::frame_header(bytes, 16_384).map_err(|e| format!("header: {e:?}"))?;
            let (rest2, f) = parser::frame_body(rest, &h).map_err(|e| format!("body: {e:?}"))?;
            if !rest2.is_empty() || size != 9 + h.payload_len as usize { return Err(format!("consumed {} of {}", size - rest2.len(), size)); }
            match (fnn, f) {
                ("rst", Frame::RstStream(r)) if r.stream_id == want_sid && r.error_code as u64 == a => Ok(()),
                ("wu", Frame::WindowUpdate(w)) if w.stream_id == want_sid && w.increment as u64 == a => Ok(()),
                ("goaway", Frame::GoAway(g)) if g.last_stream_id == want_sid && g.error_code as u64 == a && h.stream_id == 0 => Ok(()),
                ("ping", Frame::Ping(p)) if p.ack && &p.payload == b"12345678" => Ok(()),
                ("settings", Frame::Settings(s)) if !s.ack && s.settings.len() as u32 == parser::SETTINGS_COUNT => Ok(()),
                (_, f) => Err(format!("decoded {f:?}")),
            }
        }));
        let err = match r { Ok(Ok(())) => None, Ok(Err(e)) => Some(e), Err(p) => Some(format!("panic: {}", panic_message(p))) };
        if let Some(e) = err {
            n_viol += 1;
            emit(&json!({"kind": "violation", "class": format!("roundtrip:{fnn}"), "detail": {"case": rt, "error": e}}));
        }
    }
    emit(&json!({"kind": "summary", "decode_evaluations": n_eval, "roundtrips": n_rt, "violations": n_viol, "classes": classes.len()}));
}
