//! C01 scripted peers: a generic non-blocking connection loop with a progress watchdog, and the
//! HTTP/1.1 client / backend machines. (HTTP/2 machines: c01h2.rs.)
#![allow(dead_code)]

use std::collections::HashMap;
use std::sync::atomic::{AtomicU64, Ordering};
use std::sync::{Arc, Mutex};
use std::time::{Duration, Instant};

use crate::kit::*;

pub struct Shared {
    pub log: Arc<Log>,
    pub reg: Registry,
    pub mon: Arc<IdleMon>,
    /// runs in which some peer could not tell a stall from slowness
    pub inconclusive: Mutex<Vec<u64>>,
    /// backend-side message handlers still at work, per run
    pub active: Mutex<HashMap<u64, i64>>,
    pub backend_conns: AtomicU64,
    /// HTTP/2 frames the harness peers put on the wire, per run (a legitimate iteration-budget kill needs thousands)
    pub frames: Mutex<HashMap<u64, u64>>,
}
impl Shared {
    pub fn new(log: Arc<Log>, reg: Registry, mon: Arc<IdleMon>) -> Arc<Shared> {
        Arc::new(Shared { log, reg, mon, inconclusive: Mutex::new(Vec::new()), active: Mutex::new(HashMap::new()), backend_conns: AtomicU64::new(0), frames: Mutex::new(HashMap::new()) })
    }
    pub fn plan(&self, run: u64) -> Option<Arc<RunPlan>> {
        self.reg.lock().unwrap().get(&run).cloned()
    }
    pub fn activity(&self, run: u64, delta: i64) {
        *self.active.lock().unwrap().entry(run).or_insert(0) += delta;
    }
    pub fn active_of(&self, run: u64) -> i64 {
        *self.active.lock().unwrap().get(&run).unwrap_or(&0)
    }
    pub fn add_frames(&self, run: u64, n: u64) {
        *self.frames.lock().unwrap().entry(run).or_insert(0) += n;
    }
    pub fn take_frames(&self, run: u64) -> u64 {
        self.frames.lock().unwrap().remove(&run).unwrap_or(0)
    }
    pub fn mark_inconclusive(&self, run: u64) {
        self.inconclusive.lock().unwrap().push(run);
    }
}

#[derive(Debug, PartialEq, Clone, Copy)]
pub enum CloseAction {
    None,
    ShutdownWr,
    Abort,
}

pub trait Machine {
    fn input(&mut self, data: &[u8]);
    fn eof(&mut self, why: &str);
    fn output(&mut self) -> Option<Seg>;
    fn wrote(&mut self, owner: usize, off: u64, len: u64);
    /// every successful write, payload or not
    fn wrote_wire(&mut self, _n: usize) {}
    fn read_plan(&self) -> (usize, u64);
    fn wchunk(&self) -> usize;
    fn write_blocked(&mut self) -> Option<Duration>;
    /// true while the peer owes us something (or we owe bytes we cannot get rid of)
    fn expecting(&self) -> bool;
    fn finished(&self) -> bool;
    fn stall(&mut self, why: &str);
    fn inconclusive(&mut self);
    fn wants_close(&mut self) -> CloseAction;
    /// earliest instant at which the machine wants to be polled again (grant timers)
    fn next_timer(&self) -> Option<Instant> {
        None
    }
    /// the runs whose messages this connection carries (stall verdicts look at the whole run, see kit::runs_moved_within)
    fn runs(&self) -> Vec<u64> {
        Vec::new()
    }
}

#[derive(Debug, PartialEq, Clone, Copy)]
pub enum Outcome {
    Finished,
    Closed,
    Stalled,
    Inconclusive,
}

pub fn run_conn(io: &mut dyn Io, m: &mut dyn Machine, mon: Arc<IdleMon>) -> Outcome {
    let mut watch = Watch::new(mon);
    let mut cur: Option<(Seg, usize)> = None;
    let mut rbuf = vec![0u8; 256 * 1024];
    let mut next_read = Instant::now();
    let mut closed_wr = false;
    let mut maybe_buffered = false;
    loop {
        if m.finished() && cur.is_none() && io.flush() {
            return Outcome::Finished;
        }
        let mut progressed = false;
        let mut own_wait: Option<Duration> = None;
        // ---- write side
        let wblocked = m.write_blocked();
        if let Some(d) = wblocked {
            own_wait = Some(d);
        }
        if !closed_wr && wblocked.is_none() {
            if cur.is_none() {
                cur = m.output().map(|s| (s, 0));
            }
            if let Some((seg, pos)) = cur.as_mut() {
                let end = (*pos + m.wchunk().max(1)).min(seg.bytes.len());
                match io.wr(&seg.bytes[*pos..end]) {
                    IoRes::N(0) => {}
                    IoRes::N(n) => {
                        let (off, len) = seg.payload_in(*pos, *pos + n);
                        let owner = seg.owner;
                        *pos += n;
                        let done = *pos >= seg.bytes.len();
                        if done {
                            cur = None;
                        }
                        if len > 0 {
                            m.wrote(owner, off, len);
                        } else if owner != usize::MAX && done {
                            m.wrote(owner, 0, 0);
                        }
                        m.wrote_wire(n);
                        progressed = true;
                    }
                    IoRes::Err(e) => {
                        m.eof(&format!("write error {e}"));
                        return Outcome::Closed;
                    }
                    _ => {}
                }
            }
        }
        if !io.flush() {
            // TLS bytes pending below us: keep pushing
        }
        if cur.is_none() {
            match m.wants_close() {
                CloseAction::ShutdownWr if !closed_wr => {
                    io.flush();
                    io.shutdown_wr();
                    closed_wr = true;
                    progressed = true;
                }
                CloseAction::Abort => {
                    io.abort();
                    m.eof("aborted by the harness");
                    return Outcome::Closed;
                }
                _ => {}
            }
        }
        // ---- read side
        let (rchunk, rdelay) = m.read_plan();
        let now = Instant::now();
        let mut read_ready = now >= next_read;
        if read_ready && rchunk > 0 {
            let want = rchunk.min(rbuf.len());
            match io.rd(&mut rbuf[..want]) {
                IoRes::N(n) => {
                    maybe_buffered = n == want;
                    m.input(&rbuf[..n]);
                    progressed = true;
                    if rdelay > 0 {
                        next_read = Instant::now() + Duration::from_micros(rdelay);
                        read_ready = false;
                    }
                }
                IoRes::WouldBlock => {
                    maybe_buffered = false;
                }
                IoRes::Eof => {
                    m.eof("eof");
                    return if m.finished() { Outcome::Finished } else { Outcome::Closed };
                }
                IoRes::Err(e) => {
                    m.eof(&format!("read error {e}"));
                    return if m.finished() { Outcome::Finished } else { Outcome::Closed };
                }
            }
        }
        if rchunk == 0 {
            // the machine does not want to read now (full-duplex hold): what is buffered stays where it is
            maybe_buffered = false;
        }
        if !read_ready {
            let d = next_read.saturating_duration_since(Instant::now());
            own_wait = Some(own_wait.map_or(d, |o| o.min(d)));
        }
        if let Some(t) = m.next_timer() {
            let d = t.saturating_duration_since(Instant::now());
            own_wait = Some(own_wait.map_or(d, |o| o.min(d)));
        }
        if progressed {
            watch.progress();
            continue;
        }
        if maybe_buffered && read_ready {
            continue;
        }
        // ---- nothing moved: wait
        let want_out = (cur.is_some() || !io.flush()) && wblocked.is_none() && !closed_wr;
        let ms = match own_wait {
            Some(d) => (d.as_millis() as i32).clamp(1, 250),
            None => 250,
        };
        let (rin, rout) = wait_fd(io.fd(), read_ready && rchunk > 0, want_out, ms);
        if rin || rout || own_wait.is_some() {
            // our own pacing, or the socket became ready: not a fruitless wait
            if own_wait.is_some() && !(rin || rout) && m.expecting() && watch.last.elapsed() > HARD_CAP {
                m.inconclusive();
                return Outcome::Inconclusive;
            }
            continue;
        }
        if !m.expecting() {
            // idle connection (keep-alive between requests): nothing is owed, just wait
            watch.progress();
            continue;
        }
        match watch.fruitless() {
            Verdict::Wait => {}
            Verdict::Stall => {
                // quiet here, but a body of the same run still moves on another connection: slowness, keep waiting
                if runs_moved_within(&m.runs(), STALL_AFTER) {
                    if watch.last.elapsed() > HARD_CAP * 4 {
                        m.inconclusive();
                        return Outcome::Inconclusive;
                    }
                    continue;
                }
                m.stall("no byte moved for 12 s on any connection of the run, worker asleep");
                return Outcome::Stalled;
            }
            Verdict::Inconclusive => {
                m.inconclusive();
                return Outcome::Inconclusive;
            }
        }
    }
}

// ------------------------------------------------------------------------------------------------
// HTTP/1.1 sender of one message

pub struct H1Send {
    pub rec: SendRec,
    head: Option<Vec<u8>>,
    body: H1BodyGen,
    pub plan: MsgPlan,
    pub pace: Pace,
    /// every byte of the message (terminator included) was written
    pub done: bool,
    pub aborted: bool,
    gen_done: bool,
    wire_gen: u64,
    wire_written: u64,
}
impl H1Send {
    pub fn new(key: MsgKey, seed: u64, head: Vec<u8>, plan: &MsgPlan, log: Arc<Log>, who: &'static str, owner: usize) -> H1Send {
        let mut body = H1BodyGen::new(plan.framing, plan.size, Code::new(seed, key.stream, key.dir), mix(seed ^ key.stream as u64 ^ 0xc4), owner);
        body.small_chunks = plan.small_chunks;
        H1Send { rec: SendRec::new(key, log, who), head: Some(head), body, plan: plan.clone(), pace: Pace::new(plan.wpause_every, plan.wpause_us), done: false, aborted: false,
                 gen_done: false, wire_gen: 0, wire_written: 0 }
    }
    fn body_exhausted(&self) -> bool {
        match self.plan.framing {
            Framing::Chunked => self.body.is_finished(),
            _ => self.body.off >= self.body.size,
        }
    }
    pub fn next(&mut self) -> Option<Seg> {
        if self.done || self.aborted || self.gen_done {
            return None;
        }
        let seg = if let Some(h) = self.head.take() {
            Some(Seg::meta(h))
        } else {
            if let Some(a) = self.plan.abort_at {
                if self.body.off >= a {
                    self.aborted = true;
                    self.rec.end("abort", "harness aborts the message here");
                    return None;
                }
            }
            match self.body.next() {
                Some(mut s) => {
                    if let Some(a) = self.plan.abort_at {
                        // cut the segment at the abort offset
                        if s.pay_len > 0 && s.pay_off + s.pay_len as u64 > a {
                            let keep = (a - s.pay_off) as usize;
                            s.bytes.truncate(s.pay_start + keep);
                            s.pay_len = keep;
                            self.body.off = a;
                        }
                    }
                    Some(s)
                }
                None => None,
            }
        };
        if let Some(s) = seg.as_ref() {
            self.wire_gen += s.bytes.len() as u64;
        }
        if self.plan.abort_at.is_none() && self.body_exhausted() {
            self.gen_done = true;
        }
        if seg.is_none() {
            self.check_done();
        }
        seg
    }
    fn check_done(&mut self) {
        if self.gen_done && !self.done && self.wire_written >= self.wire_gen {
            self.done = true;
            if self.plan.framing != Framing::Close {
                // the terminator (declared length reached / last-chunk) is on the wire
                self.rec.end("clean", "");
            }
        }
    }
    pub fn wrote(&mut self, off: u64, len: u64) {
        if len > 0 {
            self.rec.sent(off, len);
            self.pace.wrote(len);
        }
    }
    pub fn wrote_wire(&mut self, n: usize) {
        self.wire_written += n as u64;
        self.check_done();
    }
}

pub fn response_head(plan: &MsgPlan, run: u64, idx: u32) -> Vec<u8> {
    let mut h = format!("HTTP/1.1 200 OK\r\nX-Run: {run}-{idx}\r\nContent-Type: application/octet-stream\r\n");
    match plan.framing {
        Framing::Cl => h.push_str(&format!("Content-Length: {}\r\n", plan.size)),
        Framing::Chunked => h.push_str("Transfer-Encoding: chunked\r\n"),
        Framing::Close => h.push_str("Connection: close\r\n"),
    }
    h.push_str("\r\n");
    h.into_bytes()
}

pub fn request_head(plan: &MsgPlan, path: &str, last: bool) -> Vec<u8> {
    let method = if plan.size == 0 && plan.framing == Framing::Cl && !plan.h2_cl { "GET" } else { "POST" };
    let mut h = format!("{method} {path} HTTP/1.1\r\nHost: localhost\r\n");
    if method == "POST" {
        match plan.framing {
            Framing::Chunked => h.push_str("Transfer-Encoding: chunked\r\n"),
            _ => h.push_str(&format!("Content-Length: {}\r\n", plan.size)),
        }
    }
    if last {
        // keep the connection: the harness closes it itself
    }
    h.push_str("\r\n");
    h.into_bytes()
}

// ------------------------------------------------------------------------------------------------
// HTTP/1.1 backend connection: request* ; each request is looked up in the registry by its path

pub struct H1Backend {
    sh: Arc<Shared>,
    dec: H1Dec,
    recv: Option<RecvRec>,
    send: Option<H1Send>,
    cur_run: Option<u64>,
    rplan: (usize, u64),
    pending_input: Vec<u8>,
    close_after: bool,
    closing: CloseAction,
    pub fd: i32,
    dead: bool,
    unknown_requests: u64,
}

impl H1Backend {
    pub fn new(sh: Arc<Shared>, fd: i32) -> H1Backend {
        H1Backend { sh, dec: H1Dec::new(false), recv: None, send: None, cur_run: None, rplan: (65536, 0), pending_input: Vec::new(), close_after: false,
                    closing: CloseAction::None, fd, dead: false, unknown_requests: 0 }
    }
    fn release(&mut self) {
        if let Some(r) = self.cur_run.take() {
            self.sh.activity(r, -1);
        }
    }
    fn feed(&mut self, data: &[u8]) {
        let mut data = data;
        while !data.is_empty() && !self.dead {
            if self.send.is_some() {
                // bytes while we answer: a pipelined request; keep them for later
                self.pending_input.extend_from_slice(data);
                return;
            }
            let mut head: Option<H1Head> = None;
            let mut ended = false;
            let mut err: Option<String> = None;
            let recv = &mut self.recv;
            let mut bodies: Vec<(usize, usize)> = Vec::new();
            let base = data.as_ptr() as usize;
            let used = self.dec.feed(data, &mut |o| match o {
                H1Out::Head(h) => head = Some(h.clone()),
                H1Out::Body(b) => {
                    if let Some(r) = recv.as_mut() {
                        r.data(b)
                    } else {
                        bodies.push((b.as_ptr() as usize - base, b.len()));
                    }
                }
                H1Out::End => ended = true,
                H1Out::Error(e) => err = Some(e),
            });
            if let Some(h) = head {
                match parse_path(h.path()).and_then(|(r, s)| self.sh.plan(r).map(|p| (p, r, s))) {
                    Some((p, r, s)) if (s as usize) < p.streams.len() => {
                        let sp = &p.streams[s as usize];
                        self.cur_run = Some(r);
                        self.sh.activity(r, 1);
                        let mut rec = RecvRec::new(MsgKey { run: r, stream: s, dir: 0 }, p.seed, self.sh.log.clone(), "Backend");
                        for (o, l) in bodies.drain(..) {
                            rec.data(&data[o..o + l]);
                        }
                        self.recv = Some(rec);
                        self.rplan = (sp.backend_read.rchunk, sp.backend_read.rdelay_us);
                        if let Some(n) = sp.backend_read.rcvbuf {
                            set_sockbuf(self.fd, Some(n), None);
                        }
                    }
                    _ => {
                        self.unknown_requests += 1;
                    }
                }
            }
            data = &data[used..];
            if let Some(e) = err {
                if let Some(r) = self.recv.as_mut() {
                    r.end("abort", &e);
                }
                self.recv = None;
                self.release();
                self.dead = true;
                self.closing = CloseAction::Abort;
                return;
            }
            if ended {
                let mut answered = false;
                if let Some(mut r) = self.recv.take() {
                    r.end("clean", "");
                    if let Some(p) = self.sh.plan(r.key.run) {
                        let sp = &p.streams[r.key.stream as usize];
                        let key = MsgKey { run: r.key.run, stream: r.key.stream, dir: 1 };
                        self.close_after = sp.resp.framing == Framing::Close;
                        self.send = Some(H1Send::new(key, p.seed, response_head(&sp.resp, key.run, key.stream), &sp.resp, self.sh.log.clone(), "Backend", 0));
                        answered = true;
                    }
                }
                if !answered {
                    // a request we know nothing about (probe / retry after the run was forgotten): answer minimal
                    let plan = MsgPlan { size: 0, framing: Framing::Cl, h2_cl: false, h2_pad: false, h2_sep_end: false, wchunk: 65536, wpause_every: 0, wpause_us: 0, small_chunks: false, abort_at: None };
                    let mut s = H1Send::new(MsgKey { run: 0, stream: 0, dir: 1 }, 0, b"HTTP/1.1 200 OK\r\nContent-Length: 0\r\n\r\n".to_vec(), &plan, Log::new(), "Backend", 0);
                    s.rec.ended = true;
                    self.send = Some(s);
                }
                self.dec = H1Dec::new(false);
                self.rplan = (65536, 0);
            }
        }
    }
}

impl Machine for H1Backend {
    fn input(&mut self, data: &[u8]) {
        self.feed(data);
    }
    fn eof(&mut self, why: &str) {
        if let Some(r) = self.recv.as_mut() {
            r.end("abort", &format!("connection ended inside the request: {why}"));
        }
        self.recv = None;
        if let Some(s) = self.send.as_mut() {
            if !s.done && !s.aborted {
                s.rec.end("abort", &format!("connection ended while the backend was answering: {why}"));
            }
        }
        self.send = None;
        self.release();
        self.dead = true;
    }
    fn output(&mut self) -> Option<Seg> {
        let s = self.send.as_mut()?;
        match s.next() {
            Some(seg) => Some(seg),
            None => {
                if !s.done && !s.aborted {
                    return None; // the last segment is still being written
                }
                let aborted = s.aborted;
                let close = self.close_after;
                if close && !aborted {
                    // close-delimited: the end of the message is the FIN
                    self.closing = CloseAction::ShutdownWr;
                    s.rec.flush();
                } else if aborted {
                    self.closing = CloseAction::Abort;
                }
                if !close || aborted {
                    self.send = None;
                    self.release();
                    // pipelined bytes received meanwhile
                    if !self.pending_input.is_empty() && !aborted {
                        let p = std::mem::take(&mut self.pending_input);
                        self.feed(&p);
                    }
                }
                None
            }
        }
    }
    fn wrote(&mut self, _owner: usize, off: u64, len: u64) {
        if let Some(s) = self.send.as_mut() {
            s.wrote(off, len);
        }
    }
    fn wrote_wire(&mut self, n: usize) {
        if let Some(s) = self.send.as_mut() {
            s.wrote_wire(n);
        }
    }
    fn read_plan(&self) -> (usize, u64) {
        self.rplan
    }
    fn wchunk(&self) -> usize {
        self.send.as_ref().map(|s| s.plan.wchunk).unwrap_or(65536)
    }
    fn write_blocked(&mut self) -> Option<Duration> {
        self.send.as_mut().and_then(|s| s.pace.blocked())
    }
    fn expecting(&self) -> bool {
        self.recv.is_some() || self.send.as_ref().map(|s| !s.done && !s.aborted).unwrap_or(false)
    }
    fn finished(&self) -> bool {
        self.dead
    }
    fn stall(&mut self, why: &str) {
        if let Some(r) = self.recv.as_mut() {
            r.stall(why);
        }
        self.recv = None;
        if let Some(s) = self.send.as_mut() {
            if !s.done && !s.aborted {
                s.rec.flush();
                let k = s.rec.key;
                self.sh.log.push(k, 0, serde_json::json!({"ev":"SendStall","k":"sendstall","run":k.run,"s":k.stream,"d":dir_name(k.dir),"at":s.rec.sent,"why":why}));
            }
        }
        self.send = None;
        self.release();
        self.dead = true;
    }
    fn inconclusive(&mut self) {
        if let Some(r) = self.recv.as_ref() {
            self.sh.mark_inconclusive(r.key.run);
        }
        if let Some(s) = self.send.as_ref() {
            self.sh.mark_inconclusive(s.rec.key.run);
        }
        self.release();
        self.dead = true;
    }
    fn runs(&self) -> Vec<u64> {
        self.cur_run.into_iter().collect()
    }
    fn wants_close(&mut self) -> CloseAction {
        let c = self.closing;
        if c == CloseAction::ShutdownWr {
            // the FIN is the clean end of a close-delimited response
            if let Some(s) = self.send.as_mut() {
                s.rec.end("clean", "fin");
            }
            self.send = None;
            self.release();
            self.closing = CloseAction::None;
        }
        c
    }
}

// ------------------------------------------------------------------------------------------------
// HTTP/1.1 client connection: the streams of the plan are sent one after the other (keep-alive)

pub struct H1Client {
    sh: Arc<Shared>,
    plan: Arc<RunPlan>,
    cluster: String,
    cur: usize,
    send: Option<H1Send>,
    dec: H1Dec,
    recv: Option<RecvRec>,
    dead: bool,
    pub foreign_answers: Vec<(u32, u16)>,
    closing: CloseAction,
    req_done: bool,
}

impl H1Client {
    pub fn new(sh: Arc<Shared>, plan: Arc<RunPlan>, cluster: &str) -> H1Client {
        let mut c = H1Client { sh, plan, cluster: cluster.to_string(), cur: 0, send: None, dec: H1Dec::new(true), recv: None, dead: false, foreign_answers: Vec::new(),
                               closing: CloseAction::None, req_done: false };
        c.start_stream();
        c
    }
    fn start_stream(&mut self) {
        if self.cur >= self.plan.streams.len() {
            self.dead = true;
            return;
        }
        let sp = &self.plan.streams[self.cur];
        let path = format!("/{}/r{}/s{}", self.cluster, self.plan.run, sp.idx);
        let key = MsgKey { run: self.plan.run, stream: sp.idx, dir: 0 };
        let last = self.cur + 1 == self.plan.streams.len();
        self.send = Some(H1Send::new(key, self.plan.seed, request_head(&sp.req, &path, last), &sp.req, self.sh.log.clone(), "Client", 0));
        self.recv = Some(RecvRec::new(MsgKey { run: self.plan.run, stream: sp.idx, dir: 1 }, self.plan.seed, self.sh.log.clone(), "Client"));
        self.dec = H1Dec::new(true);
        self.req_done = false;
    }
}

impl Machine for H1Client {
    fn input(&mut self, data: &[u8]) {
        let mut data = data;
        while !data.is_empty() && !self.dead {
            let mut ended = false;
            let mut err: Option<String> = None;
            let mut status: Option<(u16, Option<String>)> = None;
            let recv = &mut self.recv;
            let want_xrun = format!("{}-{}", self.plan.run, self.plan.streams[self.cur].idx);
            let mut foreign = false;
            let used = self.dec.feed(data, &mut |o| match o {
                H1Out::Head(h) => {
                    if std::env::var("C01_DUMP").is_ok() {
                        eprintln!("CLIENT GOT HEAD: {:?}", h);
                    }
                    foreign = h.status() != 200 || h.get("x-run") != Some(want_xrun.as_str());
                    status = Some((h.status(), h.get("x-run").map(|s| s.to_string())))
                }
                H1Out::Body(b) => {
                    if let (Some(r), false) = (recv.as_mut(), foreign) {
                        r.data(b)
                    }
                }
                H1Out::End => ended = true,
                H1Out::Error(e) => err = Some(e),
            });
            data = &data[used..];
            if let Some((code, xrun)) = status {
                let idx = self.plan.streams[self.cur].idx;
                let want = format!("{}-{}", self.plan.run, idx);
                if code != 200 || xrun.as_deref() != Some(want.as_str()) {
                    // an answer that does not come from the backend's response to this request
                    self.foreign_answers.push((idx, code));
                    if let Some(r) = self.recv.as_mut() {
                        r.end("abort", &format!("answer {code} x-run={xrun:?} instead of the backend's response"));
                    }
                    self.recv = None;
                    if let Some(s) = self.send.as_mut() {
                        if !s.done && !s.aborted {
                            s.rec.end("abort", "client gives up after a foreign answer");
                        }
                    }
                    self.send = None;
                    self.dead = true;
                    self.closing = CloseAction::Abort;
                    return;
                }
            }
            if let Some(e) = err {
                if let Some(r) = self.recv.as_mut() {
                    r.end("abort", &e);
                }
                self.recv = None;
                self.dead = true;
                self.closing = CloseAction::Abort;
                return;
            }
            if ended {
                if let Some(r) = self.recv.as_mut() {
                    r.end("clean", "");
                }
                self.recv = None;
                if self.send.as_ref().map(|s| s.done || s.aborted).unwrap_or(true) {
                    self.cur += 1;
                    self.start_stream();
                } else {
                    // response complete before the request was: stop
                    if let Some(s) = self.send.as_mut() {
                        s.rec.end("abort", "response ended before the request was sent completely");
                    }
                    self.dead = true;
                    self.closing = CloseAction::Abort;
                }
            }
        }
    }
    fn eof(&mut self, why: &str) {
        let mut e: Option<String> = None;
        let mut ended = false;
        if self.recv.is_some() {
            self.dec.eof(&mut |o| match o {
                H1Out::End => ended = true,
                H1Out::Error(x) => e = Some(x),
                _ => {}
            });
        }
        if let Some(r) = self.recv.as_mut() {
            if ended {
                r.end("clean", "fin");
            } else {
                r.end("abort", &format!("{} ({why})", e.unwrap_or_default()));
            }
        }
        self.recv = None;
        if let Some(s) = self.send.as_mut() {
            if !s.done && !s.aborted {
                s.rec.end("abort", &format!("connection ended while the client was sending: {why}"));
            }
        }
        self.send = None;
        if ended && self.cur + 1 < self.plan.streams.len() {
            // a close-delimited response ends the connection: the remaining streams are not sent (plans avoid this)
        }
        self.dead = true;
    }
    fn output(&mut self) -> Option<Seg> {
        let s = self.send.as_mut()?;
        if s.done || s.aborted {
            return None;
        }
        match s.next() {
            Some(seg) => Some(seg),
            None => {
                if s.aborted {
                    self.closing = CloseAction::Abort;
                }
                None
            }
        }
    }
    fn wrote(&mut self, _owner: usize, off: u64, len: u64) {
        if let Some(s) = self.send.as_mut() {
            s.wrote(off, len);
        }
    }
    fn wrote_wire(&mut self, n: usize) {
        if let Some(s) = self.send.as_mut() {
            s.wrote_wire(n);
        }
    }
    fn read_plan(&self) -> (usize, u64) {
        let sp = &self.plan.streams[self.cur.min(self.plan.streams.len() - 1)];
        (sp.client_read.rchunk, sp.client_read.rdelay_us)
    }
    fn wchunk(&self) -> usize {
        self.send.as_ref().map(|s| s.plan.wchunk).unwrap_or(65536)
    }
    fn write_blocked(&mut self) -> Option<Duration> {
        self.send.as_mut().and_then(|s| s.pace.blocked())
    }
    fn expecting(&self) -> bool {
        !self.dead
    }
    fn finished(&self) -> bool {
        self.dead
    }
    fn stall(&mut self, why: &str) {
        if let Some(s) = self.send.as_mut() {
            if !s.done && !s.aborted {
                s.rec.flush();
                let k = s.rec.key;
                self.sh.log.push(k, 0, serde_json::json!({"ev":"SendStall","k":"sendstall","run":k.run,"s":k.stream,"d":dir_name(k.dir),"at":s.rec.sent,"why":why}));
            }
        }
        if let Some(r) = self.recv.as_mut() {
            r.stall(why);
        }
        self.recv = None;
        self.send = None;
        self.dead = true;
    }
    fn inconclusive(&mut self) {
        self.sh.mark_inconclusive(self.plan.run);
        self.dead = true;
    }
    fn runs(&self) -> Vec<u64> {
        vec![self.plan.run]
    }
    fn wants_close(&mut self) -> CloseAction {
        std::mem::replace(&mut self.closing, CloseAction::None)
    }
}
