SPECIFICATION Spec
CONSTANTS
  Deviations = {}
  Family = "affinity"
  MaxInputs = 5
  MaxTime = 3
  Emit = "none"
VIEW View
INVARIANTS TypeOK TableOK TimerCoherent NoImmortal
PROPERTIES P_C19_Sticky P_C19_Isolation P_C19_Integrity P_C19_Cap P_C19_Teardown P_C19_Timer
CHECK_DEADLOCK FALSE
