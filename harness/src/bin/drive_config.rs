//! I->S driver for spec/ConfigState.tla (properties C05, C06, C07).
//!
//! Drives a real `ConfigState` with seeded random command sequences. Commands are drawn as abstract command
//! records of the spec, but over a much wider vocabulary than the exhaustive configs: literal IPv4/IPv6
//! addresses, arbitrary cluster ids / host names / paths / methods / numbers, every combination of patch
//! fields, every certificate kind; after concretisation the fields the spec does not model are filled with
//! random full-width values (other h2 knobs, public addresses, answer maps, rewrite rules, ...).
//!
//! Output (--out): ndjson trace, one event per dispatch {"ev":"dispatch","run","seq","cmd","res","post"} where
//! `post` is the projection of the whole real configuration, plus {"ev":"reset"} between runs. TLC validates
//! it against spec/Trace_ConfigState.tla.
//! Along the way the real-code checks of the property given by --mode are run on the full-width states:
//!   c07: a rejected command leaves the complete configuration equal to a clone taken before;
//!   c05: all save/replay paths (files every 8th step);  c06: diff to/from earlier snapshots and itself.
//! stdout: {"kind":"violation"} lines and a {"kind":"summary"}.

use std::collections::BTreeMap;
use std::io::Write;

use serde_json::{Map, Value, json};
use sozu_command_lib::proto::command::{Request, request::RequestType};
use sozu_command_lib::state::ConfigState;
use vh::cfgmodel::*;

const ADDRS: [&str; 7] = ["A1", "A2", "192.168.7.9:8080", "[2001:db8:0:1::7]:443", "0.0.0.0:80", "[::]:8443", "10.255.255.254:65535"];
const BADDRS: [&str; 5] = ["x1", "x2", "172.16.3.4:1", "[fe80::1]:9000", "127.0.0.1:65000"];
const CLUSTERS: [&str; 5] = ["c1", "c2", "api_cluster", "Cluster.With-Odd_chars", "z"];
const BACKENDS: [&str; 4] = ["b1", "b2", "backend-with-a-long-identifier-0123456789", "b"];
const HOSTS: [&str; 5] = ["h1", "h2", "*.wild.example.org", "xn--caf-dma.example", "UPPER.example.com"];
const PATHS: [&str; 6] = ["/", "/x", "/api/v1", "/a;b", "^/r[0-9]+$", ""];
const METHODS: [&str; 4] = ["none", "GET", "POST", "get"];
const KINDS: [&str; 4] = ["http", "https", "tcp", "udp"];

fn pick<'a>(r: &mut Rng, xs: &[&'a str]) -> &'a str {
    xs[r.next(xs.len())]
}
fn chance(r: &mut Rng, pct: usize) -> bool {
    r.next(100) < pct
}

fn listener_value(r: &mut Rng, k: &str, a: &str) -> Value {
    let httpish = k == "http" || k == "https";
    json!({
        "k": k, "a": a, "active": chance(r, 40),
        "ft": if chance(r, 50) { if k == "udp" { 30 } else { 60 } } else { 1 + r.next(2_000_000_000) },
        "exp": k != "udp" && chance(r, 30),
        "sid": if httpish { pick(r, &["none", "X-Id", "X-Trace"]) } else { "none" },
        "knob": if httpish && chance(r, 50) { 1 + r.next(100000) } else { 0 },
        "shr": if httpish && chance(r, 30) { 2 + r.next(100) } else { 0 },
        "ansP": false, "a404": "-", "a503": "-",
        "alpn": if k == "https" { [json!([]), json!(["h2"]), json!(["http/1.1", "h2"])][r.next(3)].clone() } else { json!([]) },
        "sni": if k == "https" { pick(r, &["none", "true", "false"]) } else { "none" },
        "mf": if k == "udp" { r.next(5000) } else { 0 },
    })
}

fn with_answers(r: &mut Rng, mut v: Value, k: &str) -> Value {
    if (k == "http" || k == "https") && chance(r, 40) {
        v["ansP"] = json!(true);
        v["a404"] = json!(pick(r, &["-", "p", "r"]));
        v["a503"] = json!(pick(r, &["-", "q"]));
    }
    v
}

fn patch(r: &mut Rng, k: &str) -> Value {
    let mut p = Map::new();
    let httpish = k == "http" || k == "https";
    if chance(r, 50) { p.insert("ft".into(), json!(1 + r.next(100000))); }
    if k != "udp" && chance(r, 40) { p.insert("exp".into(), json!(chance(r, 50))); }
    if httpish {
        if chance(r, 35) { p.insert("knob".into(), json!(if chance(r, 25) { 0 } else { 1 + r.next(1000) })); }
        if chance(r, 30) { p.insert("shr".into(), json!(if chance(r, 25) { r.next(2) } else { 2 + r.next(50) })); }
        if chance(r, 35) { p.insert("sid".into(), json!(pick(r, &["X-Id", "X-Trace", "bad header", ""]))); }
        if chance(r, 30) {
            let mut a = Map::new();
            if chance(r, 60) { a.insert("a404".into(), json!(pick(r, &["p", "r"]))); }
            if chance(r, 40) { a.insert("a503".into(), json!("q")); }
            p.insert("ans".into(), Value::Object(a));
        }
    }
    if k == "https" {
        if chance(r, 35) {
            p.insert("alpn".into(), [json!([]), json!(["h2"]), json!(["h2", "http/1.1"]), json!(["spdy"]), json!(["h2", "h3"])][r.next(5)].clone());
        }
        if chance(r, 30) { p.insert("sni".into(), json!(pick(r, &["true", "false"]))); }
    }
    if k == "udp" && chance(r, 50) { p.insert("mf".into(), json!(r.next(10000))); }
    if p.is_empty() { p.insert("ft".into(), json!(77)); }
    Value::Object(p)
}

fn front(r: &mut Rng, p: &str) -> Value {
    json!({"p": p, "a": pick(r, &ADDRS[..4]), "h": pick(r, &HOSTS), "pk": pick(r, &["prefix", "regex", "equals"]),
           "pv": pick(r, &PATHS), "m": pick(r, &METHODS),
           "cl": if chance(r, 25) { "deny" } else { pick(r, &CLUSTERS) },
           "pos": if chance(r, 8) { "bad" } else { pick(r, &["tree", "pre", "post"]) },
           "tg": pick(r, &["t0", "t1"]), "rd": pick(r, &["none", "perm"])})
}

fn add_verb(k: &str) -> &'static str {
    match k { "http" => "AddHttpListener", "https" => "AddHttpsListener", "tcp" => "AddTcpListener", _ => "AddUdpListener" }
}
fn upd_verb(k: &str) -> &'static str {
    match k { "http" => "UpdateHttpListener", "https" => "UpdateHttpsListener", "tcp" => "UpdateTcpListener", _ => "UpdateUdpListener" }
}

/// one random abstract command; `present` biases towards objects that exist (so that removals/patches hit)
/// another spelling of the certificate text in about half of the certificate commands (field `sp`, absent = standard)
fn spell(r: &mut Rng, conc: &Conc, mut cmd: Value) -> Value {
    if chance(r, 50) {
        let sp = if chance(r, 85) { pick(r, &ALT_SPELLINGS) } else { pick(r, &BAD_SPELLINGS) };
        let k = cmd["k"].as_str().unwrap().to_string();
        if let Some(sp) = conc.effective_spelling(&k, sp) {
            cmd["sp"] = json!(sp);
        }
    }
    cmd
}

fn random_command(r: &mut Rng, conc: &Conc, present: &Value) -> Value {
    let existing = |r: &mut Rng, field: &str| -> Option<Value> {
        let a = present[field].as_array()?;
        if a.is_empty() || chance(r, 25) { None } else { Some(a[r.next(a.len())].clone()) }
    };
    match r.next(23) {
        0 | 1 => { let k = pick(r, &KINDS); let a = pick(r, &ADDRS); let v = listener_value(r, k, a); json!({"verb": add_verb(k), "v": with_answers(r, v, k)}) }
        2 => {
            let (k, a) = match existing(r, "lst") { Some(l) => (l["k"].as_str().unwrap().to_string(), l["a"].as_str().unwrap().to_string()),
                                                     None => (pick(r, &["http", "https", "tcp", "udp", "bad"]).to_string(), pick(r, &ADDRS).to_string()) };
            json!({"verb": pick(r, &["RemoveListener", "ActivateListener", "DeactivateListener"]), "k": k, "a": a})
        }
        3 => json!({"verb": pick(r, &["ActivateListener", "DeactivateListener"]), "k": pick(r, &["http", "https", "tcp", "udp", "bad"]), "a": pick(r, &ADDRS)}),
        4 | 5 | 6 => {
            let (k, a) = match existing(r, "lst") { Some(l) => (l["k"].as_str().unwrap().to_string(), l["a"].as_str().unwrap().to_string()),
                                                     None => (pick(r, &KINDS).to_string(), pick(r, &ADDRS).to_string()) };
            json!({"verb": upd_verb(&k), "a": a, "p": patch(r, &k)})
        }
        7 | 8 => json!({"verb": "AddCluster", "v": {"c": pick(r, &CLUSTERS), "sticky": chance(r, 50), "lb": pick(r, &["rr", "rnd", "bad"]),
                                                    "hc": pick(r, &["none", "none", "h1", "h2", "hbad"])}}),
        9 => json!({"verb": pick(r, &["RemoveCluster", "RemoveHealthCheck"]), "c": pick(r, &CLUSTERS)}),
        10 => json!({"verb": "SetHealthCheck", "c": pick(r, &CLUSTERS), "hc": pick(r, &["h1", "h2", "hbad"])}),
        11 | 12 => json!({"verb": "AddBackend", "c": pick(r, &CLUSTERS[..3]), "b": pick(r, &BACKENDS), "x": pick(r, &BADDRS), "w": r.next(2)}),
        13 => match existing(r, "bke") {
            Some(b) => json!({"verb": "RemoveBackend", "c": b["c"], "b": b["b"], "x": b["x"]}),
            None => json!({"verb": "RemoveBackend", "c": pick(r, &CLUSTERS[..3]), "b": pick(r, &BACKENDS), "x": pick(r, &BADDRS)}),
        },
        14 | 15 => { let p = pick(r, &["http", "https"]); json!({"verb": if p == "http" { "AddHttpFrontend" } else { "AddHttpsFrontend" }, "f": front(r, p)}) }
        16 => match existing(r, "hfr") {
            Some(mut f) => { f["tg"] = json!("t1"); f["cl"] = json!("deny");
                             json!({"verb": if f["p"] == "http" { "RemoveHttpFrontend" } else { "RemoveHttpsFrontend" }, "f": f}) }
            None => { let p = pick(r, &["http", "https"]); let mut f = front(r, p); f["pos"] = json!("tree");
                      json!({"verb": if p == "http" { "RemoveHttpFrontend" } else { "RemoveHttpsFrontend" }, "f": f}) }
        },
        17 | 18 => { let c = json!({"verb": "AddCertificate", "a": pick(r, &ADDRS[..4]), "k": pick(r, &["k1", "k2", "k3", "kp", "kb"]),
                                   "n": if chance(r, 60) { json!([]) } else { json!(["ov"]) }});
                     spell(r, conc, c) }
        19 => json!({"verb": "RemoveCertificate", "a": pick(r, &ADDRS[..4]), "fp": pick(r, &["k1", "k2", "k3", "kp", "nothex"])}),
        20 | 21 => {
            // mostly a certificate that is there (a renewal), on an address that holds certificates
            let (a, old) = match existing(r, "crt") { Some(x) => (x["a"].as_str().unwrap().to_string(), x["k"].as_str().unwrap().to_string()),
                                                      None => (pick(r, &ADDRS[..4]).to_string(), pick(r, &["k1", "k2", "k3", "kp", "nothex"]).to_string()) };
            let c = json!({"verb": "ReplaceCertificate", "a": a, "old": old,
                           "k": pick(r, &["k1", "k2", "k3", "kp", "kb"]), "n": if chance(r, 60) { json!([]) } else { json!(["ov"]) }});
            spell(r, conc, c)
        }
        _ => {
            let p = pick(r, &["Tcp", "Udp"]);
            if let (Some(f), true) = (existing(r, "tfr"), chance(r, 35)) {
                let p = if f["p"] == "tcp" { "Tcp" } else { "Udp" };
                json!({"verb": format!("Remove{p}Frontend"), "c": f["c"], "a": f["a"], "t": "t1"})
            } else if chance(r, 65) {
                json!({"verb": format!("Add{p}Frontend"), "c": pick(r, &CLUSTERS[..3]), "a": pick(r, &ADDRS[..4]), "t": pick(r, &["t0", "t1"])})
            } else {
                json!({"verb": format!("Remove{p}Frontend"), "c": pick(r, &CLUSTERS[..3]), "a": pick(r, &ADDRS[..4]), "t": "t0"})
            }
        }
    }
}

/// fill fields the spec does not model with random valid values
fn widen(req: &mut Request, r: &mut Rng) {
    let sa = |s: &str| -> sozu_command_lib::proto::command::SocketAddress { s.parse::<std::net::SocketAddr>().unwrap().into() };
    match req.request_type.as_mut() {
        Some(RequestType::AddHttpListener(l)) => {
            if chance(r, 50) { l.public_address = Some(sa("198.51.100.7:80")); }
            l.back_timeout = 1 + r.next(3600) as u32;
            l.request_timeout = 1 + r.next(600) as u32;
            if chance(r, 40) { l.h2_max_glitch_count = Some(1 + r.next(1000) as u32); }
            if chance(r, 40) { l.h2_max_rst_stream_lifetime = Some(1 + r.next(1 << 40) as u64); }
            if chance(r, 30) { l.answers.insert("404".into(), "<html>nope</html>".into()); }
            if chance(r, 30) { l.send_x_real_ip = Some(true); }
            if chance(r, 30) { l.sticky_name = "STICKY\u{e9}".into(); }
        }
        Some(RequestType::AddHttpsListener(l)) => {
            if chance(r, 50) { l.public_address = Some(sa("[2001:db8::1]:443")); }
            l.back_timeout = 1 + r.next(3600) as u32;
            if chance(r, 40) { l.h2_initial_connection_window = Some(65535 + r.next(1 << 20) as u32); }
            if chance(r, 40) { l.groups_list = vec!["x25519".into(), "secp256r1".into()]; }
            if chance(r, 30) { l.certificate = Some("inline certificate".into()); l.key = Some("inline key".into()); }
            if chance(r, 30) { l.disable_http11 = Some(chance(r, 50)); }
        }
        Some(RequestType::AddTcpListener(l)) => {
            if chance(r, 50) { l.public_address = Some(sa("203.0.113.9:25")); }
            l.connect_timeout = 1 + r.next(60) as u32;
        }
        Some(RequestType::AddUdpListener(l)) => {
            l.back_timeout = 1 + r.next(600) as u32;
            l.max_rx_datagram_size = 512 + r.next(65000) as u32;
        }
        Some(RequestType::UpdateHttpListener(p)) => {
            if chance(r, 40) { p.h2_max_glitch_count = Some(1 + r.next(100) as u32); }
            if chance(r, 40) { p.request_timeout = Some(1 + r.next(100) as u32); }
            if chance(r, 30) { p.public_address = Some(sa("198.51.100.8:80")); }
            if chance(r, 30) { p.h2_graceful_shutdown_deadline_seconds = Some(0); }
        }
        Some(RequestType::UpdateHttpsListener(p)) => {
            if chance(r, 40) { p.h2_max_header_list_size = Some(1 + r.next(100000) as u32); }
            if chance(r, 40) { p.connect_timeout = Some(1 + r.next(100) as u32); }
            if chance(r, 30) { p.disable_http11 = Some(chance(r, 50)); }
        }
        Some(RequestType::AddCluster(c)) => {
            if chance(r, 40) { c.answers.insert("503".into(), "custom".into()); }
            if chance(r, 40) { c.max_connections_per_ip = Some(r.next(1 << 30) as u64); }
            if chance(r, 40) { c.retry_after = Some(r.next(3600) as u32); }
            if chance(r, 30) { c.proxy_protocol = Some(r.next(3) as i32); }
            if chance(r, 30) { c.www_authenticate = Some("Basic realm=\"x\"".into()); }
            if chance(r, 30) { c.load_metric = Some(r.next(3) as i32); }
        }
        Some(RequestType::AddHttpFrontend(f)) | Some(RequestType::AddHttpsFrontend(f)) => {
            if chance(r, 30) { f.rewrite_path = Some("/rewritten/%path".into()); }
        }
        _ => {}
    }
}

fn main() {
    vh::util::quiet_panics();
    let args: Vec<String> = std::env::args().collect();
    let (mut seed, mut runs, mut steps, mut mode, mut out) = (1u64, 10usize, 80usize, "c07".to_string(), String::from("/dev/null"));
    let mut i = 1;
    while i < args.len() {
        match args[i].as_str() {
            "--seed" => { seed = args[i + 1].parse().unwrap_or(1); i += 1; }
            "--runs" => { runs = args[i + 1].parse().unwrap(); i += 1; }
            "--steps" => { steps = args[i + 1].parse().unwrap(); i += 1; }
            "--mode" => { mode = args[i + 1].clone(); i += 1; }
            "--out" => { out = args[i + 1].clone(); i += 1; }
            _ => {}
        }
        i += 1;
    }
    let mut f = std::io::BufWriter::new(std::fs::File::create(&out).expect("trace file"));
    let mut classes: BTreeMap<String, u64> = BTreeMap::new();
    let mut violations: Vec<Value> = Vec::new();
    let mut report = |class: String, run: usize, seq: usize, hist: &Vec<Value>, detail: Value| {
        let n = classes.entry(class.clone()).or_insert(0);
        *n += 1;
        if *n <= 3 {
            violations.push(json!({"kind": "violation", "class": class, "run": run, "seq": seq, "detail": detail, "commands": hist}));
        }
    };
    let (mut n_events, mut n_ok, mut n_err, mut n_checks, mut max_objs) = (0u64, 0u64, 0u64, 0u64, 0usize);
    let mut verbs: BTreeMap<String, (u64, u64)> = BTreeMap::new();
    let mut spelled: BTreeMap<String, (u64, u64)> = BTreeMap::new();
    let mut seqno = 0usize;
    for run in 0..runs {
        let mut rng = Rng((seed.wrapping_mul(1_000_003) + run as u64).wrapping_mul(0x9E3779B97F4A7C15) | 1);
        let conc = Conc::new(seed + run as u64);
        let mut st = ConfigState::new();
        let mut hist: Vec<Value> = Vec::new();
        let mut snaps: Vec<ConfigState> = vec![st.clone()];
        writeln!(f, "{}", json!({"ev": "reset", "run": run, "seq": seqno})).unwrap();
        seqno += 1;
        let mut present = conc.project(&st);
        for step in 0..steps {
            let cmd = random_command(&mut rng, &conc, &present);
            let mut req = conc.request(&cmd);
            widen(&mut req, &mut rng);
            let before = cfg_of(&st);
            hist.push(cmd.clone());
            let res = match dispatch(&mut st, &req) {
                Err(p) => {
                    report(format!("panic:{}", cmd["verb"].as_str().unwrap()), run, step, &hist, json!({"panic": p}));
                    break;
                }
                Ok(b) => b,
            };
            let e = verbs.entry(cmd["verb"].as_str().unwrap().to_string()).or_insert((0, 0));
            if res { e.0 += 1; n_ok += 1 } else { e.1 += 1; n_err += 1 }
            if let Some(sp) = cmd.get("sp").and_then(|x| x.as_str()) {
                let e = spelled.entry(format!("{}:{}", cmd["verb"].as_str().unwrap(), if BAD_SPELLINGS.contains(&sp) { "unreadable" } else { "readable" })).or_insert((0, 0));
                if res { e.0 += 1 } else { e.1 += 1 }
            }
            present = conc.project(&st);
            let objs: usize = ["lst", "clu", "bke", "hfr", "crt", "tfr"].iter().map(|k| present[*k].as_array().unwrap().len()).sum();
            max_objs = max_objs.max(objs);
            writeln!(f, "{}", json!({"ev": "dispatch", "run": run, "seq": seqno, "cmd": cmd, "res": if res { "ok" } else { "err" }, "post": present})).unwrap();
            seqno += 1;
            n_events += 1;
            // C07 at full width: a rejected command leaves everything as it was
            if !res && cfg_of(&st) != before {
                report(format!("err-mutated:{}:{}", cmd["verb"].as_str().unwrap(), differing_maps(&cfg_of(&st), &before).join("+")), run, step, &hist,
                       json!({"what": "the command was rejected but the configuration changed", "cmd": cmd}));
            }
            if mode == "c05" && (res || step % 5 == 0) {
                let mut rnd = |n: usize| rng.next(n);
                let (problems, _) = c05_round_trips(&st, step % 8 == 0, &mut rnd);
                n_checks += 1;
                for (k, d) in problems {
                    report(format!("c05:{k}"), run, step, &hist, json!({"what": d, "state": present}));
                }
            }
            if mode == "c06" && res {
                for (k, d) in c06_self(&st) {
                    report(format!("c06:{k}"), run, step, &hist, json!({"what": d}));
                }
                let picks = [snaps.len() - 1, rng.next(snaps.len()), 0];
                for (j, pi) in picks.iter().enumerate() {
                    if j == 2 && step % 10 != 0 { continue; }
                    let o = snaps[*pi].clone();
                    for (dir, x, y) in [("to-snapshot", &st, &o), ("from-snapshot", &o, &st)] {
                        n_checks += 1;
                        let (problems, _) = c06_pair(x, y);
                        for (k, d) in problems {
                            report(format!("c06:{k}:trace"), run, step, &hist, json!({"what": d, "direction": dir, "snapshot_index": pi, "state": present, "other": conc.project(&o)}));
                        }
                    }
                }
                if step % 4 == 0 { snaps.push(st.clone()); }
            }
        }
    }
    f.flush().unwrap();
    drop(report);
    for v in &violations { vh::util::emit(v); }
    vh::util::emit(&json!({"kind": "summary", "runs": runs, "events": n_events, "accepted": n_ok, "rejected": n_err,
        "real_checks": n_checks, "max_objects_in_a_state": max_objs, "verbs": verbs,
        "spelled_certificate_commands": spelled, "classes": classes}));
}
