--------------------------- MODULE Trace_Handover ---------------------------
(***************************************************************************)
(* I->S trace validation for C10: is what harness/src/bin/drive_handover   *)
(* recorded on two real worker threads a behaviour of Handover.tla ?       *)
(*                                                                         *)
(* IOEnv.TRACE: ndjson, ONE LINE PER RUN (scenario):                        *)
(*   {run, cfg:{mode, addrs:[{a,proto}]}, ctl:[events], ham:[[events]..]}   *)
(* Observers: "ctl" (the orchestrating thread: master steps and the        *)
(* scripted clients' I/O, totally ordered by its program order) and one    *)
(* stream per hammer thread.  Hammer events carry lo/hi = number of ctl    *)
(* events logged when the hammer looked before/after its operation; the    *)
(* operation may be placed at any ctl position lo .. hi+1 and nowhere else *)
(* (no wall clock is ever compared across threads).                        *)
(* Steps of the workers that nobody observes directly (processing of a     *)
(* command, a pass of shut_down_sessions, an accept) are silent disjuncts. *)
(***************************************************************************)
EXTENDS Handover, Json, IOUtils

ASSUME TLCSet(1, 0) /\ TLCSet(2, 0) /\ TLCSet(3, 0)

Rec == ndJsonDeserialize(IOEnv.TRACE)
NRuns == Len(Rec)

VARIABLES run,        \* index of the run being matched (NRuns + 1: everything matched)
          lc,         \* ctl events consumed
          lh,         \* [hammer -> events consumed]
          hw,         \* [hammer -> where its current connection is: "none","backlog","old","new","refused"]
          sw,         \* [Reqs -> where the scripted connection is: "none","old","backlog","finished"]
          sa,         \* [Reqs -> address of the scripted connection]
          killReq,    \* the harness has closed the old worker's command channel; the worker dies when it notices
          lastH       \* hammers do not interact: between two other steps they move in index order
                      \* (0 after any other step); a sound reduction of the interleavings TLC explores

tvars == <<run, lc, lh, hw, sw, sa, killReq, lastH>>
allvars == <<vars, tvars>>

MaxHam == 4
Hams == 1..MaxHam
R == Rec[run]
Ctl == R.ctl
NHam == Len(R.ham)
HamLen(h) == IF h <= NHam THEN Len(R.ham[h]) ELSE 0

UsedAddrs(k) == {Rec[k].cfg.addrs[i].a : i \in 1..Len(Rec[k].cfg.addrs)}
ProtoOf(k, a) == LET S == {i \in 1..Len(Rec[k].cfg.addrs) : Rec[k].cfg.addrs[i].a = a}
                 IN IF S = {} THEN "tcp" ELSE Rec[k].cfg.addrs[CHOOSE i \in S : TRUE].proto

\* initial state of run k: the listeners of the scenario are owned by the old worker; the addresses the
\* scenario does not use are parked in the successor (every action leaves them alone)
IV(k) == [ proto |-> [a \in Addrs |-> ProtoOf(k, a)],
           fd    |-> [a \in Addrs |-> IF a \in UsedAddrs(k) THEN "old" ELSE "new"] ]

RunInit(k) ==
  /\ proto = IV(k).proto /\ fd = IV(k).fd
  /\ sock = [a \in Addrs |-> a]
  /\ closedBy = [a \in Addrs |-> "-"]
  /\ manifest = <<>>
  /\ oldPhase = "serving" /\ newPhase = "none" /\ mpc = "idle"
  /\ chan = <<>> /\ resp = <<>> /\ stopSent = FALSE
  /\ req = [r \in Reqs |-> FreeSlot]
  /\ draining = FALSE /\ deadlinePassed = FALSE /\ acks = 0 /\ acceptedAfterStop = 0
  /\ lc = 0 /\ lh = [h \in Hams |-> 0] /\ hw = [h \in Hams |-> "none"]
  /\ sw = [r \in Reqs |-> "none"] /\ sa = [r \in Reqs |-> 1] /\ killReq = FALSE /\ lastH = 0

RunInitNext(k) ==
  /\ proto' = IV(k).proto /\ fd' = IV(k).fd
  /\ sock' = [a \in Addrs |-> a]
  /\ closedBy' = [a \in Addrs |-> "-"]
  /\ manifest' = <<>>
  /\ oldPhase' = "serving" /\ newPhase' = "none" /\ mpc' = "idle"
  /\ chan' = <<>> /\ resp' = <<>> /\ stopSent' = FALSE
  /\ req' = [r \in Reqs |-> FreeSlot]
  /\ draining' = FALSE /\ deadlinePassed' = FALSE /\ acks' = 0 /\ acceptedAfterStop' = 0
  /\ lc' = 0 /\ lh' = [h \in Hams |-> 0] /\ hw' = [h \in Hams |-> "none"]
  /\ sw' = [r \in Reqs |-> "none"] /\ sa' = [r \in Reqs |-> 1] /\ killReq' = FALSE /\ lastH' = 0

ASSUME NRuns >= 1
TraceInit == run = 1 /\ RunInit(1)

Consume == lc' = lc + 1 /\ lastH' = 0 /\ UNCHANGED <<run, lh, hw>>
Ev == Ctl[lc + 1]
Bucket(p) == p   \* the scm buckets are named after the protocols: http, https (tls), tcp, udp

---------------------------------------------------------------------------
(* scripted client connections (performed inline by the ctl thread) *)

\* a connection opened while the old worker serves: a request head that has reached the backend proves that
\* the old worker accepted it; a connection that has sent less may still sit in the listen backlog
T_SlotOpen ==
  /\ Ev.e = "SlotOpen" /\ Consume
  /\ oldPhase = "serving" /\ fd[Ev.a] = "old" /\ proto[Ev.a] \in {"http", "https"}
  /\ req[Ev.r].stage = "none" /\ sw[Ev.r] = "none"
  /\ sa' = [sa EXCEPT ![Ev.r] = Ev.a]
  /\ \/ /\ sw' = [sw EXCEPT ![Ev.r] = "old"]
        /\ req' = [req EXCEPT ![Ev.r] = Slot(Ev.stage, Ev.partial)]
     \/ /\ Ev.stage = "preHeaders"
        /\ sw' = [sw EXCEPT ![Ev.r] = "backlog"]
        /\ req' = req
  /\ UNCHANGED <<proto, fd, sock, closedBy, manifest, oldPhase, newPhase, mpc, chan, resp, stopSent, draining,
                 deadlinePassed, acks, acceptedAfterStop, killReq>>

\* the client writes the rest of its request: as seen by the old worker the request becomes complete
\* (Client_SendHead ; Client_FinishBody) - if the connection is still there
Completed(s) == IF s.stage \in {"preHeaders", "midBody", "idleKeepAlive"} THEN "awaitResp"
                ELSE IF s.stage = "h2Open" THEN "h2Await" ELSE s.stage
T_SlotRelease ==
  /\ Ev.e = "SlotRelease" /\ Consume
  /\ IF sw[Ev.r] = "old" /\ Occupied(Ev.r) /\ oldPhase \in LiveOld
     THEN req' = [req EXCEPT ![Ev.r].stage = Completed(req[Ev.r]), ![Ev.r].partial = FALSE]
     ELSE req' = req
  /\ UNCHANGED <<proto, fd, sock, closedBy, manifest, oldPhase, newPhase, mpc, chan, resp, stopSent, draining,
                 deadlinePassed, acks, acceptedAfterStop, sw, sa, killReq>>

\* Response delivery, as the client and the backend of a parked exchange see it (ctl thread, program order):
\*   RespPart        : the client holds the response head and a first part of the body (Backend_SendPart)
\*   RespBackendDone : the backend wrote the whole response and the worker has read it to its end - the backend saw
\*                     its connection closed by the worker, or nothing is left unread in the worker's socket
\*                     (Backend_Finish; it may have happened silently before, see T_Silent)
T_RespPart ==
  /\ Ev.e = "RespPart" /\ Consume
  /\ sw[Ev.r] = "old" /\ Backend_SendPart(Ev.r)
  /\ UNCHANGED <<sw, sa, killReq>>

T_RespBackendDone ==
  /\ Ev.e = "RespBackendDone" /\ Consume
  /\ sw[Ev.r] = "old"
  /\ \/ Backend_Finish(Ev.r)
     \/ req[Ev.r].stage \in TailStages /\ UNCHANGED vars
  /\ UNCHANGED <<sw, sa, killReq>>

\* Exchanges with more steps than "request, then response" (ctl thread, program order):
\*   GateOpen : the backend of the parked exchange is let go (its next message - interim response, 101, early or
\*              first pipelined answer - leaves now); no step of the specification by itself
\*   Interim  : the client holds a complete interim response (Backend_Interim; a further 103 changes nothing)
\*   SlotMid  : the client holds the complete answer to the first of two pipelined requests (Backend_Respond of a
\*              "pipelined" slot); the second request, written long ago, is then what the slot is about
T_GateOpen == Ev.e = "GateOpen" /\ Consume /\ UNCHANGED <<vars, sw, sa, killReq>>

T_Interim ==
  /\ Ev.e = "Interim" /\ Consume
  /\ sw[Ev.r] = "old"
  /\ (Ev.code = 100) <=> (req[Ev.r].stage = "expectHead")
  /\ \/ Backend_Interim(Ev.r)
     \/ /\ oldPhase \in LiveOld /\ Occupied(Ev.r) /\ req[Ev.r].stage \in {"hinted", "h2Hinted"}
        /\ UNCHANGED vars
  /\ UNCHANGED <<sw, sa, killReq>>

T_SlotMid ==
  /\ Ev.e = "SlotMid" /\ Consume
  /\ sw[Ev.r] = "old" /\ Ev.out = "done" /\ Ev.by = "old"
  /\ req[Ev.r].stage = "pipelined" /\ Backend_Respond(Ev.r)
  /\ UNCHANGED <<sw, sa, killReq>>

\* outcomes of a parked exchange:  done    the complete response, every byte in its place
\*                                 short   a clean end (close of a close-delimited response, END_STREAM) after LESS
\*                                         than the backend sent: a truncation the client cannot see
\*                                 corrupt bytes missing, repeated or displaced inside the body: never admissible
\*                                 cut / timeout / status...   no complete response, and the client can tell
NotAnAbort == {"done", "short", "corrupt"}
T_SlotEnd ==
  /\ Ev.e = "SlotEnd" /\ Consume
  /\ sw[Ev.r] \in {"old", "backlog"}
  /\ sw' = [sw EXCEPT ![Ev.r] = "finished"]
  /\ \/ \* complete answer relayed by the old worker (a large one: the client has read the buffered tail)
        /\ Ev.out = "done" /\ Ev.by = "old" /\ Ev.be = "old" /\ sw[Ev.r] = "old"
        /\ oldPhase \in LiveOld /\ Occupied(Ev.r)
        /\ req[Ev.r].stage \in ((RespondStages \ {"pipelined"}) \cup TailStages)
        /\ req' = [req EXCEPT ![Ev.r] = [@ EXCEPT !.st = "done"]]
     \/ \* a response that ended clean but short: only the specification's "short" (a deviation) or the death of
        \* the worker in the middle of a close-delimited response explain it
        /\ Ev.out = "short" /\ Ev.be = "old" /\ sw[Ev.r] = "old"
        /\ req[Ev.r].st = "short" \/ (req[Ev.r].st = "cut" /\ req[Ev.r].why = "death")
        /\ req' = req
     \/ \* it was still in the backlog when the listeners moved: the successor accepted and served it
        /\ Ev.out = "done" /\ Ev.by = "new" /\ Ev.be = "new" /\ sw[Ev.r] = "backlog"
        /\ fd[sa[Ev.r]] = "new" /\ newPhase = "running"
        /\ req' = req
     \/ \* no complete answer, and the head had reached the backend through the old worker:
        \* only its death or the elapsed graceful deadline explain that
        /\ Ev.out \notin NotAnAbort /\ Ev.be = "old" /\ sw[Ev.r] = "old"
        /\ req[Ev.r].st = "cut" /\ HeadComplete(req[Ev.r].stage)
        /\ req' = req
     \/ \* no complete answer, nothing reached a backend: the connection was closed while it carried no
        \* complete request head (idle, or head not yet read), or the worker died
        /\ Ev.out \notin NotAnAbort /\ Ev.be = "none" /\ sw[Ev.r] = "old"
        /\ req[Ev.r].st \in {"cut", "closed"}
        /\ req' = req
     \/ /\ Ev.out \notin NotAnAbort /\ Ev.be = "none" /\ sw[Ev.r] = "backlog"
        /\ fd[sa[Ev.r]] = "closed"
        /\ req' = req
  /\ UNCHANGED <<proto, fd, sock, closedBy, manifest, oldPhase, newPhase, mpc, chan, resp, stopSent, draining,
                 deadlinePassed, acks, acceptedAfterStop, sa, killReq>>

---------------------------------------------------------------------------
(* master steps *)

T_ReturnSent == Ev.e = "ReturnSent" /\ Consume /\ Master_AskReturn /\ UNCHANGED <<sw, sa, killReq>>

\* the Ok of ReturnListenSockets is in the channel (the old worker has processed the command)
T_ReturnResp ==
  /\ Ev.e = "ReturnResp" /\ Consume /\ Ev.status = "Ok"
  /\ mpc = "askedReturn" /\ resp # <<>> /\ Head(resp) = "ReturnOk"
  /\ UNCHANGED <<vars, sw, sa, killReq>>

\* receive_listeners: same addresses, each in the bucket of its protocol, each descriptor bound to its address
T_Received ==
  /\ Ev.e = "Received" /\ Consume /\ Ev.ok
  /\ {Ev.pairs[i].a : i \in 1..Len(Ev.pairs)} = {a \in Addrs : fd[a] = "inFlightToMaster"}
  /\ Len(Ev.pairs) = Cardinality({a \in Addrs : fd[a] = "inFlightToMaster"})
  /\ \A i \in 1..Len(Ev.pairs) : /\ Ev.pairs[i].bucket = Bucket(proto[Ev.pairs[i].a])
                                 /\ Ev.pairs[i].bound = sock[Ev.pairs[i].a]
  /\ Master_ReceiveListeners
  /\ UNCHANGED <<sw, sa, killReq>>

T_SoftStopSent == Ev.e = "SoftStopSent" /\ Consume /\ Master_SendSoftStop /\ UNCHANGED <<sw, sa, killReq>>
T_SuccStarted  == Ev.e = "SuccStarted" /\ Consume /\ Master_StartSuccessor /\ UNCHANGED <<sw, sa, killReq>>
T_Activated    == Ev.e = "Activated" /\ Consume /\ Ev.status = "Ok" /\ New_Activate(Ev.a) /\ UNCHANGED <<sw, sa, killReq>>

\* answers to SoftStop: "Processing" notices are not terminal; exactly one terminal Ok
T_StopResp ==
  /\ Ev.e = "StopResp" /\ Consume
  /\ resp # <<>>
  /\ \/ Ev.status = "Processing" /\ Head(resp) = "StopProcessing"
     \/ Ev.status = "Ok" /\ Head(resp) = "StopOk"
  /\ resp' = Tail(resp)
  /\ UNCHANGED <<proto, fd, sock, closedBy, manifest, oldPhase, newPhase, mpc, chan, stopSent, req, draining,
                 deadlinePassed, acks, acceptedAfterStop, sw, sa, killReq>>

T_OldExited ==
  /\ Ev.e = "OldExited" /\ Consume /\ Ev.how = "clean"
  /\ \/ Old_Exit /\ resp = <<>>          \* every answer was read, the terminal one included
     \/ oldPhase = "dead" /\ UNCHANGED vars
  /\ UNCHANGED <<sw, sa, killReq>>

\* the command channel is closed under the old worker: it dies when its loop sees the hang-up (silent Old_Die)
T_OldKilled == Ev.e = "OldKilled" /\ Consume /\ oldPhase # "dead" /\ killReq' = TRUE /\ UNCHANGED <<vars, sw, sa>>

T_Deadline == Ev.e = "DeadlineElapsed" /\ Consume /\ Tick_Deadline /\ UNCHANGED <<sw, sa, killReq>>

\* after the hand-over every address is served by the successor
T_Probe ==
  /\ Ev.e = "Probe" /\ Consume
  /\ Ev.ok /\ Ev.by = "new" /\ fd[Ev.a] = "new" /\ sock[Ev.a] = Ev.a
  /\ UNCHANGED <<vars, sw, sa, killReq>>

T_HamStop == Ev.e = "HamStop" /\ Consume /\ UNCHANGED <<vars, sw, sa, killReq>>

T_Ctl ==
  /\ run <= NRuns /\ lc < Len(Ctl)
  /\ \/ T_SlotOpen \/ T_SlotRelease \/ T_SlotEnd \/ T_RespPart \/ T_RespBackendDone
     \/ T_GateOpen \/ T_Interim \/ T_SlotMid
     \/ T_ReturnSent \/ T_ReturnResp \/ T_Received \/ T_SoftStopSent \/ T_SuccStarted \/ T_Activated
     \/ T_StopResp \/ T_OldExited \/ T_OldKilled \/ T_Deadline \/ T_Probe \/ T_HamStop

---------------------------------------------------------------------------
(* hammers *)

HEv(h) == R.ham[h][lh[h] + 1]
InWindow(e) == lc >= e.lo /\ lc <= e.hi + 1

\* connect(): succeeds iff somebody - whoever - still holds the listening socket open
T_HConn(h) ==
  /\ run <= NRuns /\ h <= NHam /\ lh[h] < HamLen(h)
  /\ LET e == HEv(h) IN
     /\ e.e = "Conn" /\ InWindow(e) /\ hw[h] \in {"none", "refused"}
     /\ IF e.ok THEN fd[e.a] # "closed" /\ hw' = [hw EXCEPT ![h] = "backlog"]
               ELSE fd[e.a] = "closed" /\ hw' = [hw EXCEPT ![h] = "refused"]
  /\ lh' = [lh EXCEPT ![h] = @ + 1]
  /\ h >= lastH /\ lastH' = h
  /\ UNCHANGED <<vars, run, lc, sw, sa, killReq>>

\* accept (silent): by the worker that holds the listener registered
T_HAccept(h) ==
  /\ run <= NRuns /\ h <= NHam /\ lh[h] < HamLen(h) /\ hw[h] = "backlog"
  /\ LET e == HEv(h) IN
     /\ e.e = "End"
     /\ \/ /\ e.by = "old" \/ e.out # "done"
           /\ fd[e.a] = "old" /\ oldPhase \in LiveOld
           /\ hw' = [hw EXCEPT ![h] = "old"]
           /\ acceptedAfterStop' = IF oldPhase = "softStopping" THEN acceptedAfterStop + 1 ELSE acceptedAfterStop
        \/ /\ e.by = "new" \/ e.out # "done"
           /\ fd[e.a] = "new" /\ newPhase = "running"
           /\ hw' = [hw EXCEPT ![h] = "new"]
           /\ UNCHANGED acceptedAfterStop
  /\ h >= lastH /\ lastH' = h
  /\ UNCHANGED <<proto, fd, sock, closedBy, manifest, oldPhase, newPhase, mpc, chan, resp, stopSent, req, draining,
                 deadlinePassed, acks, run, lc, lh, sw, sa, killReq>>

T_HEnd(h) ==
  /\ run <= NRuns /\ h <= NHam /\ lh[h] < HamLen(h)
  /\ LET e == HEv(h) IN
     /\ e.e = "End" /\ InWindow(e)
     /\ \/ e.out = "done" /\ e.by = "old" /\ e.be = "old" /\ hw[h] = "old" /\ oldPhase \in LiveOld
        \/ e.out = "done" /\ e.by = "new" /\ e.be = "new" /\ hw[h] = "new"
        \* closed by the stopping (or dead) old worker before a complete head was read
        \/ e.out # "done" /\ e.be = "none" /\ hw[h] = "old" /\ oldPhase \in {"softStopping", "acked", "exited", "dead"}
        \* TCP relays have no request: a soft stop closes them at once
        \/ e.out # "done" /\ proto[e.a] = "tcp" /\ hw[h] = "old" /\ oldPhase \in {"softStopping", "acked", "exited", "dead"}
        \* head complete on the old worker and forwarded, then cut: only its death explains it
        \/ e.out # "done" /\ e.be = "old" /\ hw[h] = "old" /\ oldPhase = "dead"
        \* never accepted and the listening socket is gone
        \/ e.out # "done" /\ e.be = "none" /\ hw[h] = "backlog" /\ fd[e.a] = "closed"
  /\ lh' = [lh EXCEPT ![h] = @ + 1]
  /\ hw' = [hw EXCEPT ![h] = "none"]
  /\ h >= lastH /\ lastH' = h
  /\ UNCHANGED <<vars, run, lc, sw, sa, killReq>>

---------------------------------------------------------------------------
(* silent steps of the workers *)

T_Silent ==
  /\ run <= NRuns
  /\ \/ Old_ReturnListenSockets \/ Old_SoftStop \/ Old_ShutDownSessions \/ New_Start
     \/ (killReq /\ Old_Die)
     \* a slow backend gets to the end of its response on its own
     \/ \E r \in Reqs : sw[r] = "old" /\ Backend_Finish(r)
  /\ lastH' = 0
  /\ UNCHANGED <<run, lc, lh, hw, sw, sa, killReq>>

\* a run is matched when every stream is consumed; the next one starts from its own initial state
AllConsumed == lc = Len(Ctl) /\ \A h \in Hams : lh[h] = HamLen(h)
T_NextRun ==
  /\ run <= NRuns /\ AllConsumed
  /\ run' = run + 1
  /\ IF run + 1 <= NRuns
     THEN RunInitNext(run + 1)
     ELSE UNCHANGED <<vars, lc, lh, hw, sw, sa, killReq, lastH>>

TraceNext == T_Ctl \/ (\E h \in Hams : T_HConn(h) \/ T_HAccept(h) \/ T_HEnd(h)) \/ T_Silent \/ T_NextRun

TraceSpec == TraceInit /\ [][TraceNext]_allvars

---------------------------------------------------------------------------
(* acceptance *)

Consumed == lc + lh[1] + lh[2] + lh[3] + lh[4]
\* register 1: furthest run reached; 2: most events consumed in that run; 3: ctl events consumed at that point
Track ==
  /\ IF run > TLCGet(1) THEN TLCSet(1, run) /\ TLCSet(2, 0) /\ TLCSet(3, 0) ELSE TRUE
  /\ IF run = TLCGet(1) /\ run <= NRuns /\ Consumed > TLCGet(2) THEN TLCSet(2, Consumed) /\ TLCSet(3, lc) ELSE TRUE

TraceAccepted ==
  IF TLCGet(1) = NRuns + 1
  THEN PrintT(<<"TRACE-ACCEPTED", NRuns>>)
  ELSE /\ PrintT(<<"TRACE-REJECTED run", TLCGet(1), "of", NRuns>>)
       /\ PrintT(<<"STUCK", [pos |-> TLCGet(1), id |-> Rec[TLCGet(1)].run, consumed |-> TLCGet(2), ctl |-> TLCGet(3)]>>)
       /\ FALSE
=============================================================================
