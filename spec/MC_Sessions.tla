---------------------------- MODULE MC_Sessions ----------------------------
(* Model-checking instance of Sessions: 5 client sockets from 2 addresses, 2 clusters. *)
EXTENDS Sessions, IOUtils

MC_IpOf == [s \in Socks |-> IF s % 2 = 1 THEN "i1" ELSE "i2"]
\* c1 inherits the global per-IP limit, c2 overrides it
MC_IpOf1 == [s \in Socks |-> "i1"]
MC_Override == [c \in Clusters |-> IF c = "c2" THEN OverrideC2 ELSE -1]
\* generator steering: the step names of the scenario, one JSON string per line of the file named by $C16_SCRIPT
MC_Script == ndJsonDeserialize(IOEnv.C16_SCRIPT)
=============================================================================
