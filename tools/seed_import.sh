#!/bin/bash
# tools/seed_import.sh <property> <n>  : copies /tmp/seed-<P>-<n>/OUT/{change_k.diff,demo_k,demo_k.cmd,README_k.md} into
# /verif/seeded/<P>-<n><k>/ (patch.diff, demo/, demo.cmd, README.md, meta.json skeleton)
P="$1"; N="$2"; SRC=/tmp/seed-$P-$N/OUT
for k in 1 2 3; do
  [ -f "$SRC/change_$k.diff" ] || continue
  D=/verif/seeded/$P-$N$k; mkdir -p "$D/demo"
  cp "$SRC/change_$k.diff" "$D/patch.diff"
  cp -r "$SRC/demo_$k/." "$D/demo/" 2>/dev/null
  cp "$SRC/demo_$k.cmd" "$D/demo.cmd"
  cp "$SRC/README_$k.md" "$D/README.md" 2>/dev/null
  python3 - "$D" "$P" <<'PY'
import json,sys,os
d,p=sys.argv[1:]
m={"property":p,"source":"blind sub-agent given only the property text and a scratch worktree","needs_to_manifest":"see README.md","ran":"tools/seed_verify.sh (demo on unchanged tree, demo with patch, sozu's suite with patch, ./check quick against HEAD+patch)"}
json.dump(m,open(os.path.join(d,"meta.json"),"w"),indent=1)
PY
  echo "imported $D"
done
