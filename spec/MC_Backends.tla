---------------------------- MODULE MC_Backends ----------------------------
(* Bounded instances of Backends.tla for TLC. *)
EXTENDS Backends

\* three identities, two of them at one address (runtime removal is by address)
MCSlots3 == {[id |-> "b1", addr |-> 1], [id |-> "b2", addr |-> 2], [id |-> "b3", addr |-> 2]}
\* four identities: the same id at two addresses as well
MCSlots4 == MCSlots3 \cup {[id |-> "b3", addr |-> 3]}

\* one backup configuration, one sticky id (so that two backends can carry the same one), one other weight
MCConfigs == {[backup |-> FALSE, sticky |-> "",   weight |-> 100],
              [backup |-> TRUE,  sticky |-> "",   weight |-> 100],
              [backup |-> FALSE, sticky |-> "s1", weight |-> 100],
              [backup |-> FALSE, sticky |-> "",   weight |-> 50]}
MCConfigsGen == MCConfigs \cup {[backup |-> TRUE,  sticky |-> "s2", weight |-> 0],
                                [backup |-> FALSE, sticky |-> "s2", weight |-> 200]}

\* the smallest instance in which an open deviation shows (one primary configuration, one backup)
MCConfigsDev == {[backup |-> FALSE, sticky |-> "", weight |-> 100], [backup |-> TRUE, sticky |-> "", weight |-> 100]}

\* the smallest instances in which the self-test switches (ColdStartTable, FailKeepsClock, SucceedKeepsWait) show
MCSlots2 == {[id |-> "b1", addr |-> 1], [id |-> "b2", addr |-> 2]}
MCConfigs1 == {[backup |-> FALSE, sticky |-> "", weight |-> 100]}
MCConfigsSticky == {[backup |-> FALSE, sticky |-> "s1", weight |-> 100]}

\* the focused affinity generator: few configurations, so that many histories meet in the same (list, eligible set)
MCConfigsAff == {[backup |-> FALSE, sticky |-> "", weight |-> 100],
                 [backup |-> TRUE,  sticky |-> "", weight |-> 100],
                 [backup |-> FALSE, sticky |-> "", weight |-> 50]}

AllPolicies == {"rr", "random", "leastLoaded", "p2c", "hrw", "maglev"}

=============================================================================
