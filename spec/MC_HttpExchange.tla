-------------------------- MODULE MC_HttpExchange --------------------------
(* Bounded instances of HttpExchange: the fault points and sibling kinds are TLA+ definitions because a .cfg
   file cannot hold sets of tuples. tools/props/c02.py writes the .cfg files (which constants, which checks). *)
EXTENDS HttpExchange

AllFaults ==
  {<<"refuse", "accept">>, <<"stall", "accept">>}
  \cup {<<k, at>> : k \in {"close", "reset", "garbage", "stall"}, at \in {"prehdr", "midhdr"}}
  \cup {<<k, at>> : k \in {"close", "reset", "stall", "garbage", "rststream", "connstall"}, at \in {"posthdr", "midbody"}}
  \cup {<<"rststream", "prehdr">>, <<"connstall", "midhdr">>}
  \cup {<<"close", "between">>, <<"reset", "between">>, <<"none", "none">>}
  \cup {<<"goaway", at>> : at \in {"prehdr", "posthdr", "between"}}
\* a cheaper set for the two-request instances of the quick tier
CoreFaults ==
  {<<"refuse", "accept">>, <<"stall", "accept">>, <<"close", "prehdr">>, <<"garbage", "midhdr">>, <<"stall", "midhdr">>,
   <<"reset", "posthdr">>, <<"close", "midbody">>, <<"stall", "midbody">>, <<"rststream", "posthdr">>,
   <<"connstall", "midbody">>, <<"close", "between">>, <<"none", "none">>,
   <<"goaway", "prehdr">>, <<"goaway", "between">>}
\* the recovery instance (three requests) only needs the refusal
RecoveryFaults == {<<"refuse", "accept">>}
AllSiblings == SiblingKinds
NoSiblings == {}
CoreSiblings == {"b", "bdrip", "a", "noroute", "nobackend"}
BothProtos == {"h1", "h2"}
AllFramings == {"cl", "chunked", "close", "clclose"}
CoreFramings == {"cl"}
BothTimings == {"bf", "ff"}
BackFirst == {"bf"}
=============================================================================
