// Shared by replay_channel.rs and drive_channel.rs (included with #[path], NOT part of the `vh` library:
// the `send` symbol below must only exist in the two C11 binaries).
//
// 1. A fault-injection shim at the syscall boundary: the binary defines the C symbol `send`, which takes
//    precedence over libc's for std's `UnixStream::write` (-> `libc::send`). For the file descriptor of the
//    sending channel the shim follows a per-thread plan: accept at most k bytes for each planned chunk, then
//    answer EAGAIN. This gives byte-exact partial writes / would-block at any point on the REAL, unmodified
//    `Channel::writable()` code path, which the kernel itself never produces for frames of a few dozen bytes.
// 2. The concretisation of abstract frames (id, length, kind) into bytes / protobuf messages, and back.
// 3. The projection of a real channel pair onto the state of spec/Channel.tla.

use std::cell::RefCell;
use std::collections::VecDeque;
use std::io::{Read, Write};
use std::os::fd::AsRawFd;
use std::os::unix::net::UnixStream as StdUnixStream;

use serde_json::{Value, json};
use sozu_command_lib::channel::{Channel, ChannelError};
use sozu_command_lib::proto::command::QueryCertificatesFilters as Msg;

pub type Chan = Channel<Msg, Msg>;

// ---------------------------------------------------------------------------------------------------
// send() shim

pub struct ShimPlan {
    pub fd: i32,
    /// Some(chunks): accept min(len, chunk) for each, then EAGAIN. None: pass through (kernel decides).
    pub chunks: Option<VecDeque<usize>>,
    /// (requested length, returned value or -1 for EAGAIN) of every send() on `fd`
    pub calls: Vec<(usize, isize)>,
}

thread_local! {
    pub static SHIM: RefCell<Option<ShimPlan>> = const { RefCell::new(None) };
}

#[unsafe(no_mangle)]
pub unsafe extern "C" fn send(fd: libc::c_int, buf: *const libc::c_void, len: libc::size_t, flags: libc::c_int) -> libc::ssize_t {
    let mut clip: Option<usize> = None;
    let mut ours = false;
    let _ = SHIM.try_with(|s| {
        if let Ok(mut g) = s.try_borrow_mut() {
            if let Some(p) = g.as_mut() {
                if p.fd == fd {
                    ours = true;
                    if let Some(ch) = p.chunks.as_mut() {
                        clip = Some(ch.pop_front().unwrap_or(0));
                    }
                }
            }
        }
    });
    let n = match clip {
        Some(0) => {
            record(len, -1);
            unsafe { *libc::__errno_location() = libc::EAGAIN };
            return -1;
        }
        Some(k) => len.min(k),
        None => len,
    };
    let r = unsafe { libc::syscall(libc::SYS_sendto, fd, buf, n, flags, 0usize, 0usize) } as libc::ssize_t;
    if ours {
        record(len, if r < 0 { -1 } else { r as isize });
    }
    r
}

fn record(len: usize, ret: isize) {
    let _ = SHIM.try_with(|s| {
        if let Ok(mut g) = s.try_borrow_mut() {
            if let Some(p) = g.as_mut() {
                p.calls.push((len, ret));
            }
        }
    });
}

pub fn shim_arm(fd: i32, chunks: Option<Vec<usize>>) {
    SHIM.with(|s| *s.borrow_mut() = Some(ShimPlan { fd, chunks: chunks.map(VecDeque::from), calls: Vec::new() }));
}

pub fn shim_disarm() -> Vec<(usize, isize)> {
    SHIM.with(|s| s.borrow_mut().take().map(|p| p.calls).unwrap_or_default())
}

// ---------------------------------------------------------------------------------------------------
// frames <-> bytes

pub const D: usize = std::mem::size_of::<usize>();

fn varint_len(n: usize) -> usize {
    let mut n = n;
    let mut l = 1;
    while n >= 0x80 {
        n >>= 7;
        l += 1;
    }
    l
}

fn put_varint(out: &mut Vec<u8>, mut n: usize) {
    while n >= 0x80 {
        out.push((n as u8 & 0x7f) | 0x80);
        n >>= 7;
    }
    out.push(n as u8);
}

/// deterministic filler that depends on the frame id and the position, starting with "<id>:"
fn text(id: u64, n: usize, salt: u64) -> String {
    let mut s = format!("{id}:");
    s.truncate(n);
    let mut i = s.len() as u64;
    let mut v = Vec::from(s.into_bytes());
    while v.len() < n {
        v.push(b'a' + ((id.wrapping_mul(31).wrapping_add(i.wrapping_mul(7)).wrapping_add(salt)) % 26) as u8);
        i += 1;
    }
    String::from_utf8(v).unwrap()
}

/// A message whose protobuf encoding is exactly `payload` bytes (None when impossible: payload = 1).
pub fn make_msg(id: u64, payload: usize) -> Option<Msg> {
    if payload == 0 {
        return Some(Msg { domain: None, fingerprint: None });
    }
    // second field used as padding of 0, 2, 3 or 4 bytes so that every payload >= 2 is reachable
    for fp in [None, Some(0usize), Some(1), Some(2)] {
        let fpb = match fp {
            None => 0,
            Some(k) => 2 + k,
        };
        if payload < fpb {
            continue;
        }
        let rem = payload - fpb;
        if rem == 0 {
            return Some(Msg { domain: None, fingerprint: fp.map(|k| text(id, k, 3)) });
        }
        if rem < 2 {
            continue;
        }
        for vl in 1..=4usize {
            if rem < 1 + vl {
                break;
            }
            let n = rem - 1 - vl;
            if varint_len(n) == vl {
                return Some(Msg { domain: Some(text(id, n, 0)), fingerprint: fp.map(|k| text(id, k, 3)) });
            }
        }
    }
    None
}

pub fn encode_msg(m: &Msg) -> Vec<u8> {
    let mut out = Vec::new();
    if let Some(d) = &m.domain {
        out.push(0x0A);
        put_varint(&mut out, d.len());
        out.extend_from_slice(d.as_bytes());
    }
    if let Some(f) = &m.fingerprint {
        out.push(0x12);
        put_varint(&mut out, f.len());
        out.extend_from_slice(f.as_bytes());
    }
    out
}

/// Bytes of a frame put on the socket by the peer itself.
pub fn frame_bytes(id: u64, len: usize, decl: usize, kind: &str) -> Result<Vec<u8>, String> {
    let mut out = Vec::with_capacity(len);
    out.extend_from_slice(&decl.to_le_bytes());
    match kind {
        "good" => {
            let m = make_msg(id, len - D).ok_or_else(|| format!("no message of payload {}", len - D))?;
            out.extend_from_slice(&encode_msg(&m));
        }
        "undec" => out.resize(len, 0xFF),
        "short" => {}
        "over" => {
            for i in D..len {
                out.push((i % 251) as u8 | 0x80);
            }
        }
        k => return Err(format!("unknown frame kind {k}")),
    }
    if out.len() != len {
        return Err(format!("frame {kind} len {len}: built {} bytes", out.len()));
    }
    Ok(out)
}

pub fn error_name(e: &ChannelError) -> String {
    match e {
        ChannelError::NothingRead => "nothing_read".into(),
        ChannelError::MessageTooLarge { .. } => "too_large".into(),
        ChannelError::MessageLengthUnderDelimiter { .. } => "under_delimiter".into(),
        ChannelError::InvalidProtobufMessage(_) => "invalid_protobuf".into(),
        ChannelError::BufferFull { .. } => "buffer_full".into(),
        ChannelError::Connection(None) => "refused".into(),
        other => format!("other:{other:?}"),
    }
}

// ---------------------------------------------------------------------------------------------------
// the rig: two real channel ends with the harness as the wire between two socket pairs

pub struct Rig {
    pub tx: Chan,
    pub rx: Chan,
    pub tx_fd: i32,
    pub rx_fd: i32,
    a_peer: StdUnixStream,
    b_peer: StdUnixStream,
    /// bytes in flight (written by the sender or injected, not yet forwarded to the receiver's socket)
    pub wire: VecDeque<u8>,
    /// bytes accepted by write_message that have not come out of the sender's socket yet
    pub tx_expect: VecDeque<u8>,
    /// bytes forwarded to the receiver's socket minus bytes it has read (kept by the harness)
    pub sock: usize,
}

impl Rig {
    pub fn new(init: u64, max: u64) -> std::io::Result<Rig> {
        let (a, a_peer) = StdUnixStream::pair()?;
        let (b, b_peer) = StdUnixStream::pair()?;
        a.set_nonblocking(true)?;
        b.set_nonblocking(true)?;
        a_peer.set_nonblocking(true)?;
        b_peer.set_nonblocking(true)?;
        let tx_fd = a.as_raw_fd();
        let rx_fd = b.as_raw_fd();
        let tx: Chan = Channel::new(mio::net::UnixStream::from_std(a), init, max);
        let rx: Chan = Channel::new(mio::net::UnixStream::from_std(b), init, max);
        Ok(Rig { tx, rx, tx_fd, rx_fd, a_peer, b_peer, wire: VecDeque::new(), tx_expect: VecDeque::new(), sock: 0 })
    }

    /// Move everything the sender has put on its socket onto the wire; Err when the bytes are not the
    /// bytes of the accepted messages, in order.
    pub fn drain_sender(&mut self) -> Result<usize, String> {
        let mut buf = vec![0u8; 1 << 16];
        let mut total = 0;
        loop {
            match self.a_peer.read(&mut buf) {
                Ok(0) => break,
                Ok(n) => {
                    for (j, &b) in buf[..n].iter().enumerate() {
                        match self.tx_expect.pop_front() {
                            Some(e) if e == b => {}
                            Some(e) => return Err(format!("byte {} out of the sender's socket is {b:#x}, expected {e:#x}", total + j)),
                            None => return Err(format!("sender emitted {} unexpected extra byte(s)", n - j)),
                        }
                        self.wire.push_back(b);
                    }
                    total += n;
                }
                Err(e) if e.kind() == std::io::ErrorKind::WouldBlock => break,
                Err(e) => return Err(format!("reading the sender's socket: {e}")),
            }
        }
        Ok(total)
    }

    /// Forward up to k bytes of the wire into the receiver's socket; returns how many went through.
    pub fn wire_move(&mut self, k: usize) -> Result<usize, String> {
        let k = k.min(self.wire.len());
        let (a, b) = self.wire.as_slices();
        let chunk: Vec<u8> = a.iter().chain(b.iter()).take(k).copied().collect();
        let mut done = 0;
        while done < chunk.len() {
            match self.b_peer.write(&chunk[done..]) {
                Ok(0) => break,
                Ok(n) => done += n,
                Err(e) if e.kind() == std::io::ErrorKind::WouldBlock => break,
                Err(e) => return Err(format!("writing to the receiver's socket: {e}")),
            }
        }
        self.wire.drain(..done);
        self.sock += done;
        Ok(done)
    }

    /// bytes the kernel holds for the receiver (FIONREAD)
    pub fn sock_inq(&self) -> usize {
        let mut n: libc::c_int = 0;
        unsafe { libc::ioctl(self.rx_fd, libc::FIONREAD, &mut n) };
        n as usize
    }

    /// The state of spec/Channel.tla as seen through the public API (shape of `Proj`).
    pub fn project(&self) -> Value {
        let b = |x: bool| if x { 1 } else { 0 };
        json!({
            "tx": [self.tx.back_buf.available_data(), self.tx.back_buf.available_space(), self.tx.back_buf.capacity(),
                   b(self.tx.interest.is_writable()), b(self.tx.readiness.is_writable())],
            "rx": [self.rx.front_buf.available_data(), self.rx.front_buf.available_space(), self.rx.front_buf.capacity(),
                   b(self.rx.interest.is_readable()), b(self.rx.readiness.is_readable())],
            "wire": self.wire.len(),
            "sock": self.sock_inq(),
        })
    }
}

/// Concretisation self-test: the hand encoder agrees with prost for every payload size used, the
/// malformed payload really fails to decode, and the send() shim is in effect.
pub fn self_test(sizes: &[usize]) -> Result<(), String> {
    for &p in sizes {
        let Some(m) = make_msg(7, p) else { continue };
        let mut rig = Rig::new(64, (p + D + 64) as u64).map_err(|e| e.to_string())?;
        let enc = encode_msg(&m);
        if enc.len() != p {
            return Err(format!("make_msg({p}) encodes to {} bytes", enc.len()));
        }
        rig.tx.write_message(&m).map_err(|e| format!("self-test write: {e}"))?;
        if rig.tx.back_buf.available_data() != p + D {
            return Err(format!("payload {p}: sozu framed it as {} bytes", rig.tx.back_buf.available_data()));
        }
        let mut framed = (p + D).to_le_bytes().to_vec();
        framed.extend_from_slice(&enc);
        if rig.tx.back_buf.data() != &framed[..] {
            return Err(format!("payload {p}: hand encoding differs from prost's"));
        }
    }
    // shim
    let mut rig = Rig::new(64, 256).map_err(|e| e.to_string())?;
    rig.tx.write_message(&make_msg(1, 20).unwrap()).map_err(|e| e.to_string())?;
    rig.tx.handle_events(sozu_command_lib::ready::Ready::WRITABLE);
    shim_arm(rig.tx_fd, Some(vec![5]));
    let r = rig.tx.writable();
    let calls = shim_disarm();
    if !matches!(r, Ok(5)) || calls != vec![(28, 5), (23, -1)] {
        return Err(format!("send() shim not in effect: writable -> {r:?}, calls {calls:?}"));
    }
    Ok(())
}
