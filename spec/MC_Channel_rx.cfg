SPECIFICATION Spec
CONSTANTS
  D = 8
  InitCap = 16
  MaxCap = 32
  WriteSizes = {}
  InjGood = {8, 16, 25, 32}
  InjUndec = {20}
  InjShort = {7}
  InjOver = {33}
  MaxWrites = 0
  MaxInjects = 1
  MaxInFlight = 2
  MaxChunks = 1
  Scope = "rx"
  LazyInject = TRUE
  Canonical = TRUE
  Bounded = FALSE
  Record = FALSE
  History = FALSE
  Depth = 0
  Edges = FALSE
  Deviations = {}
INVARIANTS TypeOK P_C11_Slices P_C11_Bounded P_C11_Conservation P_C11_NoBufferFull P_C11_CanReceive Lemma_PosHalf
PROPERTIES P_C11_DeliverHead
CHECK_DEADLOCK FALSE
