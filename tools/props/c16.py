"""C16 - resources return to baseline, admission limits are never exceeded (spec/Sessions.tla).

1. TLC checks P_C16 (invariants + action properties) on the admission instance and the per-IP instance,
   and the liveness part (accepting resumes, the queue drains, sessions are reclaimed) under fairness.
   Self-test: with the deviation NoHystFloor (the code before fix f5d9aa4) TLC must find the wedge.
2. S->I: TLC generates (a) every SessionManager-level transition of a small instance, (b) random
   behaviours, (c) scripted behaviours (Max = 20: the 90 % hysteresis band; Max = 1: the floor);
   harness/replay_sessions executes them on the real sozu_lib::server::SessionManager and compares the
   object's visible state after every step.
3. I->S: harness/drive_sessions drives a real worker (HTTP, HTTPS, TCP listeners, max_connections 8 / 1 /
   20, short timeouts) with seeded waves of session outcomes; the recorded trace (hook events + the
   harness's own observations + QueryMetrics gauges at rest) is validated by TLC against
   spec/Trace_Sessions.tla.
"""
import json
import os
import shutil
import threading

import vlib
from props import c16_timer_pool   # the timer-wheel and buffer-pool legs (TimerWheel.tla, BufferPool.tla)

PID = "C16"

MC = """SPECIFICATION %(spec)s
CONSTANTS
  Max = %(max)d
  Socks = {%(socks)s}
  Toks = {%(toks)s}
  Ips = {%(ips)s}
  IpOf <- %(ipof)s
  Clusters = {%(clusters)s}
  Override <- MC_Override
  OverrideC2 = %(ovrc2)d
  OvrValues = {%(ovrvals)s}
  Limits = {%(limits)s}
  EvictOn = %(evict)s
  QT = %(qt)d
  Sys = %(sys)d
  MaxBack = %(maxback)d
  PoolCap = %(pool)d
  TlsChoices = {%(tls)s}
  CreateMayFail = %(mayfail)s
  PopAny = FALSE
  Deviations = {%(dev)s}
  Script <- %(script)s
  Gen = "%(gen)s"
  Depth = %(depth)d
%(checks)s
CHECK_DEADLOCK FALSE
%(view)s
"""
SAFETY = ("INVARIANTS TypeOK P_C16\n"
          "PROPERTIES P_C16_Admission P_C16_Hysteresis P_C16_PerIpAdmission")
LIVE = ("INVARIANTS TypeOK\n"
        "PROPERTIES P_C16_Resumes P_C16_QueueDrains P_C16_Reclaimed")


def rng(n):
    return ", ".join(str(i) for i in range(1, n + 1))


def strs(xs):
    return ", ".join('"%s"' % x for x in xs)


def write_cfg(wd, name, **kw):
    d = dict(spec="Spec", max=3, socks=rng(5), toks=rng(4), ips=strs(["i1"]), ipof="MC_IpOf1", clusters=strs(["c1"]),
             limits="0", ovrc2=1, ovrvals="", evict="TRUE", qt=1, sys=4, maxback=1, pool=7, tls="TRUE, FALSE", mayfail="TRUE", dev="",
             script="NoScript", gen="off", depth=0, checks=SAFETY, view="VIEW View")
    d.update(kw)
    path = os.path.join(wd, name)
    with open(path, "w") as f:
        f.write(MC % d)
    return path


PERIP = dict(ips=strs(["i1", "i2"]), ipof="MC_IpOf", clusters=strs(["c1", "c2"]), evict="FALSE", qt=0, tls="FALSE")

REQUIRED_ACTIONS_A = ["Env_Connect", "Tick", "AcceptPush", "Pop", "CheckLimitsWith", "EvictClose", "Create", "CreateFail",
                      "Incr", "HandshakeOk", "Link", "Unlink", "Upgrade", "Serve", "TrackIp", "Close"]
REQUIRED_ACTIONS_B = ["AcceptPush", "Pop", "CheckLimitsWith", "Create", "Incr", "Link", "TrackIp", "RejectIp",
                      "SetPerIpLimit", "SetClusterLimit", "Close"]


def hysteresis_script(mx, seed):
    """step names of a behaviour that fills to Max, is refused, drains through the hysteresis band and refills"""
    import random
    r = random.Random(seed)
    one = ["Connect", "AcceptPush", "Pop", "CheckLimits", "CreateOk", "Incr"]
    refused = ["Connect", "AcceptPush", "Pop", "CheckLimits"]
    sc = one * mx + refused
    nb = mx
    for _ in range(3):
        k = r.randint(1, max(1, min(4, nb)))
        sc += ["Close"] * k
        nb -= k
        # while accept is off nothing can be queued: drain below the band first
        low = max(1, (mx * 90) // 100)
        while nb >= low:
            sc += ["Close"]
            nb -= 1
        while nb < mx:
            sc += one
            nb += 1
        sc += refused
    sc += ["Close"] * nb
    return sc


def run_tlc_legs(wd, tier, devs, out):
    """design level, safety; results go into `out` (dict)"""
    thorough = tier == "thorough"
    workers = 8 if thorough else 4
    res = []
    try:
        # --- admission instance, eviction on
        kw = {} if thorough else dict(socks=rng(4), toks=rng(3))
        r = vlib.tlc("MC_Sessions", write_cfg(wd, "mc_adm.cfg", dev=strs(devs), **kw), PID, workers=workers, timeout=900, coverage=True)
        res.append(("admission", r))
        if not r["violated"]:
            vlib.require_actions_covered(r, REQUIRED_ACTIONS_A)
        # --- eviction off, and the slab gate (10 + 2 max) reachable through many idle entries
        r = vlib.tlc("MC_Sessions", write_cfg(wd, "mc_slab.cfg", sys=12, evict="FALSE", socks=rng(4), toks=rng(3), dev=strs(devs)), PID,
                     workers=workers, timeout=900)
        res.append(("slab_gate", r))
        # --- per-IP instance
        kw = dict(PERIP)
        if thorough:
            kw.update(max=3, socks=rng(3), toks=rng(3), limits="0, 1, 2", ovrvals="0, 1")
        else:
            kw.update(max=2, socks=rng(3), toks=rng(2), limits="0, 1", ovrvals="0, 1")
        r = vlib.tlc("MC_Sessions", write_cfg(wd, "mc_perip.cfg", dev=strs(devs), **kw), PID, workers=workers,
                     timeout=1500, coverage=thorough)
        res.append(("perip", r))
        if thorough and not r["violated"]:
            vlib.require_actions_covered(r, REQUIRED_ACTIONS_B)
        # self-tests of the per-IP part (the deviations model defect classes that seeded changes showed):
        #   LazyTrack      no slot recorded while the resolved limit is 0 -> a limit switched on at run time is exceeded
        #   SlotLeakOnFail a session that dies after the gate, without a backend, keeps its slots -> not back to baseline
        kw = dict(PERIP)
        kw.update(max=2, socks=rng(3), toks=rng(2), limits="0, 1", ovrvals="0, 1")
        st = []
        for dev, checks, want in (("LazyTrack", "INVARIANTS P_C16_PerIpServed", "P_C16_PerIpServed"),
                                  ("LazyTrack", "INVARIANTS P_C16_SlotRecorded", "P_C16_SlotRecorded"),
                                  ("SlotLeakOnFail", "INVARIANTS P_C16_TracksOnlyLive P_C16_Baseline", "P_C16_")):
            r = vlib.tlc("MC_Sessions", write_cfg(wd, "mc_dev_%s_%s.cfg" % (dev, want.strip("_")), dev=strs([dev]), checks=checks, **kw), PID,
                         workers=2, timeout=600)
            st.append((dev, want, r))
        out["selftest_perip"] = st
        if thorough:
            # the combined instance (2 addresses x 2 clusters x eviction x TLS, 5 sockets) is too large to
            # exhaust: random walks with every invariant and action property checked, time-boxed
            kw = dict(PERIP)
            kw.update(max=3, socks=rng(5), toks=rng(4), limits="0, 1, 2", ovrvals="0, 1, 2", evict="TRUE", qt=1, maxback=2, tls="TRUE, FALSE")
            r = vlib.tlc("MC_Sessions", write_cfg(wd, "mc_full_sim.cfg", dev=strs(devs), view="", **kw), PID, workers=8,
                         simulate="num=200000", depth=150, timeout=420)
            res.append(("full_random_walks", r))
        out["mc"] = res
    except Exception as e:  # noqa: reported by the main thread
        out["error"] = e


def run_live_legs(wd, tier, devs, out):
    """design level, liveness under fairness (no VIEW: TLC's liveness checking needs the real graph)"""
    res = []
    try:
        for mx in (2, 1):
            r = vlib.tlc("MC_Sessions", write_cfg(wd, "mc_live_%d.cfg" % mx, spec="FairSpec", max=mx, socks=rng(3), toks=rng(mx + (1 if tier == "thorough" else 0)),
                                                    pool=5, mayfail="FALSE", tls="FALSE", checks=LIVE, view="", dev=strs(devs)), PID,
                         workers=2, timeout=900)
            res.append(("live_max%d" % mx, r))
        # self-test of the liveness check: the code before fix f5d9aa4 must wedge for Max = 1
        r = vlib.tlc("MC_Sessions", write_cfg(wd, "mc_live_dev.cfg", spec="FairSpec", max=1, socks=rng(3), toks=rng(1), pool=5,
                                                mayfail="FALSE", checks=LIVE, view="", dev=strs(["NoHystFloor"])), PID,
                     workers=2, timeout=900)
        out["selftest_live"] = r
        out["live"] = res
    except Exception as e:  # noqa
        out["error_live"] = e


def generate(wd, tier, devs, bins, out):
    thorough = tier == "thorough"
    try:
        beh = os.path.join(wd, "behaviours.ndjson")
        seen = set()
        counts = {"last": 0, "hist": 0, "script": 0}
        tlc_res = []
        with open(beh, "w") as f:
            def sink(kind):
                def s(o):
                    line = json.dumps(o, sort_keys=True)
                    if line in seen:
                        return
                    seen.add(line)
                    counts[kind] += 1
                    f.write(line + "\n")
                return s
            # (a) every SessionManager-level transition of the per-IP instance (deterministic: one worker)
            kw = dict(PERIP)
            # (kept moderate: TLC's disk state queue cannot serialise these states once the queue spills)
            kw.update(max=2, socks=rng(3), toks=rng(2), limits="0, 1")
            g = vlib.tlc("MC_Sessions", write_cfg(wd, "gen_last.cfg", gen="last", checks="INVARIANTS EmitHist", view="VIEW GenView",
                                                   dev=strs(devs), **kw), PID, workers=1, timeout=1500, want_replay=True,
                         replay_sink=sink("last"))
            tlc_res.append(g)
            if thorough:
                # ... and of the admission instance with eviction and a reachable slab gate
                g = vlib.tlc("MC_Sessions", write_cfg(wd, "gen_last_adm.cfg", gen="last", checks="INVARIANTS EmitHist", view="VIEW GenView",
                                                       sys=12, socks=rng(4), toks=rng(3), tls="FALSE", dev=strs(devs)), PID, workers=1,
                             timeout=1500, want_replay=True, replay_sink=sink("last"))
                tlc_res.append(g)
                kw2 = dict(PERIP)
                kw2.update(max=2, socks=rng(3), toks=rng(2), limits="0, 1, 2", evict="TRUE")
                g = vlib.tlc("MC_Sessions", write_cfg(wd, "gen_last_lim.cfg", gen="last", checks="INVARIANTS EmitHist", view="VIEW GenView",
                                                       dev=strs(devs), **kw2), PID, workers=1, timeout=1500, want_replay=True,
                             replay_sink=sink("last"))
                tlc_res.append(g)
            # (b) random behaviours of the full instance
            kw = dict(PERIP)
            kw.update(max=3, socks=rng(5), toks=rng(4), limits="0, 1, 2", ovrvals="0, 1, 2", evict="TRUE", qt=1, maxback=2, tls="TRUE, FALSE")
            g = vlib.tlc("MC_Sessions", write_cfg(wd, "gen_hist.cfg", gen="hist", depth=40, checks="INVARIANTS EmitHist", view="",
                                                   dev=strs(devs), **kw), PID, workers=4,
                         simulate="num=%d" % (600 if thorough else 150), depth=50, timeout=600, want_replay=True,
                         replay_sink=sink("hist"))
            tlc_res.append(g)
            # (c) scripted: the hysteresis band for Max = 20, the floor for Max = 1 and 2
            for mx in (20, 2, 1):
                sc = hysteresis_script(mx, vlib.seed() + mx)
                sp = os.path.join(wd, "script_%d.ndjson" % mx)
                with open(sp, "w") as sf:
                    sf.write("".join(json.dumps(x) + "\n" for x in sc))
                before = counts["script"]
                g = vlib.tlc("MC_Sessions", write_cfg(wd, "gen_script_%d.cfg" % mx, max=mx, socks=rng(mx + 2), toks=rng(mx + 1),
                                                       limits="0", evict="FALSE", qt=0, maxback=0, pool=2 * mx + 4, tls="FALSE",
                                                       mayfail="FALSE", script="MC_Script", gen="hist", depth=len(sc),
                                                       checks="INVARIANTS EmitHist", view="", dev=strs(devs)), PID, workers=2,
                             simulate="num=2", depth=len(sc) + 5, timeout=600, want_replay=True, replay_sink=sink("script"),
                             env_extra={"C16_SCRIPT": sp})
                tlc_res.append(g)
                if counts["script"] == before:
                    raise vlib.ToolError("scripted generator (Max = %d) produced no behaviour: the scenario is not a behaviour of the spec" % mx)
        o = vlib.run_harness(bins["replay_sessions"], ["--overrides", "c2=1"], stdin_path=beh, timeout=1800)
        out["gen"] = (beh, counts, tlc_res, o)
    except Exception as e:  # noqa
        out["error_gen"] = e


DRIVE_PLAN_QUICK = [
    dict(name="mix8", args=["--max", "8", "--waves", "8"]),
    dict(name="max1", args=["--max", "1", "--waves", "2", "--kinds", "storm,h1", "--zombie", "1"]),
    dict(name="max20", args=["--max", "20", "--waves", "2", "--kinds", "storm,perip", "--zombie", "1"]),
    # the per-(cluster, ip) gate: connections served while the resolved limit is 0, the limit switched on at run time
    # (globally / per cluster), sessions that die after the gate without a backend, then the ordinary per-IP wave
    dict(name="gate8", args=["--max", "8", "--waves", "5", "--kinds", "enable,leak,perip,enable,leak"]),
]


def drive(wd, tier, bins, out):
    import time
    t0 = time.time()
    try:
        plan = list(DRIVE_PLAN_QUICK)
        if tier == "thorough":
            plan = [dict(name="mix8_%d" % k, args=["--max", "8", "--waves", "14"], seed=k) for k in range(4)] + plan[1:] + [
                dict(name="mix3", args=["--max", "3", "--waves", "8"], seed=7),
                dict(name="gate20", args=["--max", "20", "--waves", "10", "--kinds", "enable,leak,enable,perip,leak"], seed=9)]
        runs = []
        for k, p in enumerate(plan):
            trace = os.path.join(wd, "trace_%s.ndjson" % p["name"])
            seed = vlib.seed() * 7 + p.get("seed", k)
            o = vlib.run_harness(bins["drive_sessions"], p["args"] + ["--seed", str(seed), "--out", trace], timeout=900)
            summ = [x for x in o if x.get("kind") == "summary"]
            if not summ:
                raise vlib.ToolError("drive_sessions produced no summary (%s)" % p["name"])
            t = vlib.tlc_trace("Trace_Sessions", "Trace_Sessions.cfg", PID, trace, timeout=900)
            runs.append((p["name"], trace, summ[0], t))
            vlib.log("driver run %s done at +%.0fs" % (p["name"], time.time() - t0))
        if runs[0][3]["accepted"] and not canary(wd, runs[0][1]):
            raise vlib.ToolError("canary: a corrupted trace was accepted by Trace_Sessions")
        out["drive"] = runs
    except Exception as e:  # noqa
        out["error_drive"] = e


def unmatched(tr):
    """the first event TLC could not explain"""
    import re
    txt = ""
    k = tr["out"].find("first unmatched event")
    if k >= 0:
        txt = " ".join(tr["out"][k:k + 1500].split())
        end = txt.find("]>>")
        if end < 0:
            end = txt.find("] >>")
        txt = txt[txt.find("[") if "[" in txt else 0:end + 1 if end >= 0 else 700]
    m = re.search(r'ev \|-> "(\w+)"', txt)
    return (m.group(1) if m else "?"), txt[:700]


def canary(wd, trace):
    """a corrupted copy of an accepted trace must be rejected (the binding is not vacuous)"""
    ev = [json.loads(line) for line in open(trace)]
    idx = [i for i, e in enumerate(ev) if e.get("ev") == "sm_decr"]
    if not idx:
        return True
    i = idx[len(idx) // 2]
    ev[i]["nb"] += 1
    p = os.path.join(wd, "canary.ndjson")
    with open(p, "w") as f:
        f.write("".join(json.dumps(e) + "\n" for e in ev))
    t = vlib.tlc_trace("Trace_Sessions", "Trace_Sessions.cfg", PID, p, timeout=600)
    return not t["accepted"]


def run(tier, replay=None):
    rep = vlib.Report(PID, tier)
    wd = vlib.workdir(PID)
    bins = vlib.cargo_build(["replay_sessions", "drive_sessions"])
    devs = vlib.open_deviations(PID)

    if replay and c16_timer_pool.handles(replay):
        c16_timer_pool.replay(rep, replay)
        rep.finish()
    if replay:
        # --replay <trace.ndjson | behaviours.ndjson>: re-run one artefact verbosely
        first = open(replay).readline()
        try:
            whole = json.load(open(replay))
        except ValueError:
            whole = None
        if isinstance(whole, dict) and "input" in whole:
            # a saved S->I violation: replay the behaviour / transition it came from
            replay = os.path.join(wd, "replay_input.ndjson")
            with open(replay, "w") as f:
                f.write(json.dumps(whole["input"]) + "\n")
            first = ""
        if '"ev"' in first:
            t = vlib.tlc_trace("Trace_Sessions", "Trace_Sessions.cfg", PID, replay, timeout=900)
            print(t["out"][-3000:])
            if not t["accepted"]:
                kind, txt = unmatched(t)
                rep.violation("trace-rejected:" + kind, "consumed %s of %s; first unexplained event: %s" % (t["consumed"], t["total"], txt), open(replay).read())
            rep.cov["traces_validated_against_impl"] = 1
        else:
            o = vlib.run_harness(bins["replay_sessions"], ["--overrides", "c2=1"], stdin_path=replay, timeout=900)
            for v in o:
                print(json.dumps(v)[:3000])
                if v.get("kind") == "violation":
                    rep.violation("replay:" + v["class"], json.dumps(v["detail"])[:300], v)
            rep.cov["traces_validated_against_impl"] = 1
        rep.finish()

    tp = c16_timer_pool.start(tier, wd)   # own threads; merged into the report at the end
    out = {}
    th = [threading.Thread(target=run_tlc_legs, args=(wd, tier, devs, out)),
          threading.Thread(target=run_live_legs, args=(wd, tier, devs, out)),
          threading.Thread(target=generate, args=(wd, tier, devs, bins, out)),
          threading.Thread(target=drive, args=(wd, tier, bins, out))]
    for t in th:
        t.start()
    for t in th:
        t.join()
    for k in ("error", "error_live", "error_gen", "error_drive"):
        if k in out:
            raise out[k]

    # ---- 1. design level
    for name, r in out["mc"] + out["live"]:
        rep.add_tlc(r)
        if name == "full_random_walks":
            import re
            m = re.findall(r"Progress: (\d+) states checked, (\d+) traces generated", r["out"])
            if m:
                rep.extra["random_walks"] = {"states_checked": int(m[-1][0]), "traces": int(m[-1][1])}
                rep.cov["transitions"] += int(m[-1][0])
        if r["violated"]:
            rep.violation("spec:%s:%s" % (name, r["violated"]), "the specification violates %s on instance %s" % (r["violated"], name), r["out"])
    st = out["selftest_live"]
    rep.add_tlc(st)
    if not st["violated"] or ("Temporal" not in st["violated"] and "P_C16_Resumes" not in st["violated"]):
        raise vlib.ToolError("liveness self-test: deviation NoHystFloor (Max = 1) no longer violates P_C16_Resumes (%s)" % st["violated"])
    for dev, want, r in out["selftest_perip"]:
        rep.add_tlc(r)
        if not r["violated"] or want not in r["violated"]:
            raise vlib.ToolError("per-IP self-test: deviation %s no longer violates %s (%s)" % (dev, want, r["violated"]))

    # ---- 2. S->I
    beh, counts, gens, o = out["gen"]
    for g in gens:
        rep.add_tlc(g)
        if g["violated"]:
            raise vlib.ToolError("generator run reported a violation: %s" % g["violated"])
    summ = [x for x in o if x.get("kind") == "summary"]
    if not summ:
        raise vlib.ToolError("replay_sessions produced no summary")
    summ = summ[0]
    for v in o:
        if v.get("kind") == "violation":
            rep.violation("replay:%s:%s" % (v["class"], v["detail"].get("step", {}).get("op", "?")), json.dumps(v["detail"])[:300], v)
    if summ["violations"] and not rep.violations:
        rep.violation("replay:unlisted", "%d replay violations" % summ["violations"], summ)
    rep.cov["evaluations"] += summ["comparisons"]
    rep.add_samples(summ["samples"], 3)
    n_beh = summ["histories"] + summ["transitions"]

    # ---- 3. I->S
    accepted = 0
    sessions = 0
    for name, trace, s, t in out["drive"]:
        rep.add_tlc(t)
        sessions += s["connections"]
        rep.cov["evaluations"] += s["events"]
        if t["accepted"]:
            accepted += 1
        else:
            kind, txt = unmatched(t)
            if t["violated"]:
                kind = "invariant:" + t["violated"]
            dst = rep.save_replay("trace_%s.ndjson" % name, open(trace).read())
            rep.violation("trace-rejected:%s:%s" % (name, kind),
                          "run %s: consumed %s of %s events; first unexplained event: %s" % (name, t["consumed"], t["total"], txt),
                          open(trace).read(), name="trace_%s.ndjson" % name)
            vlib.log("trace %s rejected, kept as %s" % (name, dst))
        if s["underflows"]:
            rep.violation("gauge-underflow:%s" % name, json.dumps(s["underflows"])[:300], s)
        rep.add_samples([{"run": name, "max": s["max"], "connections": s["connections"], "max_served": s["max_served"],
                          "statuses": s["statuses"], "events": s["event_kinds"]}], 1)

    rep.cov["traces_validated_against_impl"] = n_beh + accepted
    rep.cov["distinct_nontrivial"] = summ["distinct"] + sessions
    rep.cov["exhaustive"] = True
    rep.extra["generator"] = counts
    rep.extra["driver_runs"] = [{"run": n, "events": s["events"], "connections": s["connections"], "accepted": t["accepted"]}
                                for n, _, s, t in out["drive"]]
    rep.cov["rule"] = ("S->I: distinct (pre-state, step, post-state) transitions at the SessionManager level plus distinct step-name "
                       "signatures of replayed behaviours; I->S: client connections driven through a real worker, each ending by one "
                       "of the outcomes complete / client abort / backend close / backend stall+timeout / backend refuse / idle timeout / "
                       "handshake failure / websocket upgrade / per-IP rejection / queue refusal. distinct_nontrivial = their sum")
    rep.assumptions += [
        "the model instances are small (max_connections 1..3 and 20 scripted, <=5 client sockets, 2 addresses, 2 clusters); the worker runs use max_connections 8, 1 and 20",
        "buffers, backend connection counts and slab entries of LIVE sessions are only bounded in the I->S leg (no hook inside the protocol state machines); they are compared exactly whenever no session is left",
        "the hook events are emitted by the worker thread in execution order; harness observations are merged causally (an action is logged before it is performed, an observation after draining the hook channel)",
        "served = the client received at least one byte from sozu and poll(POLLRDHUP) does not yet report the peer's close",
    ]
    tp.merge_into(rep)
    shutil.rmtree(os.path.join(wd, "states"), ignore_errors=True)
    rep.finish()
