----------------------------- MODULE BufferPool -----------------------------
(***************************************************************************)
(* The buffer pool of a worker (lib/src/pool.rs `Pool`, a wrapper of the   *)
(* `poule` crate) and the cursor algebra of a checked-out buffer           *)
(* (`Checkout`): property C16 "pooled buffers in use ... return to their   *)
(* baseline".                                                              *)
(*                                                                         *)
(* Pool state as the code keeps it: `cap` = poule's live capacity (grown   *)
(* lazily by doubling, never shrunk, bounded by MaxBuf), `init` = entries  *)
(* constructed so far, `freel` = poule's LIFO free list, `used`, `gauge` = *)
(* the process-wide BUFFER_COUNT behind the `buffer.in_use` gauge.         *)
(* `buf[i] = [pos, end, mem]`: BufferMetadata + the Cap bytes behind it    *)
(* (`mem` is the PHYSICAL array: the slice operations are memmoves, and    *)
(* what they did before the fixes depends on bytes outside the window).    *)
(* `held[g]`: the entry a `Checkout` guard g of the environment owns.      *)
(* Ghost: `logical[g]` = the bytes written and not yet consumed, in order, *)
(* edited by insert / replace / delete - what `data()` has to be.          *)
(* `ovf`: a memmove went past the end of the buffer (never, since 60c6bc0).*)
(***************************************************************************)
EXTENDS Naturals, Integers, Sequences, FiniteSets, TLC

CONSTANTS
  MinBuf, MaxBuf,   \* Pool::with_capacity(minimum, maximum, _)
  Cap,              \* capacity of one buffer (buffer_size rounded up to the entry alignment, 8)
  Alpha,            \* byte values written by the environment (naturals >= 1; 0 is never-written memory)
  MaxData,          \* longest slice given to write / insert_slice / replace_slice
  Guards,           \* identities of the Checkout guards the environment may hold at once
  BufOps,           \* subset of the buffer operation names exercised ({} = pool accounting only)
  MaxSteps,
  Deviations        \* subset of {"GrowFromZero", "ReplaceOverflow", "SliceIgnoresPosition"}: the code before
                    \* 2713787 / 60c6bc0 / b3c4f79 (self-tests of the properties; no open finding)

VARIABLES cap, init, freel, used, gauge, buf, held, logical, ovf, steps, last

vars == <<cap, init, freel, used, gauge, buf, held, logical, ovf, steps, last>>
view == <<cap, init, freel, used, gauge, buf, held, logical, ovf>>

NoIdx == -1
None == -1
ASSUME MinBuf <= MaxBuf /\ 0 \notin Alpha

---------------------------------------------------------------------------
(* Helpers *)

Min2(a, b) == IF a < b THEN a ELSE b
Max2(a, b) == IF a > b THEN a ELSE b
Put(f, k, v) == [x \in DOMAIN f \cup {k} |-> IF x = k THEN v ELSE f[x]]
Zero == [i \in 1..Cap |-> 0]
Datas == UNION {[1..n -> Alpha] : n \in 0..MaxData}

Avail(b) == b.end - b.pos
Space(b) == Cap - b.end
\* data(): offsets [pos, end) of the physical array (sequences are 1-based)
Data(b) == [i \in 1..(b.end - b.pos) |-> b.mem[b.pos + i]]

\* ptr::copy(src.., dst.., n) inside one buffer (memmove); offsets are 0-based.  A copy past the end is clipped
\* here and flagged (in the code it is a raw-pointer write beyond the slice: the next pool entry's header)
Move(mem, src, dst, n) == [i \in 1..Cap |-> IF i > dst /\ i <= dst + n /\ (i - dst + src) \in 1..Cap THEN mem[i - dst + src] ELSE mem[i]]
Over(dst, n) == n > 0 /\ dst + n > Cap
\* copy the caller's slice to offset dst
Store(mem, dst, d) == [i \in 1..Cap |-> IF i > dst /\ i <= dst + Len(d) THEN d[i - dst] ELSE mem[i]]

\* Checkout::shift
ShiftB(b) == IF b.pos > 0 THEN [pos |-> 0, end |-> b.end - b.pos, mem |-> Move(b.mem, b.pos, 0, b.end - b.pos)] ELSE b

\* Checkout::fill(cnt), cnt <= space: a shift when the free space falls below data + cnt
FillB(b, cnt) == LET b1 == [b EXCEPT !.end = @ + cnt] IN IF Space(b1) < Avail(b1) + cnt THEN ShiftB(b1) ELSE b1

\* io::Write::write = copy into space(), then fill
WriteB(b, d) == LET n == Min2(Len(d), Space(b)) IN [b |-> FillB([b EXCEPT !.mem = Store(@, b.end, SubSeq(d, 1, n))], n), ret |-> n]

\* Checkout::consume: a shift once the read position passes the middle
ConsumeB(b, k) == LET c == Min2(k, Avail(b))
                      b1 == [b EXCEPT !.pos = @ + c]
                  IN [b |-> IF b1.pos > Cap \div 2 THEN ShiftB(b1) ELSE b1, ret |-> c]

\* io::Read::read: no shift
ReadB(b, k) == LET c == Min2(k, Avail(b)) IN [b |-> [b EXCEPT !.pos = @ + c], ret |-> c, bytes |-> SubSeq(Data(b), 1, c)]

\* delete_slice(start, length): only strictly inside the data (deleting up to the end is refused)
DeleteB(b, s, l) ==
  IF s + l >= Avail(b) THEN [b |-> b, ret |-> None, ovf |-> FALSE]
  ELSE LET bg == b.pos + s IN
       [b |-> [b EXCEPT !.mem = Move(@, bg + l, bg, b.end - (bg + l)), !.end = @ - l], ret |-> Avail(b) - l, ovf |-> FALSE]

IgnorePos == "SliceIgnoresPosition" \in Deviations

\* replace_slice(data, start, length)
ReplaceB(b, d, s, l) ==
  LET dl == Len(d)
      bg == b.pos + s
      se == bg + dl
      src == IF IgnorePos THEN s + l ELSE bg + l          \* where the tail is taken from
      n == b.end - src
  IN IF \/ s + l > Avail(b)
        \/ b.pos + s + dl > Cap
        \/ ("ReplaceOverflow" \notin Deviations /\ b.end + dl - l > Cap)
     THEN [b |-> b, ret |-> None, ovf |-> FALSE]
     ELSE IF dl < l
     THEN [b |-> [b EXCEPT !.mem = Move(Store(@, bg, d), src, se, n), !.end = @ - (l - dl)],
           ret |-> Avail(b) - (l - dl), ovf |-> Over(se, n)]
     ELSE LET dst == IF IgnorePos THEN s + dl ELSE se IN
          [b |-> [b EXCEPT !.mem = Store(Move(@, src, dst, n), bg, d), !.end = @ + (dl - l)],
           ret |-> Avail(b) + (dl - l), ovf |-> Over(dst, n) \/ b.end + dl - l > Cap]

\* insert_slice(data, start): the guard is position + end + len (more than needed: refusals are safe)
InsertB(b, d, s) ==
  LET dl == Len(d)
      bg == b.pos + s
      src == IF IgnorePos THEN s ELSE bg
      dst == IF IgnorePos THEN s + dl ELSE bg + dl
      n == b.end - src
  IN IF s > Avail(b) \/ b.pos + b.end + dl > Cap
     THEN [b |-> b, ret |-> None, ovf |-> FALSE]
     ELSE [b |-> [b EXCEPT !.mem = Store(Move(@, src, dst, n), bg, d), !.end = @ + dl], ret |-> Avail(b) + dl, ovf |-> Over(dst, n)]

\* the same edits on the logical byte sequence
Splice(q, s, l, d) == SubSeq(q, 1, s) \o d \o SubSeq(q, s + l + 1, Len(q))

---------------------------------------------------------------------------
(* Pool *)

Step(lbl) == steps < MaxSteps /\ steps' = steps + 1 /\ last' = lbl
Held == {g \in Guards : held[g] # NoIdx}
B(g) == buf[held[g]]

\* Pool::checkout: grow (double, bounded) when everything live is in use, then poule's checkout: the entry freed
\* last, else a newly constructed one; the metadata is reset at checkout (poule calls Reset::reset), not at drop
GrowTo == IF used = cap /\ cap < MaxBuf
          THEN Min2(IF "GrowFromZero" \in Deviations THEN cap * 2 ELSE Max2(cap * 2, 1), MaxBuf)
          ELSE cap

Checkout(g) ==
  /\ held[g] = NoIdx
  /\ cap' = GrowTo
  /\ IF Len(freel) > 0 \/ init < GrowTo
     THEN LET fresh == Len(freel) = 0
              i == IF fresh THEN init ELSE Head(freel)
          IN /\ freel' = IF fresh THEN freel ELSE Tail(freel)
             /\ init' = IF fresh THEN init + 1 ELSE init
             /\ buf' = Put(buf, i, [pos |-> 0, end |-> 0, mem |-> IF fresh THEN Zero ELSE buf[i].mem])
             /\ held' = [held EXCEPT ![g] = i]
             /\ logical' = [logical EXCEPT ![g] = <<>>]
             /\ used' = used + 1 /\ gauge' = gauge + 1
             /\ Step([op |-> "Checkout", g |-> g, ok |-> TRUE])
     ELSE /\ UNCHANGED <<freel, init, buf, held, logical, used, gauge>>
          /\ Step([op |-> "Checkout", g |-> g, ok |-> FALSE])
  /\ UNCHANGED ovf

\* Drop of the guard: poule checkin (push on the free list), BUFFER_COUNT - 1
DropG(g) ==
  /\ held[g] # NoIdx
  /\ freel' = <<held[g]>> \o freel
  /\ held' = [held EXCEPT ![g] = NoIdx]
  /\ logical' = [logical EXCEPT ![g] = <<>>]
  /\ used' = used - 1 /\ gauge' = gauge - 1
  /\ Step([op |-> "Drop", g |-> g])
  /\ UNCHANGED <<cap, init, buf, ovf>>

---------------------------------------------------------------------------
(* Buffer operations through a held guard *)

Upd(g, b, q, o, lbl) ==
  /\ buf' = [buf EXCEPT ![held[g]] = b]
  /\ logical' = [logical EXCEPT ![g] = q]
  /\ ovf' = (ovf \/ o)
  /\ Step(lbl)
  /\ UNCHANGED <<cap, init, freel, used, gauge, held>>

On(g, name) == held[g] # NoIdx /\ name \in BufOps

Write(g, d) ==
  /\ On(g, "Write")
  /\ LET r == WriteB(B(g), d) IN
       Upd(g, r.b, logical[g] \o SubSeq(d, 1, r.ret), FALSE, [op |-> "Write", g |-> g, data |-> d, ret |-> r.ret])

Consume(g, k) ==
  /\ On(g, "Consume")
  /\ LET r == ConsumeB(B(g), k) IN
       Upd(g, r.b, SubSeq(logical[g], r.ret + 1, Len(logical[g])), FALSE, [op |-> "Consume", g |-> g, n |-> k, ret |-> r.ret])

Read(g, k) ==
  /\ On(g, "Read")
  /\ LET r == ReadB(B(g), k) IN
       Upd(g, r.b, SubSeq(logical[g], r.ret + 1, Len(logical[g])), FALSE, [op |-> "Read", g |-> g, n |-> k, ret |-> r.ret, bytes |-> r.bytes])

Shift(g) == On(g, "Shift") /\ Upd(g, ShiftB(B(g)), logical[g], FALSE, [op |-> "Shift", g |-> g])

Reset(g) == On(g, "Reset") /\ Upd(g, [B(g) EXCEPT !.pos = 0, !.end = 0], <<>>, FALSE, [op |-> "Reset", g |-> g])

\* sync(end, position): only a window inside the current one (what a parser that worked in place hands back)
Sync(g, e, p) ==
  /\ On(g, "Sync")
  /\ B(g).pos <= p /\ p <= e /\ e <= B(g).end
  /\ Upd(g, [B(g) EXCEPT !.pos = p, !.end = e], SubSeq(logical[g], p - B(g).pos + 1, e - B(g).pos), FALSE,
         [op |-> "Sync", g |-> g, e |-> e, p |-> p])

Delete(g, s, l) ==
  /\ On(g, "Delete")
  /\ LET r == DeleteB(B(g), s, l) IN
       Upd(g, r.b, IF r.ret = None THEN logical[g] ELSE Splice(logical[g], s, l, <<>>), r.ovf,
           [op |-> "Delete", g |-> g, s |-> s, l |-> l, ret |-> r.ret])

Replace(g, d, s, l) ==
  /\ On(g, "Replace")
  /\ LET r == ReplaceB(B(g), d, s, l) IN
       Upd(g, r.b, IF r.ret = None THEN logical[g] ELSE Splice(logical[g], s, l, d), r.ovf,
           [op |-> "Replace", g |-> g, data |-> d, s |-> s, l |-> l, ret |-> r.ret])

Insert(g, d, s) ==
  /\ On(g, "Insert")
  /\ LET r == InsertB(B(g), d, s) IN
       Upd(g, r.b, IF r.ret = None THEN logical[g] ELSE Splice(logical[g], s, 0, d), r.ovf,
           [op |-> "Insert", g |-> g, data |-> d, s |-> s, ret |-> r.ret])

---------------------------------------------------------------------------

Init == /\ cap = MinBuf /\ init = 0 /\ freel = <<>> /\ used = 0 /\ gauge = 0 /\ buf = <<>>
        /\ held = [g \in Guards |-> NoIdx] /\ logical = [g \in Guards |-> <<>>] /\ ovf = FALSE
        /\ steps = 0 /\ last = [op |-> "Init"]

Offs == 0..(Cap + 1)

PoolOps == (\E g \in Guards : Checkout(g)) \/ (\E g \in Guards : DropG(g))
BufferOps ==
  \/ \E g \in Guards, d \in Datas : Write(g, d)
  \/ \E g \in Guards, k \in Offs : Consume(g, k)
  \/ \E g \in Guards, k \in Offs : Read(g, k)
  \/ \E g \in Guards : Shift(g)
  \/ \E g \in Guards : Reset(g)
  \/ \E g \in Guards, e \in Offs, p \in Offs : Sync(g, e, p)
  \/ \E g \in Guards, s \in Offs, l \in Offs : Delete(g, s, l)
  \/ \E g \in Guards, d \in Datas, s \in Offs, l \in Offs : Replace(g, d, s, l)
  \/ \E g \in Guards, d \in Datas, s \in Offs : Insert(g, d, s)

Next == PoolOps \/ BufferOps
Spec == Init /\ [][Next]_vars

---------------------------------------------------------------------------
(* Properties (C16, buffer pool part) *)

Entries == 0..(init - 1)
FreeSet == {freel[i] : i \in 1..Len(freel)}
HeldSet == {held[g] : g \in Held}

TypeOK ==
  /\ cap \in 0..MaxBuf /\ init \in 0..MaxBuf /\ used \in Nat /\ gauge \in Nat
  /\ DOMAIN buf = Entries
  /\ \A g \in Guards : held[g] \in Entries \cup {NoIdx}
  /\ \A i \in Entries : buf[i].pos \in Nat /\ buf[i].end \in Nat /\ Len(buf[i].mem) = Cap

\* in use never exceeds the maximum, never negative, is exactly the number of live guards (so it is back to 0 -
\* the baseline - when every guard is dropped), the gauge follows; allocation never exceeds the maximum
P_C16p_InUse ==
  /\ used = Cardinality(Held) /\ gauge = used
  /\ used <= cap /\ cap <= MaxBuf /\ init <= cap
P_C16p_Baseline == Held = {} => (used = 0 /\ gauge = 0 /\ Len(freel) = init)
\* every constructed entry is either held by exactly one guard or on the free list once
P_C16p_NoAlias ==
  /\ \A g1, g2 \in Held : g1 # g2 => held[g1] # held[g2]
  /\ FreeSet \cap HeldSet = {} /\ FreeSet \cup HeldSet = Entries /\ Len(freel) = Cardinality(FreeSet)
\* position <= end <= capacity
P_C16p_Cursor == \A g \in Held : B(g).pos <= B(g).end /\ B(g).end <= Cap
\* data() is exactly what was written and not consumed, in order, across shift / insert / replace / delete
P_C16p_Data == \A g \in Held : Data(B(g)) = logical[g]
\* no copy ever leaves the buffer
P_C16p_NoOverflow == ~ovf

P_C16p == P_C16p_InUse /\ P_C16p_Baseline /\ P_C16p_NoAlias /\ P_C16p_Cursor /\ P_C16p_Data /\ P_C16p_NoOverflow

\* a checked-out buffer is empty whatever its previous user left (nothing of a previous session is visible)
P_C16p_Fresh ==
  [][(last'.op = "Checkout" /\ last'.ok) =>
        /\ held'[last'.g] \notin HeldSet
        /\ buf'[held'[last'.g]].pos = 0 /\ buf'[held'[last'.g]].end = 0 /\ logical'[last'.g] = <<>>]_vars
\* the growth policy: only a checkout that finds every live buffer in use grows the pool, by doubling (at least
\* to 1) up to the maximum; it never shrinks; a checkout fails only when the maximum itself is in use
\* (last'.op = "Init": a trace starts over with a new pool)
P_C16p_Growth ==
  [][last'.op # "Init" =>
       /\ cap' >= cap
       /\ cap' # cap => (last'.op = "Checkout" /\ used = cap /\ cap' = Min2(Max2(2 * cap, 1), MaxBuf))
       /\ (last'.op = "Checkout" /\ ~last'.ok) => used = MaxBuf]_vars
\* an operation that cannot be done answers None / 0 and changes nothing visible
P_C16p_Refusal ==
  [][/\ (last'.op \in {"Delete", "Replace", "Insert"} /\ last'.ret = None) => (buf' = buf /\ logical' = logical)
     /\ (last'.op \in {"Write", "Consume", "Read"} /\ last'.ret = 0) => logical' = logical]_vars
=============================================================================
