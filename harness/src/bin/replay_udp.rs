//! S->I replayer for spec/UdpFlows.tla (property C19).
//!
//! stdin: ndjson produced by TLC, two kinds of lines:
//!   * transition   {"pre":StateT,"inp":{..},"out":[..],"post":StateT}   (generator "edges":
//!     every transition of the exhaustively explored state graph)
//!   * behaviour    {"init":StateT,"steps":[{"inp","out","post":StateT}..]} (generator "hist":
//!     TLC -simulate, long random behaviours of a larger universe)
//! StateT = [n, now, maxRx, slabLen, free, CfgT, TableT, ObsT] (see the spec).
//!
//! Transitions: the replayer rebuilds the graph, computes a shortest path from an initial state
//! to every state, and for EVERY transition executes path + transition on a fresh REAL
//! `sozu_lib::protocol::udp::UdpManager` (injected Instants), comparing, for the transition under
//! test, the exact output sequence drained from `poll_output()` and the state visible through
//! the public accessors (`flow(id)` for every id, `flow_count`, `poll_timeout`, `max_flows`,
//! `is_draining`, `affinity_with_port`) with the spec's prediction. Transitions below a failed
//! tree transition are skipped (counted), so every reported violation is a minimal history.
//! Behaviours: every step is compared, in the order TLC generated them.
//!
//! The SelectBackend affinity hash is opaque: it is compared relationally (same spec key <=>
//! same hash, across the whole input, for the one hash seed of this process).
//!
//! stdout: {"kind":"violation",...} lines and one {"kind":"summary",...}.

use std::collections::{BTreeMap, HashMap, VecDeque};
use std::io::{BufRead, BufReader};
use std::sync::Mutex;
use std::time::Instant;

use serde_json::{Value, json};

#[path = "../udp_common.rs"]
mod common;
use common::*;

struct Edge {
    pre: usize,
    post: usize,
    inp: Value,
    out: Value,
}

struct Graph {
    ids: HashMap<String, usize>,
    states: Vec<Value>,
    edges: Vec<Edge>,
}

impl Graph {
    fn node(&mut self, v: &Value) -> usize {
        let key = v.to_string();
        if let Some(&i) = self.ids.get(&key) {
            return i;
        }
        let i = self.states.len();
        self.ids.insert(key, i);
        self.states.push(v.clone());
        i
    }
}

/// relational view of the affinity hash, shared by all replays of this process
#[derive(Default)]
struct KeyRel {
    by_key: HashMap<String, String>,
    by_hash: HashMap<String, String>,
}

struct Ctx {
    seed: u64,
    conc: Conc,
    hash_seed: u64,
    keys: Mutex<KeyRel>,
    violations: Mutex<Vec<Value>>,
    classes: Mutex<BTreeMap<String, u64>>,
    cover: Mutex<BTreeMap<String, u64>>,
}

fn state_now(s: &Value) -> i64 {
    s[1].as_i64().unwrap()
}
fn state_obs(s: &Value) -> &Value {
    &s[7]
}

/// Compare the drained outputs with the predicted ones. Returns None when they agree, or the
/// class of the first difference.
fn compare_outputs(ctx: &Ctx, reg: &Registry, expected: &Value, real: &[sozu_lib::protocol::udp::Output]) -> (Option<String>, Value) {
    let mut view = KeyView::Raw;
    let got: Vec<Value> = real.iter().map(|o| project_output(&ctx.conc, reg, o, &mut view)).collect();
    let exp = expected.as_array().cloned().unwrap_or_default();
    let n = exp.len().max(got.len());
    for j in 0..n {
        let (e, g) = (exp.get(j), got.get(j));
        match (e, g) {
            (Some(e), Some(g)) => {
                if e["k"] == "SelectBackend" && g["k"] == "SelectBackend" {
                    if e["flow"] != g["flow"] || e["cluster"] != g["cluster"] {
                        return (Some("out:SelectBackend".into()), Value::Array(got));
                    }
                    let k = e["key"].to_string();
                    let h = g["key"]["hash"].as_str().unwrap_or("").to_string();
                    let mut rel = ctx.keys.lock().unwrap();
                    let ok1 = rel.by_key.get(&k).map(|x| *x == h).unwrap_or(true);
                    let ok2 = rel.by_hash.get(&h).map(|x| *x == k).unwrap_or(true);
                    if !(ok1 && ok2) {
                        return (Some("out:SelectBackend.key".into()), Value::Array(got));
                    }
                    rel.by_key.insert(k.clone(), h.clone());
                    rel.by_hash.insert(h, k);
                } else if e != g {
                    let kind = kind_name(e);
                    let kind = if e["k"] == g["k"] && e["m"] == g["m"] {
                        // name the first differing field
                        let mut f = String::new();
                        if let (Some(eo), Some(go)) = (e.as_object(), g.as_object()) {
                            for (key, val) in eo {
                                if go.get(key) != Some(val) {
                                    f = format!(".{key}");
                                    break;
                                }
                            }
                        }
                        format!("{kind}{f}")
                    } else {
                        format!("{kind}/{}", kind_name(g))
                    };
                    return (Some(format!("out:{kind}")), Value::Array(got));
                }
            }
            (Some(e), None) => return (Some(format!("out:missing-{}", kind_name(e))), Value::Array(got)),
            (None, Some(g)) => return (Some(format!("out:extra-{}", kind_name(g))), Value::Array(got)),
            (None, None) => {}
        }
    }
    (None, Value::Array(got))
}

fn kind_name(o: &Value) -> String {
    match (o["k"].as_str().unwrap_or("?"), o["m"].as_str()) {
        ("Metric", Some(m)) => format!("Metric.{m}"),
        (k, _) => k.to_string(),
    }
}

fn compare_obs(expected: &Value, got: &Value) -> Option<String> {
    if expected == got {
        return None;
    }
    let names = ["armed", "maxFlows", "draining", "withPort", "flows"];
    for (i, nme) in names.iter().enumerate() {
        if expected[i] != got[i] {
            if *nme == "flows" {
                let fnames = ["id", "client.ip", "client.port", "phase", "backend", "pending", "pending.len", "deadline", "gen", "req", "resp", "firstPP", "cfg"];
                let (ea, ga) = (expected[i].as_array().cloned().unwrap_or_default(), got[i].as_array().cloned().unwrap_or_default());
                if ea.len() != ga.len() {
                    return Some("obs:flow_count".into());
                }
                for (e, g) in ea.iter().zip(ga.iter()) {
                    for (j, fnm) in fnames.iter().enumerate() {
                        if e[j] != g[j] {
                            return Some(format!("obs:flow.{fnm}"));
                        }
                    }
                }
            }
            return Some(format!("obs:{nme}"));
        }
    }
    Some("obs:flow_count".into())
}

/// Execute `path` (no comparison: each of its transitions is itself under test elsewhere) and then
/// the transition under test with full comparison. Returns a violation record or None.
fn replay_edge(ctx: &Ctx, g: &Graph, path: &[usize], eidx: usize) -> Option<(String, Value)> {
    let root = &g.states[g.edges[*path.first().unwrap_or(&eidx)].pre];
    let mut mgr = new_manager(&ctx.conc, &root[5], state_obs(root)[1].as_i64().unwrap(), root[2].as_i64().unwrap(), ctx.hash_seed);
    let mut reg = Registry::default();
    for &p in path {
        let e = &g.edges[p];
        let r = apply(&mut mgr, &ctx.conc, &mut reg, &e.inp, state_now(&g.states[e.pre]));
        if r.panic.is_some() {
            return None; // reported where that transition is the one under test
        }
    }
    let e = &g.edges[eidx];
    let now = state_now(&g.states[e.pre]);
    let r = apply(&mut mgr, &ctx.conc, &mut reg, &e.inp, now);
    let detail = |class: &str, got_out: Value, got_obs: Value| {
        json!({
            "init": g.states[g.edges[*path.first().unwrap_or(&eidx)].pre],
            "history": path.iter().map(|&p| json!({"inp": g.edges[p].inp, "now": state_now(&g.states[g.edges[p].pre])})).collect::<Vec<_>>(),
            "step": {"inp": e.inp, "now": now},
            "expected": {"out": e.out, "obs": state_obs(&g.states[e.post])},
            "got": {"out": got_out, "obs": got_obs},
            "class": class,
            "concretisation": {"time_unit_ms": ctx.conc.time_unit, "len_unit": ctx.conc.len_unit, "port_base": ctx.conc.port_base, "hash_seed": ctx.hash_seed, "seed": ctx.seed},
        })
    };
    if let Some(p) = r.panic {
        return Some(("panic".into(), detail("panic", json!({"panic": p}), Value::Null)));
    }
    let (c, got_out) = compare_outputs(ctx, &reg, &e.out, &r.outputs);
    let got_obs = project_state(&ctx.conc, &reg, &mgr);
    if let Some(c) = c {
        return Some((c.clone(), detail(&c, got_out, got_obs)));
    }
    if let Some(c) = compare_obs(state_obs(&g.states[e.post]), &got_obs) {
        return Some((c.clone(), detail(&c, got_out, got_obs)));
    }
    None
}

fn report(ctx: &Ctx, class: String, detail: Value) {
    *ctx.classes.lock().unwrap().entry(class.clone()).or_default() += 1;
    // a few detailed examples per class are enough; every mismatch is counted in `classes`
    let mut v = ctx.violations.lock().unwrap();
    let same = v.iter().filter(|x| x["class"] == class.as_str()).count();
    if same < 3 && v.len() < 15 {
        v.push(json!({"kind":"violation","class":class,"detail":detail}));
    }
}

fn replay_behaviour(ctx: &Ctx, b: &Value) -> (u64, bool) {
    let init = &b["init"];
    let mut mgr = new_manager(&ctx.conc, &init[5], state_obs(init)[1].as_i64().unwrap(), init[2].as_i64().unwrap(), ctx.hash_seed);
    let mut reg = Registry::default();
    let mut now = state_now(init);
    let mut steps = 0;
    let empty = Vec::new();
    let all = b["steps"].as_array().unwrap_or(&empty);
    for (k, st) in all.iter().enumerate() {
        // a step may carry its own time (re-execution of a stored violation) and no prediction
        now = st.get("now").and_then(|v| v.as_i64()).unwrap_or(now);
        let r = apply(&mut mgr, &ctx.conc, &mut reg, &st["inp"], now);
        steps += 1;
        let fail = |class: &str, got_out: Value, got_obs: Value| {
            json!({"init": init, "history": all[..k].iter().map(|s| json!({"inp": s["inp"]})).collect::<Vec<_>>(),
                   "step": {"inp": st["inp"], "now": now}, "expected": {"out": st["out"], "obs": state_obs(&st["post"])},
                   "got": {"out": got_out, "obs": got_obs}, "class": class, "behaviour": true,
                   "concretisation": {"time_unit_ms": ctx.conc.time_unit, "len_unit": ctx.conc.len_unit, "port_base": ctx.conc.port_base, "hash_seed": ctx.hash_seed, "seed": ctx.seed}})
        };
        if let Some(p) = r.panic {
            report(ctx, "panic".into(), fail("panic", json!({"panic": p}), Value::Null));
            return (steps, false);
        }
        if st.get("out").map(|o| o.is_array()).unwrap_or(false) {
            let (c, got_out) = compare_outputs(ctx, &reg, &st["out"], &r.outputs);
            let got_obs = project_state(&ctx.conc, &reg, &mgr);
            let c = c.or_else(|| compare_obs(state_obs(&st["post"]), &got_obs));
            if let Some(c) = c {
                report(ctx, c.clone(), fail(&c, got_out, got_obs));
                return (steps, false);
            }
        }
        if st["post"].is_array() {
            now = state_now(&st["post"]);
        }
    }
    (steps, true)
}

fn main() {
    vh::util::quiet_panics();
    let args: Vec<String> = std::env::args().collect();
    let arg = |name: &str, def: &str| -> String {
        args.iter().position(|a| a == name).and_then(|i| args.get(i + 1)).cloned().unwrap_or(def.to_string())
    };
    let seed: u64 = arg("--seed", "1").parse().unwrap();
    let threads: usize = arg("--threads", "8").parse().unwrap();
    let variant = seed % 3;
    let conc = Conc::new(Instant::now(), [1000, 250, 7][variant as usize], [8, 5, 16][variant as usize], [9000, 40000, 0][variant as usize], (seed % 200) as u8);
    let ctx = Ctx {
        seed,
        conc,
        hash_seed: seed.wrapping_mul(0x9E37_79B9_7F4A_7C15) ^ 0xABCD,
        keys: Mutex::new(KeyRel::default()),
        violations: Mutex::new(Vec::new()),
        classes: Mutex::new(BTreeMap::new()),
        cover: Mutex::new(BTreeMap::new()),
    };

    let mut g = Graph { ids: HashMap::new(), states: Vec::new(), edges: Vec::new() };
    let mut behaviours: Vec<Value> = Vec::new();
    let stdin = std::io::stdin();
    for line in BufReader::new(stdin.lock()).lines() {
        let line = line.expect("read");
        if line.trim().is_empty() {
            continue;
        }
        let v: Value = serde_json::from_str(&line).expect("json line");
        if v.get("steps").is_some() {
            behaviours.push(v);
        } else if v.get("pre").is_some() {
            let pre = g.node(&v["pre"]);
            let post = g.node(&v["post"]);
            g.edges.push(Edge { pre, post, inp: v["inp"].clone(), out: v["out"].clone() });
        }
    }

    // --- transitions: BFS tree from the initial states
    let n_nodes = g.states.len();
    let mut succ: Vec<Vec<usize>> = vec![Vec::new(); n_nodes];
    for (i, e) in g.edges.iter().enumerate() {
        succ[e.pre].push(i);
    }
    let mut parent: Vec<Option<usize>> = vec![None; n_nodes];
    let mut depth: Vec<usize> = vec![usize::MAX; n_nodes];
    let mut q = VecDeque::new();
    for (i, s) in g.states.iter().enumerate() {
        let is_init = s[0] == 0 && s[1] == 0 && state_obs(s)[4].as_array().map(|a| a.is_empty()).unwrap_or(false) && s[3] == 0;
        if is_init {
            depth[i] = 0;
            q.push_back(i);
        }
    }
    let roots = q.len();
    while let Some(u) = q.pop_front() {
        for &ei in &succ[u] {
            let v = g.edges[ei].post;
            if depth[v] == usize::MAX {
                depth[v] = depth[u] + 1;
                parent[v] = Some(ei);
                q.push_back(v);
            }
        }
    }
    let unreachable = depth.iter().filter(|d| **d == usize::MAX).count();
    let path_to = |node: usize| -> Vec<usize> {
        let mut p = Vec::new();
        let mut cur = node;
        while let Some(ei) = parent[cur] {
            p.push(ei);
            cur = g.edges[ei].pre;
        }
        p.reverse();
        p
    };

    // tree transitions first, level by level, so that failures taint their subtree
    let mut tainted = vec![false; n_nodes];
    let mut order: Vec<usize> = (0..n_nodes).filter(|i| depth[*i] != usize::MAX).collect();
    order.sort_by_key(|i| depth[*i]);
    let mut replayed = 0u64;
    let mut skipped = 0u64;
    for &v in &order {
        if let Some(ei) = parent[v] {
            let u = g.edges[ei].pre;
            if tainted[u] {
                tainted[v] = true;
                skipped += 1;
                continue;
            }
            let path = path_to(u);
            replayed += 1;
            if let Some((c, d)) = replay_edge(&ctx, &g, &path, ei) {
                tainted[v] = true;
                report(&ctx, c, d);
            }
        }
    }
    // all remaining transitions, in parallel
    let work: Vec<usize> = (0..g.edges.len()).filter(|&ei| parent[g.edges[ei].post] != Some(ei) && depth[g.edges[ei].pre] != usize::MAX).collect();
    let counters = Mutex::new((0u64, 0u64));
    let chunk = work.len().div_ceil(threads.max(1)).max(1);
    std::thread::scope(|sc| {
        for part in work.chunks(chunk) {
            let (ctx, g, tainted, counters, path_to) = (&ctx, &g, &tainted, &counters, &path_to);
            sc.spawn(move || {
                let (mut r, mut s) = (0u64, 0u64);
                for &ei in part {
                    let u = g.edges[ei].pre;
                    if tainted[u] {
                        s += 1;
                        continue;
                    }
                    r += 1;
                    if let Some((c, d)) = replay_edge(ctx, g, &path_to(u), ei) {
                        report(ctx, c, d);
                    }
                }
                let mut c = counters.lock().unwrap();
                c.0 += r;
                c.1 += s;
            });
        }
    });
    {
        let c = counters.lock().unwrap();
        replayed += c.0;
        skipped += c.1;
    }
    {
        let mut cov = ctx.cover.lock().unwrap();
        for e in &g.edges {
            note_cover(&mut cov, &e.inp, &e.out);
        }
    }

    // --- behaviours
    let mut beh_steps = 0u64;
    let mut beh_ok = 0u64;
    for b in &behaviours {
        let (s, ok) = replay_behaviour(&ctx, b);
        beh_steps += s;
        beh_ok += ok as u64;
        let mut cov = ctx.cover.lock().unwrap();
        for st in b["steps"].as_array().into_iter().flatten() {
            note_cover(&mut cov, &st["inp"], &st["out"]);
        }
    }

    for v in ctx.violations.lock().unwrap().iter() {
        vh::util::emit(v);
    }
    let mut samples = Vec::new();
    for e in g.edges.iter().filter(|e| e.out.as_array().map(|a| a.len() >= 4).unwrap_or(false)).take(3) {
        samples.push(json!({"inp": e.inp, "out": e.out}).to_string());
    }
    vh::util::emit(&json!({
        "kind": "summary",
        "nodes": n_nodes, "roots": roots, "unreachable": unreachable,
        "edges": g.edges.len(), "replayed": replayed, "skipped_below_failure": skipped,
        "behaviours": behaviours.len(), "behaviours_ok": beh_ok, "behaviour_steps": beh_steps,
        "classes": *ctx.classes.lock().unwrap(),
        "cover": *ctx.cover.lock().unwrap(),
        "distinct_keys": ctx.keys.lock().unwrap().by_key.len(),
        "samples": samples,
        "concretisation": {"time_unit_ms": ctx.conc.time_unit, "len_unit": ctx.conc.len_unit, "port_base": ctx.conc.port_base},
    }));
}
