---------------------------- MODULE ScmManifest ----------------------------
(***************************************************************************)
(* Size arithmetic of the listener hand-off message                        *)
(* (command/src/scm_socket.rs, send_listeners / receive_listeners).        *)
(*                                                                         *)
(* One SCM message = one `ListenersCount` protobuf, length-delimited       *)
(* (four `repeated string` fields http=1 tls=2 tcp=3 udp=4, one textual    *)
(* socket address per listener) + one SCM_RIGHTS control message with one  *)
(* fd per address.  The receiver reads the bytes into a buffer of          *)
(* BufBytes (= MAX_BYTES_OUT) and the fds into an array of MaxFds          *)
(* (= MAX_FDS_OUT), then decodes.  Both constants are READ FROM THE LINKED *)
(* CRATE by the check driver and passed in here, so the arithmetic below   *)
(* is about the code that is being checked.                                *)
(***************************************************************************)
EXTENDS Naturals, Sequences

CONSTANTS MaxFds,     \* MAX_FDS_OUT
          BufBytes    \* MAX_BYTES_OUT

\* Textual forms of std::net::SocketAddr (Display), by class:
\*   v4min  "1.1.1.1:1"                                                   shortest IPv4
\*   v4s    "127.0.0.1:8080"                                              (bindable, used by the replayer)
\*   v4l    "255.255.255.255:65535"                                       longest IPv4
\*   v6min  "[::]:0"                                                      shortest IPv6
\*   v6s    "[::1]:8080"                                                  (bindable, used by the replayer)
\*   v6l    "[ffff:ffff:ffff:ffff:ffff:ffff:ffff:ffff]:65535"             longest IPv6 without zone
\*   v6x    "[ffff:ffff:ffff:ffff:ffff:ffff:ffff:ffff%4294967295]:65535"  longest IPv6 with zone (scope id)
AddrClasses == {"v4min", "v4s", "v4l", "v6min", "v6s", "v6l", "v6x"}
AddrLen(c) ==
  CASE c = "v4min" -> 9  [] c = "v4s" -> 14 [] c = "v4l" -> 21
    [] c = "v6min" -> 6  [] c = "v6s" -> 10 [] c = "v6l" -> 47 [] c = "v6x" -> 58

VarintLen(n) == IF n < 128 THEN 1 ELSE IF n < 16384 THEN 2 ELSE IF n < 2097152 THEN 3 ELSE 4

\* one `repeated string` element: tag byte + length varint + text
EntryBytes(len) == 1 + VarintLen(len) + len

RECURSIVE SumEntries(_)
SumEntries(lens) == IF lens = <<>> THEN 0 ELSE EntryBytes(Head(lens)) + SumEntries(Tail(lens))

\* encode_length_delimited_to_vec: length prefix + body
Framed(body) == VarintLen(body) + body
ManifestBytes(lens) == Framed(SumEntries(lens))
UniformBytes(n, len) == Framed(n * EntryBytes(len))

\* What the code does: recvmsg into BufBytes, then decode; the decode succeeds iff the whole message fit,
\* and the fd array / manifest consistency check passes iff the count fits.
ReceiveOk(nfds, bytes) == nfds <= MaxFds /\ bytes <= BufBytes

\* The property's demand on the codec: any listener set up to the advertised fd limit can be handed over.
\* (EntryBytes is monotone, so uniform sets of each class bound every mix.)
P_C10_ManifestFits ==
  \A c \in AddrClasses : \A n \in 0..MaxFds : ReceiveOk(n, UniformBytes(n, AddrLen(c)))

\* smallest failing uniform set, for reports
FirstOverflow(c) ==
  IF \A n \in 0..MaxFds : UniformBytes(n, AddrLen(c)) <= BufBytes THEN 0
  ELSE CHOOSE n \in 0..MaxFds : /\ UniformBytes(n, AddrLen(c)) > BufBytes
                                /\ \A m \in 0..MaxFds : m < n => UniformBytes(m, AddrLen(c)) <= BufBytes
=============================================================================
