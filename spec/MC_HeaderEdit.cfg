SPECIFICATION Spec
CONSTANTS
  MaxReq = 2
  MaxTr = 1
  MaxResp = 2
  Deviations = {}
  CheckDeviations = {}
  Emit = FALSE
  SampleMod = 1
  SampleRes = 0
  Shape = "quick"
INVARIANTS TypeOK P_C13
CHECK_DEADLOCK FALSE
