\* Exhaustive design-level check of P_C09 (one request, two workers, every verb); ./check C09 generates
\* this and the other configurations (load-state parts, liveness under FairSpec, simulation of three
\* requests, one run per open deviation, generator batches, trace validation) under .work/C09/.
SPECIFICATION Spec
CONSTANTS
  Workers = {1, 2}
  Reqs = {1}
  Verbs = {"worker", "workerBad", "query", "load", "stopHard", "stopSoft"}
  T = 1
  Parts = 1
  FileCodes = {1}
  MaxDup = 1
  MaxProc = 1
  MaxQueue = 2
  Deviations = {}
INVARIANTS TypeOK P_C09a_AtMostOneFinal P_C09b_OkMeansAllAcked P_C09d_RightClient P_C09e_NoStaleInFlight P_C09f_NoAnswerDropped P_C09_AnswersFollowTasks
CHECK_DEADLOCK FALSE
