SPECIFICATION TraceSpec
CONSTANTS
  Role = "server"
  Ids <- TraceIds
  MaxWin = 2147483647
  ConnInit = 65535
  Default <- TraceDefault
  SettingsVals <- TraceNone
  MaxSettings = 1000000
  Bodies <- TraceNone
  Ups <- TraceNone
  Grants <- TraceNone
  HdrLens <- TraceNone
  RecvInit = 65535
  RecvConn = 1048576
  Reaper = TRUE
  Legal = FALSE
  BurstMin = 2500
  Deviations = {}
CONSTRAINT Track
POSTCONDITION TraceAccepted
CHECK_DEADLOCK FALSE
