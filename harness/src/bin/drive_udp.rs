//! I->S driver for spec/Trace_UdpFlows.tla (property C19).
//!
//! Drives the REAL `sozu_lib::protocol::udp::UdpManager` with seeded random runs in the style of
//! the repository's own simulator (lib/tests/udp_simulation.rs: weighted action grammar, pooled
//! sources so that keys collide, stale ids, reconfiguration storms including affinity flips, cap
//! shrink below the live count, drain, clock jumps, on-demand teardown) - but records what the
//! repository's simulator throws away: every input with its injected time, the exact output
//! sequence it produced and the state visible afterwards. TLC then decides whether the recorded
//! run is a behaviour of the specification (who received which payload, which flow was closed
//! when) - the relational oracle.
//!
//! --out <file>: ndjson trace (see spec/Trace_UdpFlows.tla). stdout: violations (a panic inside
//! sozu is data) and a summary.

use std::collections::BTreeMap;
use std::io::{BufWriter, Write};
use std::time::Instant;

use rand::{RngExt, SeedableRng, rngs::StdRng};
use serde_json::{Value, json};
use sozu_lib::protocol::udp::{Output, UdpManager};

#[path = "../udp_common.rs"]
mod common;
use common::*;

const IPS: i64 = 4;
const PORTS: i64 = 3;
const BACKENDS: i64 = 3;

fn random_cluster(rng: &mut StdRng, allow_empty: bool) -> Value {
    let name = if allow_empty && rng.random_bool(0.1) { 0 } else { rng.random_range(1..4i64) };
    let responses = if rng.random_bool(0.6) { 0 } else { rng.random_range(1..4i64) };
    let requests = if rng.random_bool(0.6) { 0 } else { rng.random_range(1..6i64) };
    json!([
        name,
        rng.random_bool(0.5) as i64,
        responses,
        requests,
        rng.random_range(50..3000i64),
        rng.random_range(50..3000i64),
        rng.random_bool(0.3) as i64,
        rng.random_bool(0.5) as i64
    ])
}

fn random_len(rng: &mut StdRng, max_rx: i64) -> i64 {
    match rng.random_range(0..16u32) {
        0 => 0,
        1..3 => 4,
        3..5 => max_rx.max(4),                                 // exactly at the limit
        5..13 => rng.random_range(4..=max_rx.max(4)),
        13 => max_rx + 1,                                      // just over
        _ => max_rx + rng.random_range(1..40i64),
    }
}

struct Run<'a> {
    mgr: UdpManager,
    conc: Conc,
    reg: Registry,
    seen_keys: Vec<u64>,
    now: i64,
    next_pid: i64,
    run: u64,
    w: &'a mut BufWriter<std::fs::File>,
    events: u64,
    cover: &'a mut BTreeMap<String, u64>,
    awaiting: Vec<i64>,
    known: Vec<i64>,
    new_selects: Vec<i64>,
    max_rx: i64,
    samples: &'a mut Vec<Value>,
}

impl Run<'_> {
    /// one call into the manager = one trace event. Returns false when sozu panicked.
    fn call(&mut self, inp: Value) -> Result<(), String> {
        let r = apply(&mut self.mgr, &self.conc, &mut self.reg, &inp, self.now);
        if let Some(p) = r.panic {
            return Err(p);
        }
        let mut view = KeyView::Index(&mut self.seen_keys);
        let out: Vec<Value> = r.outputs.iter().map(|o| project_output(&self.conc, &self.reg, o, &mut view)).collect();
        for o in &r.outputs {
            if let Output::SelectBackend { flow, .. } = o {
                self.new_selects.push(*flow as i64);
            }
        }
        let out = Value::Array(out);
        note_cover(self.cover, &inp, &out);
        let ev = json!({"ev":"step","run":self.run,"now":self.now,"inp":inp,"out":out,"post":project_state(&self.conc, &self.reg, &self.mgr)});
        if self.samples.len() < 2 && ev["out"].as_array().map(|a| a.len() >= 4).unwrap_or(false) {
            self.samples.push(ev.clone());
        }
        writeln!(self.w, "{}", ev).expect("write trace");
        self.events += 1;
        Ok(())
    }
    fn pid(&mut self) -> i64 {
        self.next_pid += 1;
        self.next_pid
    }
    fn some_flow(&mut self, rng: &mut StdRng) -> i64 {
        if !self.known.is_empty() && rng.random_bool(0.7) {
            self.known[rng.random_range(0..self.known.len())]
        } else {
            rng.random_range(0..10i64)
        }
    }
}

fn one_run(rng: &mut StdRng, run: u64, steps: usize, w: &mut BufWriter<std::fs::File>, cover: &mut BTreeMap<String, u64>,
           samples: &mut Vec<Value>, base: Instant) -> (u64, Option<(String, Value)>) {
    let conc = Conc::new(base, 1, 1, 9000, (run % 250) as u8);
    let cluster = random_cluster(rng, false);
    let cap = if rng.random_bool(0.1) { 0 } else { rng.random_range(1..7i64) };
    let max_rx = rng.random_range(8..64i64);
    let hash_seed: u64 = rng.random();
    let mgr = new_manager(&conc, &cluster, cap, max_rx, hash_seed);
    writeln!(w, "{}", json!({"ev":"reset","run":run,"cluster":cluster,"maxFlows":cap,"maxRx":max_rx})).expect("write trace");
    let mut r = Run { mgr, conc, reg: Registry::default(), seen_keys: Vec::new(), now: 0, next_pid: 0, run, w, events: 1, cover,
                      awaiting: Vec::new(), known: Vec::new(), new_selects: Vec::new(), max_rx, samples };
    let mut history: Vec<Value> = Vec::new();
    macro_rules! call {
        ($inp:expr) => {{
            let inp: Value = $inp;
            history.push(json!({"inp": inp, "now": r.now}));
            if let Err(p) = r.call(inp) {
                let d = json!({"run": run, "panic": p, "cluster": cluster, "maxFlows": cap, "maxRx": max_rx, "history": history});
                return (r.events, Some(("panic".to_string(), d)));
            }
        }};
    }
    for _ in 0..steps {
        let roll = rng.random_range(0..100u32);
        match roll {
            0..34 => {
                let (ip, port) = (rng.random_range(1..=IPS), rng.random_range(1..=PORTS));
                let len = random_len(rng, r.max_rx);
                let id = r.pid();
                call!(json!({"op":"ClientDatagram","src":{"ip":ip,"port":port},"pl":{"id":id,"len":len}}));
            }
            34..50 => {
                let flow = if !r.awaiting.is_empty() && rng.random_bool(0.7) {
                    let i = rng.random_range(0..r.awaiting.len());
                    r.awaiting.swap_remove(i)
                } else {
                    rng.random_range(0..10i64)
                };
                call!(json!({"op":"BackendResolved","flow":flow,"backend":rng.random_range(1..=BACKENDS)}));
            }
            50..64 => {
                let flow = r.some_flow(rng);
                let len = random_len(rng, r.max_rx);
                let id = r.pid();
                call!(json!({"op":"BackendDatagram","flow":flow,"pl":{"id":id,"len":len}}));
            }
            64..78 => {
                r.now += if rng.random_bool(0.12) { rng.random_range(2000..8000) } else { rng.random_range(1..300) };
                call!(json!({"op":"Timeout"}));
            }
            78..84 => {
                call!(json!({"op":"Config","ev":{"what":"SetCluster","cfg":random_cluster(rng, true)}}));
            }
            84..89 => {
                let live = r.mgr.flow_count() as i64;
                let v = if rng.random_bool(0.5) { rng.random_range(0..=live) } else { rng.random_range(1..8i64) };
                call!(json!({"op":"Config","ev":{"what":"SetMaxFlows","v":v}}));
            }
            89..93 => {
                let flow = r.some_flow(rng);
                call!(json!({"op":"Abort","flow":flow}));
            }
            93..96 => {
                r.max_rx = rng.random_range(8..64i64);
                call!(json!({"op":"Config","ev":{"what":"SetMaxRx","v":r.max_rx}}));
            }
            96..98 => {
                call!(json!({"op":"Config","ev":{"what":"Drain"}}));
            }
            _ => {
                call!(json!({"op":"CloseAll"}));
                r.awaiting.clear();
            }
        }
        // honour a subset of the new SelectBackend requests (the shell's reply), keep the rest parked
        let selects: Vec<i64> = std::mem::take(&mut r.new_selects);
        for flow in selects {
            if !r.known.contains(&flow) {
                r.known.push(flow);
            }
            if rng.random_bool(0.6) {
                call!(json!({"op":"BackendResolved","flow":flow,"backend":rng.random_range(1..=BACKENDS)}));
            } else {
                r.awaiting.push(flow);
            }
        }
        // buggify: rare extra adversarial events
        if rng.random_bool(0.03) {
            match rng.random_range(0..4u8) {
                0 => call!(json!({"op":"BackendResolved","flow":rng.random_range(0..12i64),"backend":rng.random_range(1..=BACKENDS)})),
                1 => {
                    for _ in 0..rng.random_range(2..5u8) {
                        call!(json!({"op":"Config","ev":{"what":"SetCluster","cfg":random_cluster(rng, true)}}));
                    }
                }
                2 => call!(json!({"op":"Config","ev":{"what":"SetMaxFlows","v":rng.random_range(0..2i64)}})),
                _ => {
                    r.now += rng.random_range(3000..60000);
                    call!(json!({"op":"Timeout"}));
                }
            }
        }
        // time also passes between calls without a timeout firing
        if rng.random_bool(0.3) {
            r.now += rng.random_range(1..400);
        }
    }
    // end of run: reap, then mass teardown
    r.now += 100_000;
    call!(json!({"op":"Timeout"}));
    call!(json!({"op":"CloseAll"}));
    (r.events, None)
}

fn main() {
    vh::util::quiet_panics();
    let args: Vec<String> = std::env::args().collect();
    let arg = |name: &str, def: &str| -> String {
        args.iter().position(|a| a == name).and_then(|i| args.get(i + 1)).cloned().unwrap_or(def.to_string())
    };
    let seed: u64 = arg("--seed", "1").parse().unwrap();
    let runs: u64 = arg("--runs", "100").parse().unwrap();
    let steps: usize = arg("--steps", "60").parse().unwrap();
    let out = arg("--out", "/dev/null");
    let mut w = BufWriter::new(std::fs::File::create(&out).expect("create trace file"));
    let mut rng = StdRng::seed_from_u64(seed ^ 0xC19);
    let base = Instant::now();
    let mut cover = BTreeMap::new();
    let mut samples = Vec::new();
    let mut events = 0u64;
    let mut panics = 0u64;
    for run in 1..=runs {
        let (n, bad) = one_run(&mut rng, run, steps, &mut w, &mut cover, &mut samples, base);
        events += n;
        if let Some((class, detail)) = bad {
            panics += 1;
            if panics <= 5 {
                vh::util::emit(&json!({"kind":"violation","class":class,"detail":detail}));
            }
        }
    }
    w.flush().expect("flush trace");
    vh::util::emit(&json!({"kind":"summary","runs":runs,"events":events,"panics":panics,"cover":cover,"samples":samples,"trace":out}));
}
