SPECIFICATION Spec
INVARIANTS P_C15_DecoderTotal
CHECK_DEADLOCK FALSE
