SPECIFICATION Spec
CONSTANTS
  Workers = {"0", "1", "2"}
  InitWorkers = {"0", "1"}
  MuteWorkers = {}
  Universe = "core"
  MaxOps = 3
  MaxFaults = 1
  SlowWorkers = FALSE
  Deviations = {}
  Emit = FALSE
VIEW MCView
INVARIANTS TypeOK P_C07_NoDrift P_C07_RejectedLeavesNoTrace P_C08_Converges P_C09_OkMeansApplied P_ProxiesFollowConfig P_Confluent
CHECK_DEADLOCK FALSE
