----------------------------- MODULE WorkerCtl -----------------------------
(***************************************************************************)
(* Command handling of a sozu worker (lib/src/server.rs):                  *)
(*   read_channel_messages_and_notify (HardStop / SoftStop /               *)
(*   ReturnListenSockets special cases), notify (worker-level verbs),      *)
(*   notify_proxys (ConfigState::dispatch ignoring the error, cluster and  *)
(*   backend verbs, get_destinations fan-out folded into ONE response,     *)
(*   listener verbs), shut_down_sessions (soft-stop completion).           *)
(*                                                                         *)
(* State                                                                   *)
(*   cfg   the ConfigState a main process holds for the same request       *)
(*         sequence (= the worker's own config_state copy, which the       *)
(*         worker's queries expose): listeners with active flag, clusters, *)
(*         http / tcp frontends, backends                                  *)
(*   rl    the listeners held by the proxies: records                      *)
(*         [l, tok, active, sock, routes, tcl]  (tok = slab key = listen   *)
(*         token; active = the listener's `active` flag; sock = it holds a *)
(*         bound, registered socket (`listener` / `socket` is Some);       *)
(*         routes = the router of an http listener; tcl = the cluster of a *)
(*         tcp listener)                                                   *)
(*   slabL listener tokens present in the session slab (the three system   *)
(*         entries Channel/Timer/Metrics are implicit: SysEntries)         *)
(*   base  base_sessions_count                                             *)
(*   rcl, rbe   clusters / backends known to the proxies                   *)
(*   queue QUEUE (responses pushed, not yet written to the channel)        *)
(*   out   responses written to the command channel (history)              *)
(*   n     number of requests received so far; request ids are 1..n        *)
(*   term  per request id: number of terminal responses produced           *)
(*   shut  id of the pending soft stop (0 = none); stopped; handed         *)
(*   gate, pending, crashed   the accept gate (can_accept), accept_ready   *)
(*         and whether the worker thread panicked (environment actions     *)
(*         Env_* model client connections saturating the worker)           *)
(*   ralt  clusters whose CURRENT definition, as the proxies hold it, is    *)
(*         the alternative one (AddClusterAlt: https_redirect, PROXY        *)
(*         protocol towards tcp / udp backends): a cluster is a definition, *)
(*         not only an id; AddCluster again REDEFINES it                    *)
(*   rl (udp listeners): ucid = the cluster of the listener's frontend      *)
(*         (listener.cluster_id / cluster_for_listener), mcl / mpp = the    *)
(*         cluster and the PROXY-protocol knob the listener's flow manager  *)
(*         currently routes NEW flows with (its captured ClusterConfig)     *)
(*   held  listener addresses bound by a FOREIGN socket without            *)
(*         SO_REUSEPORT (another daemon, a previous instance not yet gone):*)
(*         server_bind / udp_bind on such an address fails (C07: a refused *)
(*         ActivateListener must leave no trace in the worker)             *)
(*                                                                         *)
(* One action per run-to-completion step: Recv(r) (one request handled by  *)
(* read_channel_messages_and_notify), Flush (send_queue), LoopEnd (the     *)
(* shut_down_sessions check at the end of a loop iteration).               *)
(***************************************************************************)
EXTENDS Naturals, Sequences, FiniteSets, TLC, Json

CONSTANTS Listeners,     \* subset of DOMAIN LDef
          Clusters,      \* subset of {"c1","c2"}
          HFronts,       \* subset of DOMAIN FDef
          TFronts,       \* subset of DOMAIN TDef
          Backends,      \* subset of DOMAIN BDef
          UFronts,       \* subset of DOMAIN UDef
          Verbs,         \* request kinds enabled in this configuration
          MaxReq,        \* bound on the number of requests
          AfterStop,     \* request kinds still sent after a SoftStop was received
          Deviations,    \* open known findings modelled as the code behaves
          Deterministic, \* TRUE: exclude requests whose outcome the code leaves open (generator)
          Preamble,      \* requests already handled in the initial state (a sequence of [k, a] records)
          Traffic,       \* TRUE: client connections may saturate the worker (accept gate, accept_ready)
          Faults,        \* TRUE: the environment may hold / release listener addresses (OS-level bind failures)
          Emit           \* TRUE: print one REPLAY line per distinct transition (generator configs)

VARIABLES cfg, rl, slabL, base, rcl, rbe, queue, out, n, term, shut, stopped, handed, allOk, hist, prev,
          gate,     \* SessionManager.can_accept
          pending,  \* accept_ready: listen tokens whose readiness was remembered while the gate was closed
          crashed,  \* the worker thread panicked
          held,     \* addresses (LDef[l].addr) bound by a foreign socket without SO_REUSEPORT
          ralt      \* clusters the proxies hold in their alternative definition

vars == <<cfg, rl, slabL, base, rcl, rbe, queue, out, n, term, shut, stopped, handed, allOk, hist, prev,
          gate, pending, crashed, held, ralt>>

\* what distinguishes states for the model checker (out, hist and prev are histories)
MCView == <<cfg, rl, slabL, base, rcl, rbe, queue, n, term, shut, stopped, handed, allOk, gate, pending, crashed, held, ralt>>
\* generator: one TLC state per (state, request) transition
GenView == <<MCView, prev, IF hist = <<>> THEN <<>> ELSE hist[Len(hist)]>>

SysEntries == 3

---------------------------------------------------------------------------
(* Universe. Model values are strings; the harness owns the table model    *)
(* value -> concrete address / hostname / cluster id.                      *)

LDef == [hA |-> [proto |-> "http",  addr |-> "A"],
         hB |-> [proto |-> "http",  addr |-> "B"],
         tC |-> [proto |-> "tcp",   addr |-> "C"],
         sD |-> [proto |-> "https", addr |-> "D"],
         uE |-> [proto |-> "udp",   addr |-> "E"],
         \* a second listener of the same kind (address letters = harness address slots: F, G, H are backends)
         uF |-> [proto |-> "udp",   addr |-> "I"],
         tG |-> [proto |-> "tcp",   addr |-> "J"]]

FDef == [f1 |-> [cluster |-> "c1", l |-> "hA", host |-> "a"],
         f2 |-> [cluster |-> "c2", l |-> "hA", host |-> "b"],
         f3 |-> [cluster |-> "c2", l |-> "hA", host |-> "a"],   \* same route key as f1
         f4 |-> [cluster |-> "c1", l |-> "hB", host |-> "a"]]

TDef == [t1 |-> [cluster |-> "c1", l |-> "tC"],
         t2 |-> [cluster |-> "c2", l |-> "tC"],
         t3 |-> [cluster |-> "c1", l |-> "tG"]]   \* the cluster of t1, published on a second tcp listener

\* udp frontends: one cluster published on two listeners (u1, u2), two clusters on one listener (u1, u3)
UDef == [u1 |-> [cluster |-> "c1", l |-> "uE"],
         u2 |-> [cluster |-> "c1", l |-> "uF"],
         u3 |-> [cluster |-> "c2", l |-> "uE"]]

BDef == [b1 |-> [cluster |-> "c1"], b2 |-> [cluster |-> "c2"], b3 |-> [cluster |-> "c1"]]
\* what a backend reports when the bytes it received were preceded by a PROXY protocol v2 header
WithPP == [b1 |-> "b1+pp", b2 |-> "b2+pp", b3 |-> "b3+pp"]
Tag(b, pp) == IF pp THEN WithPP[b] ELSE b

Hosts == {"a", "b", "z"}          \* "z" is never configured

SameKey(f, g) == FDef[f].l = FDef[g].l /\ FDef[f].host = FDef[g].host

\* Request kinds
WorkerKinds  == {"Status", "QueryHashes", "QueryDomain", "QueryMetrics", "ConfigureMetrics", "Logging",
                 "SetMaxConn", "QueryMaxConn", "MetricDetailOk", "MetricDetailBad", "QueryCertsAll",
                 "QueryCertsFp"}
ClusterKinds == {"QueryCluster", "AddCluster", "AddClusterAlt", "AddClusterBadHc", "RemoveCluster", "SetHc", "SetHcBad",
                 "RemoveHc"}
BackendKinds == {"AddBackend", "RemoveBackend"}
HFrontKinds  == {"AddHFront", "RemoveHFront"}
TFrontKinds  == {"AddTFront", "RemoveTFront"}
UFrontKinds  == {"AddUFront", "RemoveUFront"}
ListenKinds  == {"AddListener", "RemoveListener", "Activate", "Deactivate", "UpdateListener", "UpdateListenerBad"}
StopKinds    == {"ReturnSockets", "SoftStop", "HardStop"}
\* Malformed requests. The wire format is protobuf: an enum field is an open i32 (any value survives
\* decoding), the request oneof may be absent, a request kind meant for the main process decodes on a
\* worker all the same. Every one of them is a command the worker RECEIVED: exactly one terminal
\* answer, Ok or Failure (status "final": the property does not say which).
\*   *BadType            ListenerType outside the enum (target = the address of listener a)
\*   NoType              Request without request_type;  ForeignKind  a main-process-only kind (ListWorkers)
\*   ConfigureMetricsBad / MetricDetailBadEnum   MetricsConfiguration / MetricDetail outside the enum
\*   AddHFrontBadPos / AddHFrontBadKind          RulePosition / PathRuleKind outside the enum (frontend a)
\*   AddClusterBadEnums  LoadBalancingAlgorithms, LoadMetric, ProxyProtocolConfig, UdpAffinityKey outside
\*                       their enums: the code falls back to the defaults, i.e. it is a plain AddCluster
MalformedListenKinds  == {"RemoveListenerBadType", "ActivateBadType", "DeactivateBadType"}
MalformedPlainKinds   == {"NoType", "ForeignKind", "ConfigureMetricsBad", "MetricDetailBadEnum"}
MalformedFrontKinds   == {"AddHFrontBadPos", "AddHFrontBadKind"}
MalformedClusterKinds == {"AddClusterBadEnums"}
\* refused outright: nothing changes, neither in the configuration nor in the proxies
RefusedMalformed == MalformedListenKinds \cup MalformedPlainKinds \cup MalformedFrontKinds
MalformedKinds   == RefusedMalformed \cup MalformedClusterKinds
\* (ConfigState::dispatch has no opinion on the two worker-level verbs: it answers Ok without looking)
MalformedAccepted == {"ConfigureMetricsBad", "MetricDetailBadEnum", "AddClusterBadEnums"}
ReadOnlyKinds == WorkerKinds \cup {"QueryCluster"} \cup RefusedMalformed

AllRequests ==
       [k : WorkerKinds \cup StopKinds, a : {""}]
  \cup [k : ClusterKinds, a : Clusters]
  \cup [k : BackendKinds, a : Backends]
  \cup [k : HFrontKinds, a : HFronts]
  \cup [k : TFrontKinds, a : TFronts]
  \cup [k : UFrontKinds, a : UFronts]
  \cup [k : MalformedListenKinds, a : Listeners]
  \cup [k : MalformedPlainKinds, a : {""}]
  \cup [k : MalformedFrontKinds, a : HFronts]
  \cup [k : MalformedClusterKinds, a : Clusters]
  \cup [k : ListenKinds \ {"UpdateListenerBad"}, a : Listeners]
  \* only HTTP(S) listener patches carry values that can be invalid
  \cup [k : {"UpdateListenerBad"}, a : {l \in Listeners : LDef[l].proto \in {"http", "https"}}]

Requests == {r \in AllRequests : r.k \in Verbs}

---------------------------------------------------------------------------
(* The main process's ConfigState (command/src/state.rs::dispatch).        *)
(* CfgStep returns [ok, c]: the verdict and the state afterwards (a        *)
(* rejected request leaves the state unchanged).                           *)

\* ghost: ConfigState files an http frontend whose PathRuleKind is outside the enum under ONE degenerate
\* key ("Wrong variant of PathRuleKind"), whatever its address and hostname: the listener of the single
\* such frontend it holds ("none": there is none). No router ever serves it.
CfgInit == [lst |-> [l \in Listeners |-> "absent"], cl |-> {}, hc |-> {}, hf |-> {}, tf |-> {}, be |-> {},
            uf |-> {}, alt |-> {}, ghost |-> "none"]

Acc(c) == [ok |-> TRUE, c |-> c]
Rej(c) == [ok |-> FALSE, c |-> c]

CfgStep(c, r) ==
  LET a == r.a IN
  CASE r.k \in {"AddCluster", "AddClusterBadEnums"}                                     \* upsert: replaces the cluster
                               -> Acc([c EXCEPT !.cl = @ \cup {a}, !.hc = @ \ {a}, !.alt = @ \ {a}])
    [] r.k = "AddClusterAlt"   -> Acc([c EXCEPT !.cl = @ \cup {a}, !.hc = @ \ {a}, !.alt = @ \cup {a}])
    [] r.k = "AddClusterBadHc" -> Rej(c)
    [] r.k = "RemoveCluster"   -> IF a \in c.cl THEN Acc([c EXCEPT !.cl = @ \ {a}, !.hc = @ \ {a}, !.alt = @ \ {a}])
                                  ELSE Rej(c)
    [] r.k = "AddHFrontBadKind" -> IF c.ghost = "none" THEN Acc([c EXCEPT !.ghost = FDef[a].l]) ELSE Rej(c)
    [] r.k \in RefusedMalformed -> IF r.k \in MalformedAccepted THEN Acc(c) ELSE Rej(c)
    [] r.k = "SetHc"           -> IF a \in c.cl THEN Acc([c EXCEPT !.hc = @ \cup {a}]) ELSE Rej(c)
    [] r.k = "SetHcBad"        -> Rej(c)
    [] r.k = "RemoveHc"        -> IF a \in c.cl THEN Acc([c EXCEPT !.hc = @ \ {a}]) ELSE Rej(c)
    [] r.k = "AddBackend"      -> Acc([c EXCEPT !.be = @ \cup {a}])
    [] r.k = "RemoveBackend"   -> IF a \in c.be THEN Acc([c EXCEPT !.be = @ \ {a}]) ELSE Rej(c)
    [] r.k = "AddHFront"       -> IF \E g \in c.hf : SameKey(a, g) THEN Rej(c) ELSE Acc([c EXCEPT !.hf = @ \cup {a}])
    [] r.k = "RemoveHFront"    -> IF \E g \in c.hf : SameKey(a, g)
                                  THEN Acc([c EXCEPT !.hf = {g \in @ : ~SameKey(a, g)}]) ELSE Rej(c)
    [] r.k = "AddTFront"       -> IF a \in c.tf THEN Rej(c)
                                  \* property reading: one cluster per TCP listener; the code accepts a second one
                                  ELSE IF "TcpFrontLastWins" \notin Deviations
                                          /\ \E g \in c.tf : TDef[g].l = TDef[a].l THEN Rej(c)
                                  ELSE Acc([c EXCEPT !.tf = @ \cup {a}])
    [] r.k = "RemoveTFront"    -> IF a \in c.tf THEN Acc([c EXCEPT !.tf = @ \ {a}]) ELSE Rej(c)
    \* udp frontends are keyed like tcp frontends (cluster, address): same reading, same open deviation
    [] r.k = "AddUFront"       -> IF a \in c.uf THEN Rej(c)
                                  ELSE IF "TcpFrontLastWins" \notin Deviations
                                          /\ \E g \in c.uf : UDef[g].l = UDef[a].l THEN Rej(c)
                                  ELSE Acc([c EXCEPT !.uf = @ \cup {a}])
    [] r.k = "RemoveUFront"    -> IF a \in c.uf THEN Acc([c EXCEPT !.uf = @ \ {a}]) ELSE Rej(c)
    [] r.k = "AddListener"     -> IF c.lst[a] = "absent" THEN Acc([c EXCEPT !.lst[a] = "inactive"]) ELSE Rej(c)
    [] r.k = "RemoveListener"  -> IF c.lst[a] = "absent" THEN Rej(c)
                                  \* property reading: frontends go away with their listener;
                                  \* the code keeps them in the state (deviation OrphanFronts)
                                  ELSE IF "OrphanFronts" \in Deviations THEN Acc([c EXCEPT !.lst[a] = "absent"])
                                  ELSE Acc([c EXCEPT !.lst[a] = "absent",
                                                      !.hf = {g \in @ : FDef[g].l # a},
                                                      !.tf = {g \in @ : TDef[g].l # a},
                                                      !.uf = {g \in @ : UDef[g].l # a},
                                                      !.ghost = IF @ = a THEN "none" ELSE @])
    [] r.k = "Activate"        -> IF c.lst[a] = "absent" THEN Rej(c) ELSE Acc([c EXCEPT !.lst[a] = "active"])
    [] r.k = "Deactivate"      -> IF c.lst[a] = "absent" THEN Rej(c) ELSE Acc([c EXCEPT !.lst[a] = "inactive"])
    [] r.k = "UpdateListener"  -> IF c.lst[a] = "absent" THEN Rej(c) ELSE Acc(c)
    [] r.k = "UpdateListenerBad" -> Rej(c)
    [] OTHER -> Acc(c)          \* worker-only verbs: Ok, no change

---------------------------------------------------------------------------
(* The worker's proxies.                                                   *)

Entries(l) == {x \in rl : x.l = l}
FreshTok == CHOOSE k \in SysEntries..(SysEntries + MaxReq + 1) :
              k \notin slabL /\ \A j \in SysEntries..(k - 1) : j \in slabL

\* statuses of worker-level verbs (lib/src/server.rs::notify)
WorkerStatus(k) == IF k \in {"MetricDetailBad", "QueryCertsFp"} THEN "failure" ELSE "ok"

\* HTTP proxy: listener picked for a frontend order = some listener bound to the address
\* (HashMap iteration order when an address was added twice)
RouteHosts(x) == {FDef[f].host : f \in x.routes}

\* a fresh proxy listener
NewListener(l, tok) == [l |-> l, tok |-> tok, active |-> FALSE, sock |-> FALSE, routes |-> {}, tcl |-> "none",
                        ucid |-> "none", mcl |-> "none", mpp |-> FALSE]

\* UdpProxy: the listeners whose frontend routes to cluster c (cluster_for_listener)
UdpBoundTo(c) == {x \in rl : x.ucid = c}
\* an AddCluster / RemoveCluster reaches the flow manager of EVERY udp listener routing to the cluster:
\* SetCluster(cluster, knobs) resp. SetCluster(default). (Deviation ClusterOneListenerOnly, self-test: a
\* lookup by cluster id that knows a single listener per cluster.)
UdpRebind(c, to, pp) ==
  LET hit == UdpBoundTo(c)
      upd(x) == [x EXCEPT !.mcl = to, !.mpp = pp]
  IN IF "ClusterOneListenerOnly" \in Deviations /\ hit # {}
     THEN {(rl \ {y}) \cup {upd(y)} : y \in hit}
     ELSE {(rl \ hit) \cup {upd(x) : x \in hit}}

\* one Recv step on the proxies: [st, rl, slabL, base, rcl, rbe, ralt]; the choice of
\* `x` is the code's (values().find over a HashMap)
RtOutcomes(r) ==
  LET a == r.a
      same == [st |-> "ok", rl |-> rl, slabL |-> slabL, base |-> base, rcl |-> rcl, rbe |-> rbe, ralt |-> ralt]
      fail == [same EXCEPT !.st = "failure"]
  IN
  CASE r.k \in WorkerKinds -> {[same EXCEPT !.st = WorkerStatus(r.k)]}
    \* a malformed request is refused without touching anything; its one answer is Ok or Failure
    [] r.k \in RefusedMalformed -> {[same EXCEPT !.st = "final"]}
    [] r.k = "QueryCluster"    -> {same}
    \* http / tcp proxies: the definition replaces the one they held; udp proxy: every listener routing
    \* to the cluster takes the new knobs for its new flows
    [] r.k \in {"AddCluster", "AddClusterBadEnums"} ->
         {[same EXCEPT !.st = IF r.k = "AddCluster" THEN "ok" ELSE "final",
                       !.rcl = @ \cup {a}, !.ralt = @ \ {a}, !.rl = nrl] : nrl \in UdpRebind(a, a, FALSE)}
    [] r.k = "AddClusterAlt"   ->
         {[same EXCEPT !.rcl = @ \cup {a}, !.ralt = @ \cup {a}, !.rl = nrl] : nrl \in UdpRebind(a, a, TRUE)}
    [] r.k = "AddClusterBadHc" -> {fail}
    \* never fails on a worker; udp listeners routing to the cluster stop forwarding new flows
    [] r.k = "RemoveCluster"   ->
         {[same EXCEPT !.rcl = @ \ {a}, !.ralt = @ \ {a}, !.rl = nrl] : nrl \in UdpRebind(a, "none", FALSE)}
    [] r.k = "SetHc"           -> {same}
    [] r.k = "SetHcBad"        -> {fail}
    [] r.k = "RemoveHc"        -> {same}
    [] r.k = "AddBackend"      -> {[same EXCEPT !.rbe = @ \cup {a}]}
    [] r.k = "RemoveBackend"   -> {[same EXCEPT !.rbe = @ \ {a}]}            \* never fails on a worker
    [] r.k = "AddHFront" ->
         IF Entries(FDef[a].l) = {} THEN {fail}
         ELSE {IF \E g \in x.routes : SameKey(a, g) THEN fail
               ELSE [same EXCEPT !.rl = (rl \ {x}) \cup {[x EXCEPT !.routes = @ \cup {a}]}]
               : x \in Entries(FDef[a].l)}
    [] r.k = "RemoveHFront" ->
         IF Entries(FDef[a].l) = {} THEN {fail}
         \* Router::remove_tree_rule answers true whether or not a rule matched
         ELSE {[same EXCEPT !.rl = (rl \ {x}) \cup {[x EXCEPT !.routes = {g \in @ : ~SameKey(a, g)}]}]
               : x \in Entries(FDef[a].l)}
    [] r.k = "AddTFront" ->
         IF Entries(TDef[a].l) = {} THEN {fail}
         ELSE {[same EXCEPT !.rl = (rl \ {x}) \cup {[x EXCEPT !.tcl = TDef[a].cluster]}] : x \in Entries(TDef[a].l)}
    [] r.k = "RemoveTFront" ->
         IF Entries(TDef[a].l) = {} THEN {fail}
         ELSE {[same EXCEPT !.rl = (rl \ {x}) \cup {[x EXCEPT !.tcl = "none"]}] : x \in Entries(TDef[a].l)}
    \* UdpProxy::add_udp_front: the listener's single cluster is replaced, its manager routes new flows
    \* to it with the knobs of the cluster's last definition (cached), defaults when there is none
    [] r.k = "AddUFront" ->
         IF Entries(UDef[a].l) = {} THEN {fail}
         ELSE {[same EXCEPT !.rl = (rl \ {x}) \cup {[x EXCEPT !.ucid = UDef[a].cluster, !.mcl = UDef[a].cluster,
                                                            !.mpp = (UDef[a].cluster \in ralt)]}]
               : x \in Entries(UDef[a].l)}
    \* remove_udp_front: whatever cluster the request names, the listener loses its cluster
    [] r.k = "RemoveUFront" ->
         IF Entries(UDef[a].l) = {} THEN {fail}
         ELSE {[same EXCEPT !.rl = (rl \ {x}) \cup {[x EXCEPT !.ucid = "none", !.mcl = "none", !.mpp = FALSE]}]
               : x \in Entries(UDef[a].l)}
    [] r.k = "AddListener" ->
         \* a vacant slab key becomes the listen token; duplicates of an address are not refused
         {[same EXCEPT !.rl = @ \cup {NewListener(a, FreshTok)},
                       !.slabL = @ \cup {FreshTok}, !.base = @ + 1]}
    [] r.k = "RemoveListener" ->
         \* every listener bound to the address goes away with its slab entry and its unit of base;
         \* the HTTP(S) proxies answer Ok even when there was nothing to remove
         LET gone == Entries(a) IN
         {[same EXCEPT !.st = IF gone = {} /\ LDef[a].proto \in {"tcp", "udp"} THEN "failure" ELSE "ok",
                       !.rl = @ \ gone,
                       !.slabL = @ \ {x.tok : x \in gone},
                       !.base = @ - Cardinality(gone)]}
    [] r.k = "Activate" ->
         \* Listener::activate: the `active` guard answers Ok at once; otherwise server_bind / udp_bind
         \* (fails when a foreign socket holds the address), register, and only then listener = Some,
         \* active = true. A refused activation leaves the listener as it was (C07).
         IF Entries(a) = {} THEN {fail}
         ELSE {IF x.active THEN same
               ELSE IF LDef[a].addr \in held
               THEN (IF "ActivateHalfDone" \in Deviations         \* the flag is raised before the fallible steps
                     THEN [fail EXCEPT !.rl = (rl \ {x}) \cup {[x EXCEPT !.active = TRUE]}]
                     ELSE IF "ActivateFailDrops" \in Deviations   \* a listener that cannot be bound is forgotten
                     THEN [fail EXCEPT !.rl = rl \ {x}]
                     ELSE fail)
               ELSE [same EXCEPT !.rl = (rl \ {x}) \cup {[x EXCEPT !.active = TRUE, !.sock = TRUE]}]
               : x \in Entries(a)}
    [] r.k = "Deactivate" ->
         \* give_back_listener: listener.take().ok_or(UnactivatedListener), then active = false
         IF Entries(a) = {} THEN {fail}
         ELSE {IF x.sock THEN [same EXCEPT !.rl = (rl \ {x}) \cup {[x EXCEPT !.active = FALSE, !.sock = FALSE]}] ELSE fail
               : x \in Entries(a)}                                            \* the slab entry stays
    \* UdpProxy::update_listener rebuilds the manager's ClusterConfig from the listener's frontend
    \* cluster and the cached knobs (also after a RemoveCluster: the frontend is still there)
    [] r.k = "UpdateListener"    ->
         IF Entries(a) = {} THEN {fail}
         ELSE IF LDef[a].proto # "udp" THEN {same}
         ELSE {[same EXCEPT !.rl = (rl \ {x}) \cup {[x EXCEPT !.mcl = x.ucid, !.mpp = (x.ucid \in ralt)]}]
               : x \in Entries(a)}
    [] r.k = "UpdateListenerBad" -> {fail}
    \* give_back_listeners: every listener that holds a socket hands it over and lowers its flag
    [] r.k = "ReturnSockets" -> {[same EXCEPT !.rl = {IF x.sock THEN [x EXCEPT !.active = FALSE, !.sock = FALSE] ELSE x
                                                      : x \in rl}]}
    \* SoftStop / HardStop: every proxy drops its listeners; slab entries and base stay
    [] r.k \in {"SoftStop", "HardStop"} -> {[same EXCEPT !.rl = {}]}

\* requests whose outcome does not depend on which listener of a duplicated address the code picks
Determined(r) == Cardinality(RtOutcomes(r)) = 1

---------------------------------------------------------------------------
(* Actions                                                                 *)

Resp(id, st) == [id |-> id, st |-> st]

\* The initial state: an empty worker on which the requests of Preamble (listener set-up
\* for the routing-centred configurations) have already been handled, all answered Ok.
RECURSIVE PreState(_)
PreState(k) ==
  IF k = 0
  THEN [cfg |-> CfgInit, rl |-> {}, slabL |-> {}, base |-> SysEntries]
  ELSE LET p == PreState(k - 1)
           r == Preamble[k]
           tok == SysEntries + Cardinality(p.slabL)
       IN CASE r.k = "AddListener" ->
                 [cfg |-> [p.cfg EXCEPT !.lst[r.a] = "inactive"],
                  rl |-> p.rl \cup {NewListener(r.a, tok)},
                  slabL |-> p.slabL \cup {tok}, base |-> p.base + 1]
            [] r.k = "Activate" ->
                 [p EXCEPT !.cfg.lst[r.a] = "active",
                           !.rl = {[x EXCEPT !.active = (x.active \/ x.l = r.a), !.sock = (x.sock \/ x.l = r.a)] : x \in p.rl}]

ASSUME \A i \in 1..Len(Preamble) : Preamble[i].k \in {"AddListener", "Activate"} /\ Preamble[i].a \in Listeners

Init ==
  LET p == PreState(Len(Preamble)) IN
  /\ cfg = p.cfg /\ rl = p.rl /\ slabL = p.slabL /\ base = p.base /\ rcl = {} /\ rbe = {}
  /\ queue = <<>> /\ out = [i \in 1..Len(Preamble) |-> Resp(i, "ok")]
  /\ n = Len(Preamble) /\ term = [i \in 1..MaxReq |-> IF i <= Len(Preamble) THEN 1 ELSE 0]
  /\ shut = 0 /\ stopped = FALSE /\ handed = FALSE /\ allOk = TRUE
  /\ hist = [i \in 1..Len(Preamble) |->
               [req |-> Preamble[i], st |-> "ok", accepted |-> TRUE, base |-> PreState(i).base]]
  /\ prev = <<>>
  /\ gate = TRUE /\ pending = {} /\ crashed = FALSE /\ held = {} /\ ralt = {}

\* read_channel_messages_and_notify: one request
Recv(r) ==
  /\ ~stopped /\ ~crashed /\ n < MaxReq
  /\ shut # 0 => r.k \in AfterStop
  /\ Deterministic => Determined(r)
  /\ LET id == n + 1
         cs == CfgStep(cfg, r)
     IN \E o \in RtOutcomes(r) :
        /\ n' = id
        /\ prev' = MCView
        \* DeactivateListener / RemoveListener forget the token of the socket they take away
        /\ pending' = IF r.k \in {"Deactivate", "RemoveListener"}
                       THEN pending \ {x.tok : x \in rl \ o.rl}
                       ELSE pending
        /\ UNCHANGED <<gate, crashed, held>>
        /\ cfg' = cs.c
        /\ rcl' = o.rcl /\ rbe' = o.rbe /\ ralt' = o.ralt
        /\ handed' = (handed \/ r.k = "ReturnSockets")
        /\ allOk' = (allOk /\ (r.k \in ReadOnlyKinds \/ (cs.ok /\ o.st \in {"ok", "final"})))
        /\ IF r.k = "SoftStop" /\ shut # 0
           THEN \* a second soft stop is refused, the pending one keeps its id
                /\ queue' = Append(queue, Resp(id, "failure"))
                /\ term' = [term EXCEPT ![id] = 1]
                /\ UNCHANGED <<rl, slabL, base, shut, stopped, out>>
                /\ hist' = Append(hist, [req |-> r, st |-> "failure", accepted |-> cs.ok, base |-> base])
           ELSE IF r.k = "SoftStop"
           THEN /\ shut' = id
                /\ queue' = Append(queue, Resp(id, "processing"))
                /\ rl' = o.rl /\ slabL' = o.slabL /\ base' = o.base
                /\ UNCHANGED <<term, stopped, out>>
                /\ hist' = Append(hist, [req |-> r, st |-> "ok", accepted |-> cs.ok, base |-> o.base])
           ELSE IF r.k = "HardStop"
           THEN \* queued answers are flushed, then the proxies' notice and the final Ok
                /\ out' = out \o queue \o <<Resp(id, "processing"), Resp(id, "ok")>>
                /\ queue' = <<>>
                /\ term' = [term EXCEPT ![id] = 1]
                /\ stopped' = TRUE
                /\ rl' = o.rl /\ slabL' = o.slabL /\ base' = o.base
                /\ UNCHANGED shut
                /\ hist' = Append(hist, [req |-> r, st |-> "ok", accepted |-> cs.ok, base |-> o.base])
           ELSE IF r.k \in MalformedKinds /\ "MalformedUnanswered" \in Deviations
           THEN \* self-test: the arm that built the answer of a malformed request is missing
                /\ rl' = o.rl /\ slabL' = o.slabL /\ base' = o.base
                /\ UNCHANGED <<queue, term, shut, stopped, out>>
                /\ hist' = Append(hist, [req |-> r, st |-> "none", accepted |-> cs.ok, base |-> o.base])
           ELSE /\ queue' = Append(queue, Resp(id, o.st))
                /\ term' = [term EXCEPT ![id] = 1]
                /\ rl' = o.rl /\ slabL' = o.slabL /\ base' = o.base
                /\ UNCHANGED <<shut, stopped, out>>
                /\ hist' = Append(hist, [req |-> r, st |-> o.st, accepted |-> cs.ok, base |-> o.base])

\* send_queue
Flush ==
  /\ ~stopped /\ ~crashed /\ queue # <<>>
  /\ out' = out \o queue /\ queue' = <<>>
  /\ UNCHANGED <<cfg, rl, slabL, base, rcl, rbe, n, term, shut, stopped, handed, allOk, hist, prev, gate, pending, crashed, held, ralt>>

\* end of a loop iteration while shutting down: shut_down_sessions (no client session is modelled
\* here: the slab holds the system entries and the listener entries)
SlabLen == SysEntries + Cardinality(slabL)
LoopEnd ==
  /\ ~stopped /\ ~crashed /\ shut # 0 /\ queue = <<>>
  /\ SlabLen <= base
  /\ out' = Append(out, Resp(shut, "ok"))
  /\ term' = [term EXCEPT ![shut] = @ + 1]
  /\ stopped' = TRUE
  /\ UNCHANGED <<cfg, rl, slabL, base, rcl, rbe, queue, n, shut, handed, allOk, hist, prev, gate, pending, crashed, held, ralt>>

\* Environment: client connections. max_connections is reached: check_limits closes the gate.
Env_Saturate ==
  /\ Traffic /\ ~stopped /\ ~crashed /\ gate
  /\ gate' = FALSE
  /\ UNCHANGED <<cfg, rl, slabL, base, rcl, rbe, queue, out, n, term, shut, stopped, handed, allOk, hist, prev, pending, crashed, held, ralt>>
\* ready(): a connection arrives on an active listener while the gate is closed: the token is remembered
Env_Connect(x) ==
  /\ Traffic /\ ~stopped /\ ~crashed /\ ~gate /\ x \in rl /\ x.sock
  /\ pending' = pending \cup {x.tok}
  /\ UNCHANGED <<cfg, rl, slabL, base, rcl, rbe, queue, out, n, term, shut, stopped, handed, allOk, hist, prev, gate, crashed, held, ralt>>
\* sessions close, decr() reopens the gate, handle_remaining_readiness replays every remembered token:
\* it indexes the slab with the token (a vacant slot panics); accept() then forgets the token
Env_Release ==
  /\ Traffic /\ ~stopped /\ ~crashed /\ ~gate
  /\ gate' = TRUE
  /\ IF pending \subseteq slabL THEN pending' = {} /\ UNCHANGED crashed
     ELSE crashed' = TRUE /\ UNCHANGED pending
  /\ UNCHANGED <<cfg, rl, slabL, base, rcl, rbe, queue, out, n, term, shut, stopped, handed, allOk, hist, prev, held, ralt>>

\* Environment: OS-level faults of the commands that touch sockets. A foreign process binds a listener
\* address with a socket that has no SO_REUSEPORT (possible only while no proxy listener is bound to
\* it); from then on server_bind / udp_bind on that address fail with EADDRINUSE, until it lets go.
\* The steps are recorded in hist (the generator replays them) and do not count as requests.
ListenAddrs == {LDef[l].addr : l \in Listeners}
BoundBySozu(a) == \E x \in rl : LDef[x.l].addr = a /\ x.sock
EnvStep(k, a) == [req |-> [k |-> k, a |-> a], st |-> "env", accepted |-> TRUE, base |-> base]
Env_HoldAddress(a) ==
  /\ Faults /\ ~stopped /\ ~crashed /\ shut = 0 /\ ~handed
  /\ a \in ListenAddrs \ held /\ ~BoundBySozu(a)
  /\ held' = held \cup {a}
  /\ hist' = Append(hist, EnvStep("EnvHold", a)) /\ prev' = MCView
  /\ UNCHANGED <<cfg, rl, slabL, base, rcl, rbe, queue, out, n, term, shut, stopped, handed, allOk, gate, pending, crashed, ralt>>
Env_ReleaseAddress(a) ==
  /\ Faults /\ ~stopped /\ ~crashed /\ a \in held
  /\ held' = held \ {a}
  /\ hist' = Append(hist, EnvStep("EnvRelease", a)) /\ prev' = MCView
  /\ UNCHANGED <<cfg, rl, slabL, base, rcl, rbe, queue, out, n, term, shut, stopped, handed, allOk, gate, pending, crashed, ralt>>
EnvFault == \E a \in ListenAddrs : Env_HoldAddress(a) \/ Env_ReleaseAddress(a)

Next == (\E r \in Requests : Recv(r)) \/ Flush \/ LoopEnd
        \/ Env_Saturate \/ (\E x \in rl : Env_Connect(x)) \/ Env_Release
        \/ EnvFault
Spec == Init /\ [][Next]_vars
\* generator: request steps only (flushing and the soft-stop check are the harness's epilogue)
GenSpec == Init /\ [][(\E r \in Requests : Recv(r)) \/ EnvFault]_vars
FairSpec == Spec /\ WF_vars(Flush) /\ WF_vars(LoopEnd)

---------------------------------------------------------------------------
(* Views                                                                   *)

RtListenerState(l) == IF Entries(l) = {} THEN "absent"
                      ELSE IF \E x \in Entries(l) : x.sock THEN "active" ELSE "inactive"
RtRoutes == UNION {x.routes : x \in rl}
RtTcp == {t \in TFronts : \E x \in Entries(TDef[t].l) : x.tcl = TDef[t].cluster}
RtUdp == {u \in UFronts : \E x \in Entries(UDef[u].l) : x.ucid = UDef[u].cluster}

\* what a client observes on listener l: connection refused, or (http) per host the set of admissible answers
ClusterBackends(c) == {b \in rbe : BDef[b].cluster = c}
\* the alternative definition of a cluster redirects plain-http requests (https_redirect), whatever its backends
Answer(c) == IF c \in ralt THEN {"301"} ELSE IF ClusterBackends(c) = {} THEN {"503"} ELSE ClusterBackends(c)
HttpProbe(l, h) ==
  LET act == {x \in Entries(l) : x.sock} IN
  IF act = {} THEN {"refused"}
  ELSE UNION {IF h \in RouteHosts(x)
              THEN UNION {Answer(FDef[f].cluster) : f \in {g \in x.routes : FDef[g].host = h}}
              ELSE {"404"} : x \in act}
TcpProbe(l) ==
  LET act == {x \in Entries(l) : x.sock} IN
  IF act = {} THEN {"refused"}
  \* ... and makes the tcp proxy send a PROXY protocol header to the backend ahead of the client's bytes
  ELSE UNION {IF x.tcl = "none" \/ ClusterBackends(x.tcl) = {} THEN {"closed"}
              ELSE {Tag(b, x.tcl \in ralt) : b \in ClusterBackends(x.tcl)} : x \in act}
\* one datagram of a NEW flow through udp listener l: dropped, or delivered to a backend of the cluster the
\* listener's manager routes to, behind a PROXY protocol header iff the manager's knobs say so
UdpProbe(l) ==
  LET act == {x \in Entries(l) : x.sock} IN
  IF act = {} THEN {"drop"}
  ELSE UNION {IF x.mcl = "none" \/ ClusterBackends(x.mcl) = {} THEN {"drop"}
              ELSE {Tag(b, x.mpp) : b \in ClusterBackends(x.mcl)} : x \in act}
Probes == [l \in Listeners |->
             IF LDef[l].proto = "http" THEN [h \in Hosts |-> HttpProbe(l, h)]
             ELSE IF LDef[l].proto = "tcp" THEN [h \in {"-"} |-> TcpProbe(l)]
             ELSE IF LDef[l].proto = "udp"
             THEN [h \in {"-", "d"} |-> IF h = "d" THEN UdpProbe(l)
                                       ELSE IF \E x \in Entries(l) : x.sock THEN {"open"} ELSE {"refused"}]
             ELSE [h \in {"-"} |-> IF \E x \in Entries(l) : x.sock THEN {"open"} ELSE {"refused"}]]

---------------------------------------------------------------------------
(* Properties (C08)                                                        *)

TypeOK ==
  /\ n \in 0..MaxReq /\ shut \in 0..MaxReq /\ base \in Nat
  /\ \A x \in rl : x.l \in Listeners /\ x.tok \in Nat /\ x.active \in BOOLEAN /\ x.sock \in BOOLEAN
  /\ rcl \subseteq Clusters /\ rbe \subseteq Backends
  /\ gate \in BOOLEAN /\ crashed \in BOOLEAN /\ pending \subseteq Nat
  /\ held \subseteq ListenAddrs /\ ralt \subseteq Clusters

\* (a) exactly one terminal answer per received request; the pending soft stop has none yet
P_C08_ExactlyOnce ==
  \A i \in 1..MaxReq :
    IF i > n THEN term[i] = 0
    ELSE IF i = shut /\ ~stopped THEN term[i] = 0
    ELSE term[i] = 1

\* (a') a soft stop always completes (no client session in this model)
P_C08_SoftStopCompletes == (shut # 0) ~> stopped

\* (b) after an accepted sequence the proxies hold exactly what the configuration says
P_C08_Converged ==
  allOk =>
    /\ rcl = cfg.cl /\ rbe = cfg.be
    /\ (shut = 0 /\ ~stopped => RtRoutes = cfg.hf /\ RtTcp = cfg.tf /\ RtUdp = cfg.uf)
    \* a cluster is a definition: the proxies hold the CURRENT one, on every listener that routes to it
    /\ ralt = cfg.alt
    /\ \A x \in rl : /\ x.mcl # "none" => x.mcl = x.ucid
                     /\ x.ucid \in cfg.cl => x.mcl = x.ucid /\ x.mpp = (x.ucid \in cfg.alt)
    /\ (shut = 0 /\ ~stopped /\ ~handed => \A l \in Listeners : RtListenerState(l) = cfg.lst[l])

\* (b') a RemoveCluster answered Ok: no udp listener routes new flows to that cluster any more
RemovedUnrouted ==
  (n' = n + 1 /\ hist'[Len(hist')].req.k = "RemoveCluster" /\ hist'[Len(hist')].st = "ok")
     => \A x \in rl' : x.mcl # hist'[Len(hist')].req.a
P_C08_RemovedUnrouted == [][RemovedUnrouted]_vars

\* (c) the quantity soft-stop completion depends on
P_C08_BaseCount ==
  /\ base = SysEntries + Cardinality(slabL)
  /\ slabL = {x.tok : x \in rl} \/ shut # 0 \/ stopped
  /\ \A x, y \in rl : x.tok = y.tok => x = y

\* (a'') no command sequence interleaved with client connections makes the worker thread panic
\* (a crashed worker answers nothing any more): every remembered token is a live slab entry
P_C08_NoStaleAccept == ~crashed /\ pending \subseteq slabL

---------------------------------------------------------------------------
(* Properties (C07, worker side: commands that touch sockets)              *)

\* a request answered Failure leaves the proxies - what clients observe and what later requests
\* meet - exactly as they were (the worker's ConfigState copy is the business of ConfigState.tla /
\* Sozu.tla, open finding worker-keeps-refused)
RefusedNoTrace ==
  (n' = n + 1 /\ hist'[Len(hist')].st = "failure") => UNCHANGED <<rl, slabL, base, rcl, rbe>>
P_C07_RefusedNoTrace == [][RefusedNoTrace]_vars

\* flag and socket move in lockstep: a listener whose activation was answered Ok really listens,
\* and one that does not listen can be activated
P_C07_ActiveListens == \A x \in rl : x.active = x.sock

\* an ActivateListener answered Ok: some listener of that address is bound afterwards
ActivatedListens ==
  (n' = n + 1 /\ hist'[Len(hist')].st = "ok" /\ hist'[Len(hist')].req.k = "Activate")
     => \E x \in rl' : x.l = hist'[Len(hist')].req.a /\ x.sock
P_C07_ActivatedListens == [][ActivatedListens]_vars

P_C08 == P_C08_ExactlyOnce /\ P_C08_Converged /\ P_C08_BaseCount /\ P_C08_NoStaleAccept

---------------------------------------------------------------------------
(* Generator: one line per distinct state: the history that reached it,    *)
(* what the state looks like, and for every request the predicted answer   *)
(* and state afterwards.                                                   *)

StateNow == [cfg |-> cfg, base |-> base, slab |-> SlabLen, rcl |-> rcl, rbe |-> rbe,
             probes |-> Probes, shut |-> shut, stopped |-> stopped, handed |-> handed, allOk |-> allOk,
             held |-> held]

EmitState ==
  (Emit /\ Len(hist) > Len(Preamble)) => PrintT(<<"REPLAY", ToJson([hist |-> hist, state |-> StateNow])>>)

=============================================================================
