------------------------- MODULE Trace_ConfigState -------------------------
(***************************************************************************)
(* I->S trace validation for ConfigState.tla (properties C05, C06, C07).   *)
(*                                                                         *)
(* The trace (ndjson, env TRACE) is what harness/drive_config recorded on  *)
(* a real ConfigState: one `dispatch` event per command with the abstract  *)
(* command, the result of the call and the projection of the whole         *)
(* configuration afterwards; `reset` starts a fresh instance.  Identifiers *)
(* (addresses, cluster ids, host names, paths, numbers) are not confined   *)
(* to the universes of the exhaustive configs: the dispatch operators of   *)
(* ConfigState.tla do not enumerate them.  The trace is accepted iff for   *)
(* every event the spec's Dispatch gives the recorded result and the       *)
(* recorded post-state; P_C05 / P_C06_Near / P_C07 are evaluated as        *)
(* invariants in every state on the way.  `worker` events come from        *)
(* harness/drive_config_worker (a real worker thread): the answer is the   *)
(* worker's, the post-state what its queries show (WorkerHandle).          *)
(***************************************************************************)
EXTENDS ConfigState, IOUtils

Rec == ndJsonDeserialize(IOEnv.TRACE)

VARIABLE l        \* number of consumed events

ASSUME TLCSet(1, 0)

tvars == <<vars, l>>

PostOK(s, e) ==
  LET p == Proj(s) IN
  /\ p.lst = ToSet(e.post.lst) /\ p.clu = ToSet(e.post.clu)
  /\ p.bke = ToSet(e.post.bke) /\ p.bbk = ToSet(e.post.bbk)
  /\ p.hfr = ToSet(e.post.hfr)
  /\ p.crt = ToSet(e.post.crt) /\ p.cbk = ToSet(e.post.cbk)
  /\ p.tfr = ToSet(e.post.tfr) /\ p.tbk = ToSet(e.post.tbk)
  \* the real maps hold no duplicates (a set would hide them)
  /\ Len(e.post.lst) = Cardinality(p.lst) /\ Len(e.post.bke) = Cardinality(p.bke)
  /\ Len(e.post.hfr) = Cardinality(p.hfr) /\ Len(e.post.crt) = Cardinality(p.crt)
  /\ Len(e.post.tfr) = Cardinality(p.tfr) /\ Len(e.post.clu) = Cardinality(p.clu)

T_Reset(e) == e.ev = "reset" /\ st' = Empty

T_Dispatch(e) ==
  /\ e.ev = "dispatch"
  /\ LET d == Dispatch(st, e.cmd) IN
       /\ d.res = e.res
       /\ st' = d.st
       /\ PostOK(d.st, e)

\* a command sent to a real worker: `res` is the worker's answer, `post` the configuration its queries show
T_Worker(e) ==
  /\ e.ev = "worker"
  /\ LET h == WorkerHandle(st, e.cmd, e.res) IN
       /\ st' = h.st
       /\ PostOK(h.st, e)

TraceNext ==
  /\ l < Len(Rec)
  /\ l' = l + 1
  /\ UNCHANGED <<tgt, hist>>
  /\ LET e == Rec[l + 1] IN T_Reset(e) \/ T_Dispatch(e) \/ T_Worker(e)

TraceInit == Init /\ l = 0
TraceSpec == TraceInit /\ [][TraceNext]_tvars

Track == (l > TLCGet(1) => TLCSet(1, l)) /\ TRUE

TraceAccepted ==
  /\ IF TLCGet(1) = Len(Rec)
     THEN PrintT(<<"TRACE-ACCEPTED", TLCGet(1)>>)
     ELSE /\ PrintT(<<"TRACE-REJECTED", TLCGet(1), Len(Rec)>>)
          /\ PrintT(<<"FIRST-UNEXPLAINED", Rec[TLCGet(1) + 1].ev, Rec[TLCGet(1) + 1].seq>>)
  /\ TRUE
=============================================================================
