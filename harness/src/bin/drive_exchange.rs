//! C02 I->S driver: seeded random exchange scripts (protocol pair, mode, routing outcomes, fault kind at an
//! ARBITRARY byte offset of the response, pacing) executed against real sozu workers with the scripted peers
//! of vh::xkit. Every run is recorded as one ndjson line: the script projected onto the abstract scenario of
//! spec/HttpExchange.tla plus, per observer (the client, each backend connection), what that observer saw, in
//! its own order, with run and request ids on every event. spec/Trace_HttpExchange.tla validates the file.
//!
//! The driver itself only reports what needs no model: a request that never ends (hang), two answers, a
//! corrupted or silently truncated body, cross-talk, a dead worker.
//!
//! --seed S --runs N --out FILE [--threads T] [--rigs R]

use std::sync::atomic::{AtomicUsize, Ordering};
use std::sync::{Arc, Mutex};
use std::time::Duration;

use rand::rngs::StdRng;
use rand::{RngExt, SeedableRng};
use serde_json::{json, Value};
use vh::h2::Hpack;
use vh::h2kit::{emit_out, steal_stdout};
use vh::xkit::*;

fn arg(name: &str, d: &str) -> String {
    let a: Vec<String> = std::env::args().collect();
    a.iter().position(|x| x == name).and_then(|i| a.get(i + 1)).cloned().unwrap_or_else(|| d.to_string())
}

struct Abs { route: String, framing: String, fault: String, at: String, pace: String, interim: String, lsid: String }

fn pick<'a>(rng: &mut StdRng, xs: &[(&'a str, u32)]) -> &'a str {
    let tot: u32 = xs.iter().map(|x| x.1).sum();
    let mut n = rng.random_range(0..tot);
    for (x, w) in xs {
        if n < *w { return x; }
        n -= w;
    }
    xs[0].0
}

/// A random script and its projection onto the abstract scenario.
fn random_scenario(seed: u64, run: u64) -> (Scenario, Vec<Abs>) {
    let mut rng = StdRng::seed_from_u64(seed.wrapping_mul(1_000_003).wrapping_add(run));
    let front = if rng.random_bool(0.5) { "h1" } else { "h2" };
    let back = if rng.random_bool(0.5) { "h1" } else { "h2" };
    let n = if rng.random_bool(0.35) { 1 } else { 2 };
    let mode = if n == 1 { "seq" } else if front == "h1" { pick(&mut rng, &[("seqgap", 1), ("pipe", 1)]) } else { pick(&mut rng, &[("seqgap", 1), ("mux", 2)]) };
    let mut reqs: Vec<ReqSpec> = Vec::new();
    let mut abs: Vec<Abs> = Vec::new();
    let mut backend_wide: Option<&str> = None;
    let mut have_iplimit = false;
    for i in 0..n {
        let mut route = pick(&mut rng, &[("a", 55), ("b", 20), ("noroute", 5), ("deny", 5), ("redirect", 3), ("nobackend", 5), ("iplimit", 3), ("wrongcert", 4)]);
        if route == "wrongcert" && front != "h2" { route = "noroute"; }
        if route == "iplimit" && have_iplimit { route = "b"; }
        if route == "iplimit" { have_iplimit = true; }
        let framing = if back == "h1" { pick(&mut rng, &[("cl", 3), ("chunked", 3), ("close", 1)]) } else { pick(&mut rng, &[("cl", 1), ("chunked", 1)]) };
        let mut body = rng.random_range(1..=2usize);
        let mut spec = ReqSpec { route: route.into(), framing: framing.into(), body, k: rng.random_range(0..4), ..Default::default() };
        let mut a = Abs { route: route.into(), framing: framing.into(), fault: "none".into(), at: "none".into(), pace: "fast".into(), interim: "none".into(), lsid: "na".into() };
        if route == "b" && rng.random_bool(0.25) {
            spec.fault = "drip".into();
            spec.body = 3;
            a.pace = "drip".into();
        }
        if route == "a" {
            let kind = pick(&mut rng, &[("none", 12), ("drip", 10), ("refuse", 5), ("mute", 5), ("close", 18), ("reset", 14), ("garbage", 10), ("stall", 16), ("rststream", 6), ("between", 8), ("goaway", 8), ("interim", 8)]);
            let kind = if (kind == "rststream" || kind == "goaway") && back != "h2" { "close" } else { kind };
            match kind {
                "none" => {}
                "drip" => { spec.fault = "drip".into(); spec.body = 3; a.pace = "drip".into(); }
                "interim" => {
                    // a 103 before the final response, in its own segment or in one segment with the final head
                    let how = if rng.random_bool(0.5) { "sep" } else { "same" };
                    spec.interim = how.into(); a.interim = how.into();
                    // (framed, kept-alive responses only: see ScenarioSet in HttpExchange.tla)
                    if spec.framing == "close" { spec.framing = "cl".into(); a.framing = "cl".into(); }
                }
                "goaway" => {
                    // graceful GOAWAY(NO_ERROR) of the h2c backend: before HEADERS, between HEADERS and DATA, after the answer
                    let at = pick(&mut rng, &[("prehdr", 3), ("posthdr", 2), ("between", 2)]);
                    let lsid = if at == "prehdr" { pick(&mut rng, &[("below", 1), ("equal", 2), ("above", 1)]) } else { pick(&mut rng, &[("equal", 2), ("above", 1)]) };
                    spec.fault = "goaway".into(); spec.at = at.into(); spec.lsid = lsid.into(); spec.split = rng.random_bool(0.5);
                    a.fault = "goaway".into(); a.at = at.into(); a.lsid = lsid.into();
                    if spec.split { a.pace = "split".into(); }
                }
                "refuse" | "mute" => { if backend_wide.is_none() { backend_wide = Some(kind); } }
                "between" => {
                    let k = if rng.random_bool(0.6) { "close" } else { "reset" };
                    spec.fault = k.into(); spec.at = "between".into();
                    a.fault = k.into(); a.at = "between".into();
                }
                k => {
                    if k == "stall" && back == "h2" { body = 2; spec.body = 2; }
                    let (total, head, fde) = if back == "h1" {
                        let (r, h) = h1_response(i, &spec);
                        (r.len(), h, None)
                    } else {
                        let (r, h, f) = h2_response_frames(&mut Hpack::default(), (2 * i + 1) as u32, i, &spec);
                        (r.len(), h, Some(f))
                    };
                    let _ = body;
                    let boundaries: Vec<usize> = { let mut b = vec![0, head]; if let Some(f) = fde { if f > head && f < total { b.push(f); } } b };
                    let mut off = match rng.random_range(0..10) {
                        0 => 0,
                        1 => head,
                        2 => total - 1,
                        3 => head.saturating_sub(1).max(1),
                        _ => rng.random_range(0..total),
                    };
                    if k == "garbage" && !(framing == "chunked" && back == "h1") && off >= head { off = rng.random_range(0..head); }
                    if k == "rststream" { off = boundaries[rng.random_range(0..boundaries.len())]; }
                    // on an h2c connection bytes that fall inside a frame payload are that payload (a header value,
                    // body data), whatever they are: "garbage" is only garbage inside a frame header or between frames
                    if k == "garbage" && back == "h2" {
                        off = if rng.random_bool(0.5) { rng.random_range(1..9) } else { boundaries[rng.random_range(0..boundaries.len())] };
                    }
                    let at = if off == 0 { "prehdr" } else if off < head { "midhdr" } else if off == head { "posthdr" } else { "midbody" };
                    spec.fault = k.into(); spec.at = at.into(); spec.off = Some(off);
                    a.fault = k.into(); a.at = at.into();
                    // the pacing dimension of close / reset: in a read of its own, or in one go with the bytes before it
                    if (k == "close" || k == "reset") && off > 0 && rng.random_bool(0.4) { spec.split = true; a.pace = "split".into(); }
                    // on a shared h2c connection a stall inside a frame silences the connection
                    if k == "stall" && back == "h2" && !boundaries.contains(&off) { a.fault = "connstall".into(); }
                }
            }
        }
        reqs.push(spec);
        abs.push(a);
    }
    if let Some(bw) = backend_wide {
        // refuse / never accept is a property of the backend: every request routed to it meets it
        for (s, a) in reqs.iter_mut().zip(abs.iter_mut()) {
            if s.route == "a" {
                let k = if bw == "refuse" { "refuse" } else { "stall" };
                s.fault = k.into(); s.at = "accept".into(); s.off = None;
                a.fault = k.into(); a.at = "accept".into(); a.pace = "fast".into();
                if s.body == 3 { s.body = 2; }
            }
        }
    }
    // "connstall" only means something when another request shares the connection; alone it is a stall
    let shared = abs.iter().filter(|a| a.route == "a").count() > 1;
    // the scripted h2c backend serves the streams of one connection one after the other: a dripping response
    // would delay the script of the stream behind it, which the specification (faults happen as soon as they
    // are due) does not describe - no drip on a shared h2c connection
    if shared && back == "h2" {
        for (s, a) in reqs.iter_mut().zip(abs.iter_mut()) {
            if s.route == "a" && s.fault == "drip" { s.fault = "none".into(); s.body = 2; a.pace = "fast".into(); }
        }
    }
    if !shared { for a in abs.iter_mut() { if a.fault == "connstall" { a.fault = "stall".into(); } } }
    // a GOAWAY naming one stream also speaks about the other streams of the connection: with a second request on
    // the backend only the "everything will be processed" form is scripted
    if shared && mode != "seqgap" {
        for (s, a) in reqs.iter_mut().zip(abs.iter_mut()) { if s.fault == "goaway" { s.lsid = "above".into(); a.lsid = "above".into(); } }
    }
    let nbk = if n == 1 && reqs[0].route == "a" && rng.random_bool(0.15) { 2 } else { 1 };
    let timing = if rng.random_bool(0.3) { "ff" } else { "bf" };
    let scn = Scenario { id: run, front: front.into(), back: back.into(), mode: mode.into(), nbk, timing: timing.into(), gap_ms: if mode == "mux" { [0u64, 0, 1, 2, 5][rng.random_range(0..5)] } else { 0 }, reqs, sel: None };
    (scn, abs)
}

fn bk_name(b: &str) -> String { b.replace("bk", "B") }

/// Per-observer event lists in the vocabulary of Trace_HttpExchange.
fn project(run: u64, obs: &[ReqObs], events: &[Value]) -> Vec<Vec<Value>> {
    let mut names: Vec<String> = vec!["client".into()];
    for e in events {
        let o = e["obs"].as_str().unwrap_or("");
        // bk4 only ever serves the connection that holds the per-IP slot of the iplimit cluster (not a request of the run)
        if !names.iter().any(|n| n == o) && o != "clientdbg" && !o.starts_with("bk4") { names.push(o.to_string()); }
    }
    let mut out: Vec<Vec<Value>> = Vec::new();
    for n in &names {
        let mut mine: Vec<&Value> = events.iter().filter(|e| e["obs"] == n.as_str()).collect();
        mine.sort_by_key(|e| e["seq"].as_u64().unwrap_or(0));
        let mut l = Vec::new();
        for e in mine {
            let r = e["r"].as_u64().map(|x| x + 1);
            match e["ev"].as_str().unwrap_or("") {
                "C_Send" => l.push(json!({"ev": "C_Send", "run": run, "r": r})),
                "C_NotSent" => l.push(json!({"ev": "C_NotSent", "run": run, "r": r})),
                "C_Status" => l.push(json!({"ev": "C_Status", "run": run, "r": r, "status": e["status"].as_u64().map(|s| s.to_string()).unwrap_or_else(|| "none".into())})),
                "C_End" => {
                    let idx = e["r"].as_u64().unwrap_or(0) as usize;
                    let loose = obs.get(idx).map(|o| o.framing == "close").unwrap_or(false);
                    let how = if e["complete"] == true { "complete" } else { "abort" };
                    l.push(json!({"ev": "C_End", "run": run, "r": r, "how": how, "loose": loose}));
                }
                "B_Req" => l.push(json!({"ev": "B_Req", "run": run, "r": r, "bk": bk_name(e["bk"].as_str().unwrap_or(""))})),
                "B_Fault" => l.push(json!({"ev": "B_Fault", "run": run, "r": r})),
                _ => {}
            }
        }
        if !l.is_empty() || n == "client" { out.push(l); }
    }
    out.truncate(8);
    out
}

fn main() {
    steal_stdout();
    let seed: u64 = arg("--seed", "1").parse().unwrap_or(1);
    let runs: u64 = arg("--runs", "100").parse().unwrap_or(100);
    let out_path = arg("--out", "/dev/null");
    let threads: usize = arg("--threads", "24").parse().unwrap_or(24);
    let nrigs: usize = arg("--rigs", "4").parse().unwrap_or(4);
    // --only R --repeat K: execute the script of run R (of this seed) K times instead of runs 1..N
    let only: u64 = arg("--only", "0").parse().unwrap_or(0);
    let repeat: u64 = arg("--repeat", "1").parse().unwrap_or(1);
    let runs = if only > 0 { repeat } else { runs };
    let budget = Duration::from_millis(13 * 500 + 6000);
    let mut rigs = Vec::new();
    for i in 0..nrigs {
        match start_rig(&format!("c02d{i}")) {
            Ok(r) => rigs.push(Mutex::new(r)),
            Err(e) => { eprintln!("rig: {e}"); std::process::exit(3); }
        }
    }
    let rigs = Arc::new(rigs);
    let next = Arc::new(AtomicUsize::new(0));
    let lines: Arc<Mutex<Vec<(u64, Value)>>> = Arc::new(Mutex::new(Vec::new()));
    let stats = Arc::new(Mutex::new((0usize, 0usize, std::collections::BTreeSet::<String>::new(), 0usize))); // violations, slow, distinct, toolerrors
    let mut hs = Vec::new();
    for _ in 0..threads.max(1) {
        let (rigs, next, lines, stats) = (rigs.clone(), next.clone(), lines.clone(), stats.clone());
        hs.push(std::thread::spawn(move || loop {
            let i = next.fetch_add(1, Ordering::SeqCst) as u64;
            if i >= runs { break; }
            let run = if only > 0 { only } else { i + 1 };
            let (mut scn, abs) = random_scenario(seed, run);
            scn.id = 500_000 + seed % 1000 * 1000 + run + if only > 0 { 1_000_000 * (i + 1) } else { 0 };
            let env = {
                let mut g = rigs[(i as usize) % rigs.len()].lock().unwrap();
                if g.worker.is_finished() { continue; }
                match g.setup(&scn) { Ok(e) => e, Err(e) => { emit_out(&json!({"kind": "toolerror", "run": run, "why": e})); stats.lock().unwrap().3 += 1; continue; } }
            };
            let cfg = RunCfg { deadline: budget, grace: Duration::from_millis(12000) };
            let (obs, events) = match run_scenario(&env, &scn, &cfg) {
                Ok(x) => x,
                Err(e) => { emit_out(&json!({"kind": "toolerror", "run": run, "why": e})); stats.lock().unwrap().3 += 1; continue; }
            };
            drop(env);
            let slow = events.iter().any(|e| e["ev"] == "B_Slow");
            let mut viol: Vec<(String, Value)> = Vec::new();
            let pair = format!("{}-{}", scn.front, scn.back);
            for o in &obs {
                let spec = &scn.reqs[o.idx];
                let what = format!("{}:{}/{}@{}", pair, spec.route, spec.fault, spec.at);
                for c in universal_checks(o, spec) { viol.push((format!("{}:{}", c.0, what), c.1)); }
                if o.sent && !o.ended() {
                    viol.push((format!("hang:{what}"), json!({"r": o.idx, "status": o.status, "waited_ms": (cfg.deadline + cfg.grace).as_millis() as u64})));
                }
            }
            let sig: Vec<String> = abs.iter().zip(obs.iter()).map(|(a, o)| { let (s, h) = o.outcome(); format!("{}/{}/{}@{}/{}={}/{}", a.route, a.framing, a.fault, a.at, a.pace, s, h) }).collect();
            let sig = format!("{}:{}:{}:{}", pair, scn.mode, scn.timing, sig.join("+"));
            let mut st = stats.lock().unwrap();
            if slow {
                // the harness was too slow to keep its own script: the run says nothing
                st.1 += 1;
                continue;
            }
            st.2.insert(sig.clone());
            for (class, detail) in &viol {
                st.0 += 1;
                emit_out(&json!({"kind": "violation", "class": class, "detail": detail, "run": run, "scenario": scn.to_json(),
                                 "obs": obs.iter().map(|o| o.to_json()).collect::<Vec<_>>(), "events": events}));
            }
            drop(st);
            let rec = json!({"run": run, "front": scn.front, "back": scn.back, "mode": scn.mode, "nbk": scn.nbk, "timing": scn.timing, "sig": sig,
                "reqs": abs.iter().map(|a| json!({"route": a.route, "framing": a.framing, "fault": a.fault, "at": a.at, "pace": a.pace, "interim": a.interim, "lsid": a.lsid})).collect::<Vec<_>>(),
                "script": scn.to_json().to_string(),
                "obs": project(run, &obs, &events)});
            lines.lock().unwrap().push((if only > 0 { i + 1 } else { run }, rec));
        }));
    }
    for h in hs { let _ = h.join(); }
    for (i, r) in rigs.iter().enumerate() {
        let mut g = r.lock().unwrap();
        if g.worker.is_finished() {
            let msg = match g.worker.join_within(Duration::from_millis(100)) { Err(m) => m, Ok(_) => "worker thread exited".into() };
            emit_out(&json!({"kind": "violation", "class": "worker-panic", "detail": {"rig": i, "message": msg}, "run": Value::Null}));
            stats.lock().unwrap().0 += 1;
        }
    }
    let mut l = lines.lock().unwrap();
    l.sort_by_key(|x| x.0);
    let mut text = String::new();
    for (_, v) in l.iter() { text.push_str(&v.to_string()); text.push('\n'); }
    if let Err(e) = std::fs::write(&out_path, text) { eprintln!("write {out_path}: {e}"); std::process::exit(3); }
    let st = stats.lock().unwrap();
    emit_out(&json!({"kind": "summary", "runs": l.len(), "violations": st.0, "slow": st.1, "distinct": st.2.len(), "toolerrors": st.3}));
    std::process::exit(0);
}
