#!/usr/bin/env python3
"""Prints the prompt for a blind seeding sub-agent: only the property text + a scratch worktree path."""
import json, sys
pid, n = sys.argv[1], sys.argv[2]
p = [json.loads(l) for l in open('/verif/properties.jsonl') if json.loads(l)['id'] == pid][0]
wt = "/tmp/seed-%s-%s" % (pid, n)
print(f"""You are testing how well a verification effort can detect realistic defects in sozu (a Rust reverse proxy, repository at /repo, pinned commit plus some repair commits). Your job: produce TWO independent, realistic code changes to sozu, each of which BREAKS the property below while the code still compiles and the repository's existing test suite still passes, and for each a demonstration (a test or small program) that FAILS with the change and PASSES without it.

Hard rules:
- Work ONLY in your own scratch git worktree: run `git -C /repo worktree add --detach {wt} HEAD` and do everything there (build with `CARGO_TARGET_DIR={wt}/target cargo ... --offline`; there is no network). NEVER edit, build in, or commit to /repo itself. Do NOT read anything under /verif (you must stay independent of the existing verification machinery) and do not look at other /tmp/seed-* or /tmp/vmut-* directories.
- Each change must need something SPECIFIC to manifest — a particular interleaving or pacing, a crash or fault at a particular point, a multi-step sequence of operations, an unusual (but legal) input, or two cooperating sites that each look fine alone — NOT something ordinary use would expose at once (the existing tests must keep passing). Think: off-by-one on a boundary, a dropped conjunct in a guard, a wrong key in a map, a missing re-arm/reset on one path, a swapped order on an error path, a stale cache entry. Keep each change small (a few lines), plausible as an honest mistake or refactoring slip, and located in non-test code. The two changes must be different in kind and location.
- Existing tests: after each change run at least the unit tests of the crate(s) you touched (`cargo test --offline -p sozu-lib --lib`, `-p sozu-command-lib --lib`, `-p sozu --lib` as relevant) and the e2e test modules related to the area (`cargo test --offline -p sozu-e2e <filter>`), and make sure they pass exactly as they do without your change (known environment failures that you can ignore because they fail on the unchanged tree too: sozu-lib socket::stats::test_rtt, sozu-e2e tests::fuzz_tests::*, tests::h2_security_tests::test_h2_multi_cluster_routing, tests::tls_tests::test_tls_sni_routing; a few e2e tests are timing-flaky under load — re-run to tell). The machine is shared and loaded; builds are slow, be patient.
- Demonstration: a self-contained Rust test file or small program that uses sozu's crates (put it where it compiles inside the worktree, e.g. `lib/tests/seed_demo_1.rs`, `command/tests/…`, `e2e/src/tests/…` is private so prefer lib/tests or command/tests or bin/tests, or an example) plus the exact command to run it. It must pass on the unchanged tree and fail with your change, deterministically (or say how often).
- Deliver, under `{wt}/OUT/`: for k in 1,2: `change_k.diff` (output of `git diff` for the source change ONLY, applying cleanly to /repo HEAD with `git apply`), `demo_k/` containing the demonstration file(s) with their path relative to the repository root preserved, `demo_k.cmd` (one shell line, run from the repository root, exit code 0 = pass), and `README_k.md` (what the change is, why it breaks the property, what it needs in order to manifest, which tests you ran and their results with and without the change). Leave the worktree and `{wt}/target` in place (the coordinator reuses and then removes them).

The property (id {p['id']}): {p['title']}
Statement: {p['statement']}
Quantified over: {', '.join(p['quantifier']['over'])} — {p['quantifier']['text']}
Why the existing tests cannot settle it: {p['why_tests_cant']}
Code anchors: files {', '.join(p['anchors']['files'])}; mechanisms: {'; '.join(m['name'] + ' (' + m.get('where','') + ')' for m in p['anchors']['mechanism'])}

Finish with a short report: the two changes (file, function, one-line description), what each needs to manifest, demonstration commands, test results.""")
