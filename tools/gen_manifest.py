#!/usr/bin/env python3
"""Generates MANIFEST.json from the table below (single source of truth for check registration)."""
import json
import os
import re
import subprocess

ROOT = os.path.dirname(os.path.dirname(os.path.abspath(__file__)))

def load_checks():
    """One fragment per property: tools/props/cXX.json with keys engine, technique, level, text, note, design
    (optional: not_applicable reason instead)."""
    out = {}
    d = os.path.join(ROOT, "tools", "props")
    for fn in sorted(os.listdir(d)):
        if re.match(r"^c\d+\.json$", fn):
            with open(os.path.join(d, fn)) as f:
                out[fn[:-5].upper()] = json.load(f)
    return out


CHECKS = load_checks()
_enabled = os.path.join(ROOT, "tools", "props", "enabled.txt")
if os.path.exists(_enabled):
    _ids = set(open(_enabled).read().split())
    CHECKS = {k: v for k, v in CHECKS.items() if k in _ids}

NOT_YET = {}

PROPS = [json.loads(l) for l in open(os.path.join(ROOT, "properties.jsonl"))]


def main():
    hooks_commits = []
    try:
        out = subprocess.run(["git", "-C", "/repo", "log", "--format=%H %s"], capture_output=True, text=True).stdout
        for line in out.splitlines():
            h, _, subj = line.partition(" ")
            if subj.startswith("verif-hook:"):
                hooks_commits.append(h)
    except Exception:
        pass
    checks = []
    for pid in sorted(CHECKS):
        c = CHECKS[pid]
        checks.append({
            "property_id": pid,
            "quick_cmd": "./check %s --tier quick" % pid,
            "thorough_cmd": "./check %s --tier thorough" % pid,
            "evidence_file": "/verif/evidence/%s.json" % pid,
            "replay_cmd_template": "./check %s --replay {path}" % pid,
            "engine": c["engine"],
            "level_claimed": {"category": c["level"], "text": c["text"], "design_ref": c["design"]},
            "level_note": c["note"],
            "technique": c["technique"],
        })
    na = []
    for p in PROPS:
        if p["id"] not in CHECKS:
            na.append({"property_id": p["id"],
                       "reason": NOT_YET.get(p["id"], "check not built yet in this round; planned in DESIGN.md section 3 (model-based, same technique)")})
    m = {
        "version": 1,
        "setup_cmd": "./setup.sh",
        "hooks": {
            "guard": "--cfg sozu_verif",
            "enable": "harness/.cargo/config.toml sets rustflags = [\"--cfg\",\"sozu_verif\"]; the harness crate path-depends on /repo/{command,lib,bin}, so every check rebuilds /repo's working tree with the hooks on",
            "baseline_off_cmd": "cd /repo && cargo nextest run --workspace --no-fail-fast --test-threads 8 --offline",
            "source_commits": hooks_commits,
            "add_only": True,
        },
        "engines": [
            {"name": "tlc", "path": "tools/vlib.py", "serves_properties": sorted(CHECKS), "kind_free_text": "TLC 1.8 runs of spec/*.tla (exhaustive MC configs, generator configs printing REPLAY lines, trace-validation configs)"},
            {"name": "harness", "path": "harness/", "serves_properties": sorted(CHECKS), "kind_free_text": "Rust replayers/drivers linked against /repo's crates built with --cfg sozu_verif"},
        ],
        "checks": checks,
        "not_applicable": na,
        "notes": "Entry point ./check Cxx --tier quick|thorough; known findings in known_findings.json; see DESIGN.md.",
    }
    with open(os.path.join(ROOT, "MANIFEST.json"), "w") as f:
        json.dump(m, f, indent=1)
        f.write("\n")


if __name__ == "__main__":
    main()
