//! C16 S->I: replays TLC-generated steps of spec/Sessions.tla on the real
//! `sozu_lib::server::SessionManager` and compares, after every step, the object's visible state
//! (nb_connections, can_accept, slab length, per-(cluster, ip) counts, reverse index, the answer
//! of `cluster_ip_at_limit` for every (token, cluster, ip)) with what the spec predicts.
//!
//! stdin: ndjson, one object per line, either
//!   {"max":M,"sys":S,"steps":[{"step":{..},"post":{..}}, ..]}            a behaviour (Gen = "hist")
//!   {"max":M,"sys":S,"trans":{"pre":{..},"step":{..},"post":{..}}}       one transition (Gen = "last")
//! For a transition the pre-state is built through the public API / public fields.
//! `--overrides c2=1` gives the initial cluster-level max_connections_per_ip overrides of the spec instance;
//! a `SetOverride` step (AddCluster again with another value) changes them, a transition carries them in `pre.ovr`.
//! stdout: {"kind":"violation",..} lines and one {"kind":"summary",..}.
use std::cell::RefCell;
use std::collections::{BTreeMap, BTreeSet, HashMap};
use std::io::BufRead;
use std::net::IpAddr;
use std::panic::{AssertUnwindSafe, catch_unwind};
use std::rc::Rc;

use mio::Token;
use serde_json::{Value, json};
use slab::Slab;
use sozu_lib::server::{ListenSession, SessionManager};
use sozu_lib::{Protocol, ProxySession};

type Sm = Rc<RefCell<SessionManager>>;

fn dummy() -> Rc<RefCell<dyn ProxySession>> {
    Rc::new(RefCell::new(ListenSession { protocol: Protocol::HTTPListen }))
}

fn ip_of(name: &str) -> IpAddr {
    // model address "i<k>" -> 127.0.0.<k>; anything else parsed literally
    if let Some(k) = name.strip_prefix('i') {
        if let Ok(k) = k.parse::<u8>() {
            return IpAddr::from([127, 0, 0, k]);
        }
    }
    name.parse().unwrap_or(IpAddr::from([127, 0, 0, 250]))
}

struct World {
    sm: Sm,
    /// model token -> (front slab key, backend slab keys per cluster)
    toks: HashMap<i64, (usize, BTreeMap<String, usize>)>,
    overrides: HashMap<String, u64>,
    clusters: Vec<String>,
    ips: Vec<String>,
    model_toks: Vec<i64>,
    /// slab key created by CreateOk, waiting for Incr
    pending: Option<i64>,
}

impl World {
    fn new(max: usize, sys: usize, limit: u64, overrides: &HashMap<String, u64>, clusters: &[String], ips: &[String], model_toks: &[i64]) -> World {
        let mut slab: Slab<Rc<RefCell<dyn ProxySession>>> = Slab::with_capacity(10 + 4 * max);
        for _ in 0..sys {
            slab.insert(dummy());
        }
        let sm = SessionManager::new(slab, max, limit, 0);
        World { sm, toks: HashMap::new(), overrides: overrides.clone(), clusters: clusters.to_vec(), ips: ips.to_vec(), model_toks: model_toks.to_vec(), pending: None }
    }

    fn token(&self, t: i64) -> Token {
        // a model token without a session maps to a key that is never handed out
        Token(self.toks.get(&t).map(|x| x.0).unwrap_or(1_000_000 + t as usize))
    }

    fn ovr(&self, c: &str) -> Option<u64> {
        self.overrides.get(c).copied()
    }

    fn project(&self) -> Value {
        let sm = self.sm.borrow();
        let (counts, tracks) = sm.verif_per_ip_tables();
        let rev: HashMap<usize, i64> = self.toks.iter().map(|(t, (k, _))| (*k, *t)).collect();
        let counts: BTreeSet<(String, String, usize)> = counts.into_iter().map(|(c, ip, n)| (c, self.ip_name(ip), n)).collect();
        let tracks: BTreeSet<(i64, String, String)> =
            tracks.into_iter().map(|(k, c, ip)| (rev.get(&k).copied().unwrap_or(-(k as i64)), c, self.ip_name(ip))).collect();
        // the public-API view: the at-limit answer for every (token, cluster, ip)
        let mut atl: BTreeSet<(i64, String, String)> = BTreeSet::new();
        for t in &self.model_toks {
            for c in &self.clusters {
                for ip in &self.ips {
                    if sm.cluster_ip_at_limit(self.token(*t), c, &ip_of(ip), self.ovr(c)) {
                        atl.insert((*t, c.clone(), ip.clone()));
                    }
                }
            }
        }
        // ... and the counts as the public API reveals them: count >= k  <=>  a fresh token is at limit k
        let mut api_counts: BTreeSet<(String, String, usize)> = BTreeSet::new();
        for c in &self.clusters {
            for ip in &self.ips {
                let mut n = 0usize;
                while n < 64 && sm.cluster_ip_at_limit(Token(2_000_000), c, &ip_of(ip), Some(n as u64 + 1)) {
                    n += 1;
                }
                if n > 0 {
                    api_counts.insert((c.clone(), ip.clone(), n));
                }
            }
        }
        json!({
            "nb": sm.nb_connections, "ca": sm.can_accept, "slab": sm.slab.len(), "limit": sm.max_connections_per_ip,
            "counts": counts.iter().map(|(c, ip, n)| json!({"c": c, "ip": ip, "n": n})).collect::<Vec<_>>(),
            "api_counts": api_counts.iter().map(|(c, ip, n)| json!({"c": c, "ip": ip, "n": n})).collect::<Vec<_>>(),
            "tracks": tracks.iter().map(|(t, c, ip)| json!({"t": t, "c": c, "ip": ip})).collect::<Vec<_>>(),
            "atl": atl.iter().map(|(t, c, ip)| json!({"t": t, "c": c, "ip": ip})).collect::<Vec<_>>(),
        })
    }

    fn ip_name(&self, ip: IpAddr) -> String {
        for n in &self.ips {
            if ip_of(n) == ip {
                return n.clone();
            }
        }
        ip.to_string()
    }

    /// Executes one spec step the way lib/src/server.rs drives the SessionManager. Returns the
    /// step's own output (check_limits result / at-limit answer) when it has one.
    fn apply(&mut self, step: &Value) -> Option<Value> {
        let op = step["op"].as_str().unwrap_or("");
        let t = step["t"].as_i64().unwrap_or(0);
        match op {
            "CheckLimits" => Some(json!(self.sm.borrow_mut().check_limits())),
            "CreateOk" => {
                let key = self.sm.borrow_mut().slab.insert(dummy());
                self.toks.insert(t, (key, BTreeMap::new()));
                self.pending = Some(t);
                None
            }
            "Incr" => {
                self.sm.borrow_mut().incr();
                self.pending = None;
                None
            }
            "Track" => {
                let c = step["c"].as_str().unwrap_or("").to_string();
                let ip = ip_of(step["ip"].as_str().unwrap_or(""));
                let tok = self.token(t);
                let at = self.sm.borrow().cluster_ip_at_limit(tok, &c, &ip, self.ovr(&c));
                if !at {
                    self.sm.borrow_mut().track_cluster_ip(tok, c, ip);
                }
                Some(json!(at))
            }
            "Link" => {
                let c = step["c"].as_str().unwrap_or("").to_string();
                let key = self.sm.borrow_mut().slab.insert(dummy());
                if let Some(e) = self.toks.get_mut(&t) {
                    e.1.insert(c, key);
                }
                None
            }
            "Unlink" => {
                let c = step["c"].as_str().unwrap_or("").to_string();
                if let Some(e) = self.toks.get_mut(&t) {
                    if let Some(key) = e.1.remove(&c) {
                        // http.rs remove_session(backend token): untrack (no-op) + slab removal
                        let mut sm = self.sm.borrow_mut();
                        sm.untrack_all_cluster_ip(Token(key));
                        sm.slab.try_remove(key);
                    }
                }
                None
            }
            "Close" => {
                // shut_down_sessions_by_frontend_tokens: slab.remove(front); close() [untrack + backend slots]; decr()
                if let Some((front, backs)) = self.toks.remove(&t) {
                    let mut sm = self.sm.borrow_mut();
                    sm.slab.try_remove(front);
                    sm.untrack_all_cluster_ip(Token(front));
                    for (_, key) in backs {
                        sm.untrack_all_cluster_ip(Token(key));
                        sm.slab.try_remove(key);
                    }
                    sm.decr();
                }
                None
            }
            "SetOverride" => {
                // AddCluster again: the proxies keep the cluster's max_connections_per_ip and hand it to every gate call
                let c = step["c"].as_str().unwrap_or("").to_string();
                match step["v"].as_i64().unwrap_or(-1) {
                    v if v < 0 => {
                        self.overrides.remove(&c);
                    }
                    v => {
                        self.overrides.insert(c, v as u64);
                    }
                }
                None
            }
            "SetPerIpLimit" => {
                // Server::notify, RequestType::SetMaxConnectionsPerIp
                let n = step["n"].as_u64().unwrap_or(0);
                let mut sm = self.sm.borrow_mut();
                sm.max_connections_per_ip = n;
                if n == 0 {
                    sm.clear_cluster_ip_tracking();
                }
                None
            }
            // environment / server-side steps that do not touch the SessionManager
            _ => None,
        }
    }

    /// Build the pre-state of a transition through the public API.
    fn build(&mut self, pre: &Value, step: &Value, frees: usize) -> Result<(), String> {
        let nb = pre["nb"].as_u64().unwrap_or(0) as usize;
        // sessions: every token mentioned in tracks or by the step, plus anonymous ones up to nb
        let mut toks: BTreeSet<i64> = pre["tracks"].as_array().map(|a| a.iter().filter_map(|x| x["t"].as_i64()).collect()).unwrap_or_default();
        let op = step["op"].as_str().unwrap_or("");
        let st = step["t"].as_i64().unwrap_or(0);
        if st != 0 && op != "CreateOk" {
            toks.insert(st);
        }
        let mut anon = 100;
        // a session created but not yet counted exists while pc = "created" (step Incr)
        let sessions_wanted = nb + if op == "Incr" { 1 } else { 0 };
        while toks.len() < sessions_wanted {
            toks.insert(anon);
            anon += 1;
        }
        for t in &toks {
            let key = self.sm.borrow_mut().slab.insert(dummy());
            self.toks.insert(*t, (key, BTreeMap::new()));
        }
        for _ in 0..nb {
            self.sm.borrow_mut().incr();
        }
        for tr in pre["tracks"].as_array().cloned().unwrap_or_default() {
            let t = tr["t"].as_i64().unwrap_or(0);
            let c = tr["c"].as_str().unwrap_or("").to_string();
            let ip = ip_of(tr["ip"].as_str().unwrap_or(""));
            let tok = self.token(t);
            self.sm.borrow_mut().track_cluster_ip(tok, c, ip);
        }
        // backend slab entries: pad the slab to the predicted length; an Unlink step needs a named one
        if op == "Unlink" {
            let c = step["c"].as_str().unwrap_or("").to_string();
            let key = self.sm.borrow_mut().slab.insert(dummy());
            if let Some(e) = self.toks.get_mut(&st) {
                e.1.insert(c, key);
            }
        }
        let want = pre["slab"].as_u64().unwrap_or(0) as usize;
        let mut pad = 0;
        while self.sm.borrow().slab.len() < want {
            let key = self.sm.borrow_mut().slab.insert(dummy());
            // attribute padding entries to the step's token when it is going to be closed, so that
            // Close frees them as the spec's Release does
            if op == "Close" && pad + 1 < frees {
                if let Some(e) = self.toks.get_mut(&st) {
                    e.1.insert(format!("pad{pad}"), key);
                    pad += 1;
                }
            }
        }
        if self.sm.borrow().slab.len() != want {
            return Err(format!("cannot build slab length {} (have {})", want, self.sm.borrow().slab.len()));
        }
        self.sm.borrow_mut().can_accept = pre["ca"].as_bool().unwrap_or(true);
        Ok(())
    }
}

fn norm(v: &Value, key: &str) -> Vec<String> {
    let mut out: Vec<String> = v[key].as_array().map(|a| a.iter().map(|x| x.to_string()).collect()).unwrap_or_default();
    out.sort();
    out
}

/// field-by-field comparison of the real projection with the spec's prediction
fn diff(real: &Value, spec: &Value, anon_ok: bool) -> Vec<String> {
    let mut d = Vec::new();
    for k in ["nb", "ca", "slab", "limit"] {
        if real[k] != spec[k] {
            d.push(format!("{k}: real {} spec {}", real[k], spec[k]));
        }
    }
    for (rk, sk) in [("counts", "counts"), ("api_counts", "counts"), ("atl", "atl")] {
        let (a, b) = (norm(real, rk), norm(spec, sk));
        if a != b {
            d.push(format!("{rk}: real {:?} spec {:?}", a, b));
        }
    }
    let (a, b) = (norm(real, "tracks"), norm(spec, "tracks"));
    if a != b && !(anon_ok && a.len() == b.len()) {
        d.push(format!("tracks: real {:?} spec {:?}", a, b));
    }
    d
}

fn main() {
    vh::util::quiet_panics();
    let args: Vec<String> = std::env::args().collect();
    let mut overrides: HashMap<String, u64> = HashMap::new();
    let mut i = 1;
    while i < args.len() {
        if args[i] == "--overrides" && i + 1 < args.len() {
            for kv in args[i + 1].split(',').filter(|s| !s.is_empty()) {
                if let Some((k, v)) = kv.split_once('=') {
                    overrides.insert(k.to_string(), v.parse().unwrap_or(0));
                }
            }
            i += 1;
        }
        i += 1;
    }

    let stdin = std::io::stdin();
    let (mut histories, mut transitions, mut steps, mut comparisons, mut violations) = (0u64, 0u64, 0u64, 0u64, 0u64);
    let mut op_counts: BTreeMap<String, u64> = BTreeMap::new();
    let mut samples: Vec<Value> = Vec::new();
    let mut distinct: BTreeSet<String> = BTreeSet::new();
    for line in stdin.lock().lines() {
        let Ok(line) = line else { break };
        let Ok(obj) = serde_json::from_str::<Value>(&line) else { continue };
        let max = obj["max"].as_u64().unwrap_or(3) as usize;
        let sys = obj["sys"].as_u64().unwrap_or(4) as usize;
        let strs = |k: &str| -> Vec<String> { obj[k].as_array().map(|a| a.iter().filter_map(|x| x.as_str().map(String::from)).collect()).unwrap_or_default() };
        let (clusters, ips) = (strs("clusters"), strs("ips"));
        let model_toks: Vec<i64> = obj["toks"].as_array().map(|a| a.iter().filter_map(|x| x.as_i64()).collect()).unwrap_or_default();
        let report = |kind: &str, detail: Value, violations: &mut u64| {
            *violations += 1;
            if *violations <= 25 {
                vh::util::emit(&json!({"kind": "violation", "class": kind, "detail": detail, "input": obj}));
            }
        };
        if let Some(list) = obj["steps"].as_array() {
            histories += 1;
            // the initial limit is the first post-state's limit unless the first step changes it
            let init_limit = list.first().map(|s| if s["step"]["op"] == "SetPerIpLimit" { 99 } else { s["post"]["limit"].as_u64().unwrap_or(0) }).unwrap_or(0);
            let mut w = World::new(max, sys, init_limit, &overrides, &clusters, &ips, &model_toks);
            let mut sig = String::new();
            for (k, s) in list.iter().enumerate() {
                steps += 1;
                let step = &s["step"];
                let op = step["op"].as_str().unwrap_or("").to_string();
                *op_counts.entry(op.clone()).or_default() += 1;
                sig.push_str(&op[..op.len().min(3)]);
                let r = catch_unwind(AssertUnwindSafe(|| {
                    let out = w.apply(step);
                    (out, w.project())
                }));
                match r {
                    Err(e) => {
                        report("panic", json!({"at": k, "step": step, "panic": vh::util::panic_message(e)}), &mut violations);
                        break;
                    }
                    Ok((out, real)) => {
                        comparisons += 1;
                        let mut d = diff(&real, &s["post"], false);
                        match (op.as_str(), &out) {
                            ("CheckLimits", Some(o)) if *o != step["res"] => d.push(format!("check_limits returned {} spec {}", o, step["res"])),
                            ("Track", Some(o)) if *o != step["atl"] => d.push(format!("cluster_ip_at_limit returned {} spec {}", o, step["atl"])),
                            _ => {}
                        }
                        if !d.is_empty() {
                            report("state-mismatch", json!({"at": k, "step": step, "diff": d, "real": real, "spec": s["post"]}), &mut violations);
                            break;
                        }
                    }
                }
            }
            distinct.insert(sig);
            if samples.len() < 2 {
                samples.push(json!({"history": list.iter().map(|s| s["step"]["op"].clone()).collect::<Vec<_>>()}));
            }
        } else if obj["trans"].is_object() {
            transitions += 1;
            let tr = &obj["trans"];
            let step = &tr["step"];
            let op = step["op"].as_str().unwrap_or("").to_string();
            *op_counts.entry(op.clone()).or_default() += 1;
            steps += 1;
            let limit = tr["pre"]["limit"].as_u64().unwrap_or(0);
            let r = catch_unwind(AssertUnwindSafe(|| {
                // the overrides in force are part of the pre-state
                let pre_ovr: HashMap<String, u64> = match tr["pre"]["ovr"].as_array() {
                    Some(a) => a.iter().filter_map(|x| Some((x["c"].as_str()?.to_string(), x["v"].as_u64()?))).collect(),
                    None => overrides.clone(),
                };
                let mut w = World::new(max, sys, limit, &pre_ovr, &clusters, &ips, &model_toks);
                w.build(&tr["pre"], step, tr["frees"].as_u64().unwrap_or(0) as usize)?;
                let pre = w.project();
                let dpre = diff(&pre, &tr["pre"], true);
                if !dpre.is_empty() {
                    return Ok::<_, String>((Some(dpre), None, Value::Null));
                }
                let out = w.apply(step);
                Ok((None, out, w.project()))
            }));
            match r {
                Err(e) => report("panic", json!({"step": step, "panic": vh::util::panic_message(e)}), &mut violations),
                Ok(Err(e)) => report("unbuildable-pre-state", json!({"step": step, "why": e}), &mut violations),
                Ok(Ok((Some(dpre), _, _))) => report("pre-state-mismatch", json!({"step": step, "diff": dpre}), &mut violations),
                Ok(Ok((None, out, real))) => {
                    comparisons += 1;
                    let mut d = diff(&real, &tr["post"], true);
                    match (op.as_str(), &out) {
                        ("CheckLimits", Some(o)) if *o != step["res"] => d.push(format!("check_limits returned {} spec {}", o, step["res"])),
                        ("Track", Some(o)) if *o != step["atl"] => d.push(format!("cluster_ip_at_limit returned {} spec {}", o, step["atl"])),
                        _ => {}
                    }
                    if !d.is_empty() {
                        report("state-mismatch", json!({"step": step, "diff": d, "real": real, "spec": tr["post"], "pre": tr["pre"]}), &mut violations);
                    }
                }
            }
            distinct.insert(format!("{}|{}|{}", tr["pre"], step, tr["post"]));
            if samples.len() < 4 && (op == "Close" || op == "Track") {
                samples.push(json!({"transition": {"pre": tr["pre"], "step": step, "post": tr["post"]}}));
            }
        }
    }
    vh::util::emit(&json!({"kind": "summary", "histories": histories, "transitions": transitions, "steps": steps,
        "comparisons": comparisons, "violations": violations, "distinct": distinct.len(), "ops": op_counts, "samples": samples}));
}
