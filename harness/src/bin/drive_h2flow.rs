//! C14 - sozu respects every HTTP/2 peer limit and keeps transfers moving (spec/H2Flow.tla).
//!
//! The harness's raw H2 endpoint is the PEER of a real sozu worker and OWNS THE LEDGER: it logs, in its own
//! program order, every frame it sends (SETTINGS, WINDOW_UPDATE, HEADERS, DATA) and every frame it receives
//! from sozu (DATA, HEADERS, CONTINUATION, SETTINGS, SETTINGS ACK, WINDOW_UPDATE, RST_STREAM, GOAWAY).
//! Each connection is one "run" of an ndjson trace that TLC validates against spec/Trace_H2Flow.tla:
//!   * sozu is the server  (TLS/H2 frontend, the peer is the client)  -> --out-server
//!   * sozu is the client  (h2c backend connection, the peer is the backend) -> --out-client
//! Nothing is decided here: the in-process ledger is only a projection used to pace the schedule (has sozu
//! sent everything it may?) and to keep the endpoint itself a LEGAL peer when it uploads.
//!
//! Scenarios come from two places: `--random N` (seeded, I->S) and `--scenarios file` (one JSON scenario per
//! line; tools/props/c14.py builds them from TLC-generated peer schedules, S->I).
//!
//! Liveness is observed without trusting the clock alone, and WITHOUT TOUCHING the checked connection: when sozu
//! owes a frame according to the ledger and is silent, the endpoint asks the SIDECAR (`Beat`: one more HTTP/2
//! connection to the same single-threaded worker) for two PING round trips.  They prove that the worker's event
//! loop has turned twice after the peer's last frame was in the socket, i.e. that sozu has handled everything the
//! peer sent.  If the checked connection then stays silent for a grace period, and for a second confirmation +
//! grace, a `Stall` event is recorded.  If the sidecar is not answered the run is INCONCLUSIVE (overloaded
//! machine / wedged worker: not C14's call).  (The probe used to be a PING on the checked connection itself: any
//! frame sozu reads there makes it run its writer, which hides exactly the defect class "an event that reopens a
//! window does not wake the writer" - seeded defect C14-12.)

use std::collections::{BTreeMap, VecDeque};
use std::io::{Read, Write};
use std::net::{SocketAddr, TcpListener, TcpStream};
use std::os::fd::AsRawFd;
use std::sync::atomic::{AtomicBool, AtomicU64, AtomicUsize, Ordering};
use std::sync::{Arc, Mutex};
use std::time::{Duration, Instant};

use rand::rngs::StdRng;
use rand::{RngExt, SeedableRng};
use serde_json::{Value, json};
use sozu_command_lib::config::ListenerBuilder;
use sozu_command_lib::proto::command::{
    ActivateListener, AddCertificate, CertificateAndKey, Cluster, ListenerType, Status, request::RequestType,
};
use vh::h2::*;
use vh::worker::{LOCAL_CERT, LOCAL_KEY, Worker, free_addr, ok, server_config};

const MAXWIN: i64 = 2_147_483_647;
const CONN_INIT: i64 = 65_535;
/// sozu's own SETTINGS_MAX_FRAME_SIZE (it never changes it): what the endpoint may send in one frame
const SOZU_MAX_FRAME: usize = 16_384;

static RUN: AtomicU64 = AtomicU64::new(0);

// ------------------------------------------------------------------------------------------------
// ledger (projection only)

#[derive(Clone, Copy, Debug, PartialEq)]
struct Sett {
    init_win: i64,
    max_frame: i64,
    max_streams: i64,
    tbl: i64,
}

const DEFAULT_SETT: Sett = Sett { init_win: 65_535, max_frame: 16_384, max_streams: MAXWIN, tbl: 4096 };

#[derive(Clone, Copy, Debug, PartialEq)]
enum Half {
    Wait,
    Idle,
    Open,
    Done,
    Reset,
}

struct StreamL {
    win: i64,
    rem: i64,
    sst: Half,
    pst: Half,
    up_left: i64,
    adv: i64,
    owe: i64,
    /// when the ledger first showed this stream window-blocked (cleared by 16 KiB of progress or an open window at rest)
    blocked_at: Option<Instant>,
    progress: i64,
    resp: i64,
    starved: bool,
    up_total: i64,
    /// the endpoint sent an illegal frame on this stream (sozu owes RST_STREAM): it sends nothing more on it
    muted: bool,
    /// the DATA payload sozu relays on this stream comes from a harness peer (bytes 'd' / 'u'): anything else is foreign
    check_body: bool,
}

#[derive(Clone, Debug)]
struct EpCfg {
    /// no frame for this long while sozu owes something -> PING probe
    ping_after: Duration,
    /// the PING must be answered within this, else inconclusive
    ping_deadline: Duration,
    /// after the PING answer, silence for this long while sozu still owes -> Stall
    grace: Duration,
    up_chunk: usize,
    pad: u8,
    /// stall deadline of the listener (h2_stream_idle_timeout), for the reaper
    reap_after: Option<Duration>,
    /// do not pace bursts of small frames (scenarios that reproduce the loop-budget finding)
    unpaced: bool,
    /// the cooperative client of a backend scenario: what sozu owes it depends on the checked backend peers'
    /// schedules, so it never records a stall itself (the backend endpoints do)
    no_stall: bool,
    /// set by another endpoint of the scenario when waiting on is pointless
    abort: Option<Arc<AtomicBool>>,
    /// see try_upload
    split_hdr: usize,
    split_ms: u64,
    /// the sidecar liveness probe (see the module comment)
    beat: Arc<Beat>,
}

/// SIDECAR liveness probe: an HTTP/2 connection of its own to the worker under test.  `turns(n, ..)` makes n PING
/// round trips one after the other.  The worker is ONE event loop that runs `session.ready()` for every event of a
/// poll batch before it polls again: two round trips begun after a frame was written to a checked connection prove
/// that the batch containing that frame's event has been handled - without a single byte on the checked connection.
struct Beat {
    addr: SocketAddr,
    conn: Mutex<Option<H2Conn<TlsStream>>>,
    seq: AtomicU64,
    used: AtomicU64,
}

impl std::fmt::Debug for Beat {
    fn fmt(&self, f: &mut std::fmt::Formatter<'_>) -> std::fmt::Result { write!(f, "Beat({})", self.addr) }
}

impl Beat {
    fn new(addr: SocketAddr) -> Beat { Beat { addr, conn: Mutex::new(None), seq: AtomicU64::new(0), used: AtomicU64::new(0) } }

    fn turns(&self, n: usize, within: Duration) -> bool {
        let deadline = Instant::now() + within;
        let mut g = match self.conn.lock() { Ok(g) => g, Err(p) => p.into_inner() };
        self.used.fetch_add(1, Ordering::Relaxed);
        for _attempt in 0..4 {
            let now = Instant::now();
            if now >= deadline { return false; }
            if g.is_none() {
                match h2_tls_client(self.addr, "localhost", (deadline - now).min(Duration::from_secs(20))) {
                    Ok(mut c) => { if c.client_preface(&[]) { *g = Some(c); } else { continue; } }
                    Err(_) => { std::thread::sleep(Duration::from_millis(50)); continue; }
                }
            }
            let c = g.as_mut().unwrap();
            let mut ok = true;
            for _ in 0..n {
                let tag = (self.seq.fetch_add(1, Ordering::SeqCst) + 1).to_be_bytes();
                if !c.send(&Frame::ping(tag, false)) { ok = false; break; }
                let mut got = false;
                while !got && !c.eof {
                    let now = Instant::now();
                    if now >= deadline { break; }
                    match c.read_frame(deadline - now) {
                        Some(f) if f.ty == SETTINGS && f.flags & FLAG_ACK == 0 => { c.send(&Frame::settings_ack()); }
                        Some(f) if f.ty == PING && f.flags & FLAG_ACK != 0 && f.payload[..] == tag[..] => { got = true; }
                        Some(f) if f.ty == GOAWAY => { let _ = f; break; }
                        Some(_) => {}
                        None => {}
                    }
                }
                if !got { ok = false; break; }
            }
            if ok { return true; }
            // closed by sozu (idle timeout) or broken: a fresh connection, and all the round trips again
            *g = None;
        }
        false
    }
}

/// A paced peer lets sozu go idle (PING round trip) before it has sent this many frames in a row: Mux::ready
/// closes a session that needs more than 10 000 loop iterations in one wake-up (open finding LoopBudget).
const PACE_FRAMES: u64 = 1000;

#[derive(Debug, PartialEq, Clone, Copy)]
enum Wait {
    Quiet,
    Stall,
    Inconclusive,
    Closed,
    /// sozu's byte stream stopped being a sequence of frames within the limits
    Garbled,
}

struct Ep<S: Read + Write + SetTimeout> {
    c: H2Conn<S>,
    run: u64,
    sozu_is_server: bool,
    ev: Vec<String>,
    eff: Sett,
    pend: VecDeque<Sett>,
    last_sent: Sett,
    conn_win: i64,
    st: BTreeMap<u32, StreamL>,
    slots: Vec<u32>,
    adv_conn: i64,
    adv_init: i64,
    owe_conn: i64,
    enl: i64,
    thr: i64,
    our_set: bool,
    /// unfinished header block: (sid, es, frames [(kind, len, eh)], bytes)
    hdr: Option<(u32, bool, Vec<(u8, usize, bool)>, Vec<u8>)>,
    dead: bool,
    next_sid: u32,
    cfg: EpCfg,
    last_rx: Instant,
    need_upd: bool,
    data_bytes: i64,
    pings: u64,
    notes: Vec<String>,
    /// for the backend role: response sizes are taken from the request path
    auto_respond: bool,
    /// frames sent since sozu was last seen idle
    burst: u64,
    /// largest SETTINGS_MAX_FRAME_SIZE this endpoint has ever advertised (16 384 before any)
    max_frame_hi: i64,
    garbled: bool,
    /// when the last connection-level WINDOW_UPDATEs were sent (sozu's flood detector, C15, answers more than
    /// ~50 per second of them with GOAWAY(ENHANCE_YOUR_CALM): a checked peer stays below that)
    wu0_at: VecDeque<Instant>,
}

fn hdr_size_update(block: &[u8]) -> i64 {
    // value of the (last of the) dynamic table size update(s) a header block starts with, -1 if none
    let mut i = 0;
    let mut upd: i64 = -1;
    while i < block.len() && block[i] & 0xE0 == 0x20 {
        let mut v = (block[i] & 0x1F) as i64;
        i += 1;
        if v == 0x1F {
            let mut m = 0;
            while i < block.len() {
                let b = block[i];
                i += 1;
                v += ((b & 0x7F) as i64) << m;
                m += 7;
                if b & 0x80 == 0 || m > 28 {
                    break;
                }
            }
        }
        upd = upd.max(v);
    }
    upd
}

impl<S: Read + Write + SetTimeout> Ep<S> {
    fn new(s: S, sozu_is_server: bool, recv_conn: i64, cfg: EpCfg, label: &str, scen: u64) -> Ep<S> {
        let run = RUN.fetch_add(1, Ordering::SeqCst) + 1;
        let mut e = Ep {
            c: H2Conn::new(s),
            run,
            sozu_is_server,
            ev: Vec::new(),
            eff: DEFAULT_SETT,
            pend: VecDeque::new(),
            last_sent: DEFAULT_SETT,
            conn_win: CONN_INIT,
            st: BTreeMap::new(),
            slots: Vec::new(),
            adv_conn: CONN_INIT,
            adv_init: CONN_INIT,
            owe_conn: 0,
            enl: recv_conn - CONN_INIT,
            thr: recv_conn / 2,
            our_set: false,
            hdr: None,
            dead: false,
            next_sid: 1,
            cfg,
            last_rx: Instant::now(),
            need_upd: false,
            data_bytes: 0,
            pings: 0,
            notes: Vec::new(),
            auto_respond: !sozu_is_server,
            burst: 0,
            max_frame_hi: 16_384,
            garbled: false,
            wu0_at: VecDeque::new(),
        };
        e.log(json!({"ev": "reset", "role": if sozu_is_server { "server" } else { "client" }, "label": label, "scen": scen,
                     "recvConn": recv_conn}));
        e
    }

    fn log(&mut self, mut v: Value) {
        v["run"] = json!(self.run);
        self.ev.push(v.to_string());
    }

    // ---- what the peer sends ------------------------------------------------------------------

    fn send_settings(&mut self, init_win: Option<i64>, max_frame: Option<i64>, max_streams: Option<i64>, tbl: Option<i64>) {
        let mut kv: Vec<(u16, u32)> = Vec::new();
        let mut s = self.last_sent;
        if let Some(t) = tbl { kv.push((S_HEADER_TABLE_SIZE, t as u32)); s.tbl = t; }
        if let Some(m) = max_streams { kv.push((S_MAX_CONCURRENT_STREAMS, m as u32)); s.max_streams = m; }
        if let Some(w) = init_win { kv.push((S_INITIAL_WINDOW_SIZE, w as u32)); s.init_win = w; }
        if let Some(f) = max_frame { kv.push((S_MAX_FRAME_SIZE, f as u32)); s.max_frame = f; }
        self.last_sent = s;
        self.max_frame_hi = self.max_frame_hi.max(s.max_frame);
        self.pend.push_back(s);
        self.log(json!({"ev": "PeerSettings", "initWin": s.init_win, "maxFrame": s.max_frame, "maxStreams": s.max_streams, "tbl": s.tbl}));
        self.burst += 1;
        self.c.send(&Frame::settings(&kv));
    }

    fn send_wu(&mut self, sid: u32, n: i64) {
        let f = self.note_wu(sid, n);
        self.c.send(&f);
    }

    /// ledger + log of a WINDOW_UPDATE; the caller writes the frame
    fn note_wu(&mut self, sid: u32, n: i64) -> Frame {
        if sid == 0 && !self.cfg.unpaced {
            // at most 30 connection-level updates per second
            while self.wu0_at.front().map(|t| t.elapsed() > Duration::from_millis(1000)).unwrap_or(false) { self.wu0_at.pop_front(); }
            if self.wu0_at.len() >= 30 {
                let wait = Duration::from_millis(1000).saturating_sub(self.wu0_at.front().unwrap().elapsed());
                std::thread::sleep(wait);
                self.wu0_at.pop_front();
            }
            self.wu0_at.push_back(Instant::now());
        }
        self.burst += 1;
        self.log(json!({"ev": "PeerWU", "sid": sid, "n": n}));
        let illegal = n == 0
            || if sid == 0 { self.conn_win > 0 && n > MAXWIN - self.conn_win } else { self.st.get(&sid).map(|s| s.win > 0 && n > MAXWIN - s.win).unwrap_or(false) };
        if !illegal {
            if sid == 0 { self.conn_win += n; } else if let Some(s) = self.st.get_mut(&sid) { s.win += n; }
        }
        Frame::window_update(sid, n as u32)
    }

    /// client-role peer: open a stream asking for `down` bytes, uploading `up`
    fn open(&mut self, prefix: &str, down: i64, up: i64) -> u32 {
        let sid = self.next_sid;
        self.next_sid += 2;
        let path = format!("{}/d{}", prefix, down);
        let cl = up.to_string();
        let extra: Vec<(&str, &str)> = if up > 0 { vec![("content-length", cl.as_str())] } else { vec![] };
        let block = request_block(&mut self.c.hp, if up > 0 { "POST" } else { "GET" }, "https", "localhost", &path, &extra);
        self.st.insert(sid, StreamL { win: self.eff.init_win, rem: down, sst: Half::Wait, pst: if up == 0 { Half::Done } else { Half::Open },
                                     up_left: up, adv: self.adv_init, owe: 0, blocked_at: None, progress: 0, resp: 0, starved: false, up_total: up, muted: false, check_body: false });
        self.slots.push(sid);
        self.log(json!({"ev": "PeerOpen", "sid": sid, "b": down, "u": up}));
        self.burst += 1;
        self.c.send(&Frame::headers(sid, block, true, up == 0));
        sid
    }

    /// backend-role peer: answer stream sid with u bytes
    fn respond(&mut self, sid: u32, u: i64) {
        let cl = u.to_string();
        let block = self.c.hp.encode(&[(b":status", b"200"), (b"content-length", cl.as_bytes())]);
        if let Some(s) = self.st.get_mut(&sid) {
            s.pst = if u == 0 { Half::Done } else { Half::Open };
            s.up_left = u;
            s.up_total = u;
        }
        self.log(json!({"ev": "PeerRespond", "sid": sid, "u": u}));
        self.burst += 1;
        self.c.send(&Frame::headers(sid, block, true, u == 0));
    }

    /// send as much body as sozu's advertised windows allow (a legal peer)
    fn try_upload(&mut self) -> bool {
        // `split_hdr` = k > 0: frames go out in pairs, the first one together with the first k (< 9) bytes of the next
        // one's header, the rest after a pause - sozu has then read a whole DATA frame (a WINDOW_UPDATE is due) while
        // the next frame header is only partly received
        let mut carry: Vec<u8> = Vec::new();
        let any = self.try_upload_inner(&mut carry);
        if !carry.is_empty() { self.c.send_raw(&carry); }
        any
    }

    fn try_upload_inner(&mut self, carry: &mut Vec<u8>) -> bool {
        let mut any = false;
        let sids: Vec<u32> = self.st.keys().copied().collect();
        for sid in sids {
            loop {
                let (left, adv, pst, sst, total) = { let s = &self.st[&sid]; (s.up_left, s.adv, s.pst, s.sst, s.up_total) };
                if pst != Half::Open || sst == Half::Reset || self.dead || self.st[&sid].muted { break; }
                // backend role: a response begun early (op respond-early) is only continued by `hold`, and completed
                // once the request is complete (a response that ends first makes sozu abandon the upload, legitimately)
                if !self.sozu_is_server && sst != Half::Done { break; }
                if !self.cfg.unpaced && self.burst >= PACE_FRAMES { return any; }
                let pad = if self.cfg.pad > 0 && left > 1 { self.cfg.pad as i64 + 1 } else { 0 };
                let room = adv.min(self.adv_conn).min(SOZU_MAX_FRAME as i64) - pad;
                if left > 0 && room <= 0 { break; }
                // a paced peer cuts a body into at most ~200 frames: the loop budget of Mux::ready is per SESSION, and
                // several connections of one session sending tiny frames at once would use it up together
                let chunk = if self.cfg.unpaced { self.cfg.up_chunk as i64 } else { (self.cfg.up_chunk as i64).max(total / 200 + 1) };
                let n = left.min(room).min(chunk).max(0);
                let es = n == left;
                let wire = n + pad;
                let payload = vec![b'u'; n as usize];
                let f = if pad > 0 { Frame::data_padded(sid, &payload, self.cfg.pad, es) } else { Frame::data(sid, payload, es) };
                self.log(json!({"ev": "PeerData", "sid": sid, "n": wire, "body": n, "es": es}));
                self.burst += 1;
                {
                    let s = self.st.get_mut(&sid).unwrap();
                    s.up_left -= n;
                    s.adv -= wire;
                    if es { s.pst = Half::Done; } else { s.owe += wire; }
                }
                self.adv_conn -= wire;
                self.owe_conn += wire;
                let k = self.cfg.split_hdr.min(8);
                if k == 0 {
                    self.c.send(&f);
                } else if carry.is_empty() {
                    *carry = f.encode();
                } else {
                    let b = f.encode();
                    carry.extend_from_slice(&b[..k]);
                    self.c.send_raw(carry);
                    carry.clear();
                    std::thread::sleep(Duration::from_millis(self.cfg.split_ms));
                    self.c.send_raw(&b[k..]);
                }
                any = true;
                if es { break; }
            }
        }
        any
    }

    /// Body DATA inside sozu's advertised windows, at most `budget` bytes in frames of at most `frame` bytes, never
    /// the last byte of a body (every frame is then credited with a stream WINDOW_UPDATE and the stream stays open).
    fn upload_some(&mut self, mut budget: i64, frame: i64) -> i64 {
        let mut sent = 0;
        let sids: Vec<u32> = self.st.keys().copied().collect();
        for sid in sids {
            // one frame per stream and tick
            if budget > 0 {
                let (left, adv, pst, sst) = { let s = &self.st[&sid]; (s.up_left, s.adv, s.pst, s.sst) };
                if pst != Half::Open || sst == Half::Reset || self.dead || self.st[&sid].muted { continue; }
                let room = adv.min(self.adv_conn).min(SOZU_MAX_FRAME as i64);
                let n = (left - 1).min(room).min(frame.max(1)).min(budget);
                if n <= 0 { continue; }
                self.log(json!({"ev": "PeerData", "sid": sid, "n": n, "body": n, "es": false}));
                self.burst += 1;
                {
                    let s = self.st.get_mut(&sid).unwrap();
                    s.up_left -= n;
                    s.adv -= n;
                    s.owe += n;
                }
                self.adv_conn -= n;
                self.owe_conn += n;
                if !self.c.send(&Frame::data(sid, vec![b'u'; n as usize], false)) { return sent; }
                budget -= n;
                sent += n;
            }
        }
        sent
    }

    /// FULL-DUPLEX phase: for `ms` the endpoint does not read - once the kernel buffers are full sozu's write
    /// towards it blocks in the middle of a frame - while it keeps SENDING on the same connection: `data` body
    /// bytes every `every_ms` (at most `max` in all: they fit the socket buffers even if sozu read nothing, so
    /// the endpoint's own blocking writes cannot wedge) and the control frames listed in `events`
    /// ({"at_ms", "op": "ping" | "settings" | "wu", .., "stop_data": bool}).  Whatever sozu has to say in
    /// answer (WINDOW_UPDATE, PING ACK, SETTINGS ACK, RST_STREAM) must wait for the end of the frame it is in.
    fn hold(&mut self, op: &Value, raw_fd: i32) {
        if let Some(n) = opt_i(op, "rcvbuf") { if raw_fd >= 0 { set_rcvbuf(raw_fd, n as i32); } }
        let ms = opt_i(op, "ms").unwrap_or(500).max(1) as u64;
        let every = opt_i(op, "every_ms").unwrap_or(40).max(1) as u64;
        let data = opt_i(op, "data").unwrap_or(0);
        let frame = opt_i(op, "frame").unwrap_or(16_384);
        let mut budget = opt_i(op, "max").unwrap_or(32_768).min(65_536);
        let mut events: Vec<Value> = op.get("events").and_then(|e| e.as_array()).cloned().unwrap_or_default();
        events.sort_by_key(|e| opt_i(e, "at_ms").unwrap_or(0));
        let t0 = Instant::now();
        let mut next_tick = Duration::from_millis(opt_i(op, "first_ms").unwrap_or(every as i64).max(0) as u64);
        let mut data_on = data > 0;
        while t0.elapsed() < Duration::from_millis(ms) && !self.c.eof && self.c.io_error.is_none() {
            let now = t0.elapsed();
            while events.first().map(|e| Duration::from_millis(opt_i(e, "at_ms").unwrap_or(0).max(0) as u64) <= now).unwrap_or(false) {
                let e = events.remove(0);
                match e["op"].as_str().unwrap_or("") {
                    "ping" => { self.burst += 1; self.c.send(&Frame::ping(*b"c14-hold", false)); }
                    "settings" => self.send_settings(opt_i(&e, "initWin"), opt_i(&e, "maxFrame"), opt_i(&e, "maxStreams"), opt_i(&e, "tbl")),
                    "rst" => {
                        // the peer cancels a stream (RST_STREAM) - possibly the one whose frame sozu has half-written
                        let slot = opt_i(&e, "slot").unwrap_or(1) as usize;
                        if let Some(&sid) = self.slots.get(slot.max(1) - 1) {
                            self.log(json!({"ev": "PeerRst", "sid": sid, "code": opt_i(&e, "code").unwrap_or(8)}));
                            self.burst += 1;
                            if let Some(s) = self.st.get_mut(&sid) { s.muted = true; s.pst = Half::Done; s.sst = Half::Reset; }
                            self.c.send(&Frame::rst(sid, opt_i(&e, "code").unwrap_or(8) as u32));
                        }
                    }
                    "wu" => {
                        let slot = opt_i(&e, "slot").unwrap_or(0) as usize;
                        let sid = if slot == 0 { Some(0) } else { self.slots.get(slot - 1).copied() };
                        if let Some(sid) = sid {
                            if sid == 0 || self.st.get(&sid).map(|s| matches!(s.sst, Half::Wait | Half::Open)).unwrap_or(false) {
                                let n = opt_i(&e, "n").unwrap_or(1);
                                self.send_wu(sid, n);
                                if n == 0 && sid != 0 { if let Some(s) = self.st.get_mut(&sid) { s.muted = true; } }
                            }
                        }
                    }
                    _ => {}
                }
                if e.get("stop_data").and_then(|x| x.as_bool()).unwrap_or(false) { data_on = false; }
            }
            if data_on && now >= next_tick {
                next_tick = now + Duration::from_millis(every);
                if budget > 0 { budget -= self.upload_some(data.min(budget), frame); }
            }
            std::thread::sleep(Duration::from_millis(5));
        }
    }

    // ---- what sozu sends ------------------------------------------------------------------------

    fn flush_hdr(&mut self, complete: bool) {
        let Some((sid, es, frames, block)) = self.hdr.take() else { return };
        let mut status: i64 = -1;
        let mut cl: i64 = -1;
        let mut path = String::new();
        let mut hpack_ok = complete;
        let upd = hdr_size_update(&block);
        if complete {
            match self.c.hp.decode(&block) {
                Ok(h) => {
                    for (k, v) in h {
                        let v = String::from_utf8_lossy(&v).to_string();
                        match k.as_slice() {
                            b":status" => status = v.parse().unwrap_or(-1),
                            b"content-length" => cl = v.parse().unwrap_or(-1),
                            b":path" => path = v,
                            _ => {}
                        }
                    }
                }
                Err(e) => { hpack_ok = false; self.notes.push(format!("hpack decode error on stream {sid}: {e}")); }
            }
        }
        let new = !self.st.contains_key(&sid);
        let b = if self.sozu_is_server {
            self.st.get(&sid).map(|s| s.rem).unwrap_or(-1)
        } else if es { 0 } else { cl };
        let (k0, n0, eh0) = frames[0];
        debug_assert!(k0 == HEADERS);
        self.log(json!({"ev": "SozuHeaders", "sid": sid, "b": b, "n": n0, "eh": eh0, "es": es, "upd": upd, "status": status,
                        "hpack": hpack_ok, "new": new}));
        for (_, n, eh) in frames.iter().skip(1) {
            self.log(json!({"ev": "SozuCont", "sid": sid, "n": n, "eh": eh}));
        }
        if upd >= 0 { self.need_upd = false; }
        if new {
            let resp = path.rsplit('/').next().and_then(|p| p.strip_prefix('d')).and_then(|p| p.parse().ok()).unwrap_or(0);
            self.st.insert(sid, StreamL { win: self.eff.init_win, rem: b.max(0), sst: if es { Half::Done } else { Half::Open }, pst: Half::Idle,
                                         up_left: 0, adv: self.adv_init, owe: 0, blocked_at: None, progress: 0, resp, starved: false, up_total: 0, muted: false, check_body: true });
            self.slots.push(sid);
        } else if let Some(s) = self.st.get_mut(&sid) {
            if s.sst == Half::Wait { s.sst = if es { Half::Done } else { Half::Open }; }
            if status == 200 && self.sozu_is_server && complete { s.check_body = true; }
            if status != 200 && self.sozu_is_server { s.rem = 0; }
        }
        if status != 200 && self.sozu_is_server && complete {
            self.notes.push(format!("stream {sid}: status {status}"));
        }
    }

    fn on_frame(&mut self, f: Frame) {
        self.last_rx = Instant::now();
        if self.hdr.is_some() && f.ty != CONTINUATION {
            self.flush_hdr(false);
        }
        match f.ty {
            SETTINGS => {
                if f.flags & FLAG_ACK != 0 {
                    self.log(json!({"ev": "SozuAck"}));
                    if let Some(v) = self.pend.pop_front() {
                        let d = v.init_win - self.eff.init_win;
                        for s in self.st.values_mut() {
                            if matches!(s.sst, Half::Wait | Half::Open) { s.win += d; }
                        }
                        if v.tbl < self.eff.tbl { self.need_upd = true; }
                        self.eff = v;
                        self.c.hp.dec.set_max_allowed_table_size(v.tbl as usize);
                    }
                } else {
                    let mut w: i64 = -1;
                    for (k, v) in f.settings_pairs() {
                        if k == S_INITIAL_WINDOW_SIZE { w = v as i64; }
                    }
                    let w_eff = if w >= 0 { w } else { self.adv_init };
                    self.log(json!({"ev": "SozuSettings", "w": w_eff, "pairs": f.settings_pairs().iter().map(|(k, v)| json!([k, v])).collect::<Vec<_>>()}));
                    let d = w_eff - self.adv_init;
                    for s in self.st.values_mut() { s.adv += d; }
                    self.adv_init = w_eff;
                    self.our_set = true;
                    self.c.send(&Frame::settings_ack());
                }
            }
            PING => {
                if f.flags & FLAG_ACK == 0 {
                    let mut d = [0u8; 8];
                    d.copy_from_slice(&f.payload[..8.min(f.payload.len())]);
                    self.c.send(&Frame::ping(d, true));
                } else {
                    self.pings += 1;
                }
            }
            HEADERS => {
                let mut payload = f.payload.clone();
                if f.flags & FLAG_PADDED != 0 && !payload.is_empty() {
                    let p = payload[0] as usize;
                    payload = payload[1..payload.len().saturating_sub(p)].to_vec();
                }
                if f.flags & FLAG_PRIORITY != 0 && payload.len() >= 5 { payload = payload[5..].to_vec(); }
                self.hdr = Some((f.sid, f.end_stream(), vec![(HEADERS, f.payload.len(), f.end_headers())], payload));
                if f.end_headers() { self.flush_hdr(true); }
            }
            CONTINUATION => {
                if let Some((sid, _, frames, block)) = self.hdr.as_mut() {
                    if *sid == f.sid {
                        frames.push((CONTINUATION, f.payload.len(), f.end_headers()));
                        block.extend_from_slice(&f.payload);
                        if f.end_headers() { self.flush_hdr(true); }
                        return;
                    }
                }
                self.flush_hdr(false);
                self.log(json!({"ev": "SozuCont", "sid": f.sid, "n": f.payload.len(), "eh": f.end_headers()}));
            }
            DATA => {
                let n = f.payload.len() as i64;
                let es = f.end_stream();
                // every body in this harness is made of 'd' (mock origin) or 'u' (uploads, h2c backend answers): any other
                // byte inside a relayed DATA payload was put there by sozu (e.g. a control frame written inside the frame)
                if self.st.get(&f.sid).map(|s| s.check_body).unwrap_or(false) {
                    if let Some(at) = f.data_bytes().and_then(|b| b.iter().position(|&x| x != b'd' && x != b'u')) {
                        let b = f.data_bytes().unwrap_or(&[]);
                        self.log(json!({"ev": "SozuForeign", "sid": f.sid, "at": at, "n": n,
                                        "bytes": b[at..(at + 16).min(b.len())].iter().map(|x| format!("{x:02x}")).collect::<String>()}));
                    }
                }
                self.log(json!({"ev": "SozuData", "sid": f.sid, "n": n, "es": es}));
                self.conn_win -= n;
                self.data_bytes += n;
                let blocked_conn = self.conn_win <= 0;
                if let Some(s) = self.st.get_mut(&f.sid) {
                    s.win -= n;
                    s.rem = (s.rem - f.data_bytes().map(|b| b.len() as i64).unwrap_or(n)).max(0);
                    if es { s.sst = Half::Done; }
                    s.progress += n;
                    if s.blocked_at.is_some() && s.progress >= 16 * 1024 { s.blocked_at = None; }
                    if s.rem > 0 && (s.win <= 0 || blocked_conn) && s.blocked_at.is_none() {
                        s.blocked_at = Some(Instant::now());
                        s.progress = 0;
                    }
                }
            }
            WINDOW_UPDATE => {
                let n = f.u32_at(0).unwrap_or(0) as i64 & 0x7fff_ffff;
                self.log(json!({"ev": "SozuWU", "sid": f.sid, "n": n}));
                if f.sid == 0 {
                    // projection: the enlargement first, the rest is credit
                    let e = if self.enl > 0 && n >= self.enl && (n == self.enl || n - self.enl >= self.thr) { self.enl } else { 0 };
                    self.enl -= e;
                    self.owe_conn = (self.owe_conn - (n - e)).max(0);
                    self.adv_conn += n;
                } else if let Some(s) = self.st.get_mut(&f.sid) {
                    s.adv += n;
                    s.owe = (s.owe - n).max(0);
                }
            }
            RST_STREAM => {
                let code = f.u32_at(0).unwrap_or(0);
                self.log(json!({"ev": "SozuRst", "sid": f.sid, "code": code}));
                if let Some(s) = self.st.get_mut(&f.sid) { s.sst = Half::Reset; }
            }
            GOAWAY => {
                let code = f.u32_at(4).unwrap_or(0);
                self.log(json!({"ev": "SozuGoaway", "last": f.u32_at(0).unwrap_or(0), "code": code}));
                if code != 0 { self.dead = true; }
            }
            _ => {
                self.log(json!({"ev": "SozuOther", "ty": f.ty, "sid": f.sid, "n": f.payload.len()}));
            }
        }
        // backend role: answer a complete request
        if self.auto_respond {
            let todo: Vec<(u32, i64)> = self.st.iter().filter(|(_, s)| s.pst == Half::Idle && s.sst == Half::Done).map(|(k, s)| (*k, s.resp)).collect();
            for (sid, u) in todo { self.respond(sid, u); }
        }
    }

    /// read at most one frame; true if one was processed
    fn pump(&mut self, t: Duration) -> bool {
        if self.garbled { std::thread::sleep(t.min(Duration::from_millis(5))); return false; }
        // A frame header that announces more than any maximum frame size this endpoint ever advertised: report it
        // now (the payload may never come: this is what a desynchronised byte stream looks like) and stop.
        if self.c.fb.buf.len() >= 9 {
            let b = &self.c.fb.buf;
            let len = ((b[0] as i64) << 16) | ((b[1] as i64) << 8) | b[2] as i64;
            if len > self.max_frame_hi {
                let (ty, sid) = (b[3], u32::from_be_bytes([b[5], b[6], b[7], b[8]]) & 0x7fff_ffff);
                if self.hdr.is_some() { self.flush_hdr(false); }
                self.log(json!({"ev": "SozuBigFrame", "ty": ty, "sid": sid, "n": len}));
                self.garbled = true;
                return false;
            }
        }
        let got = match self.c.read_frame(t) {
            Some(f) => { self.on_frame(f); true }
            None => false,
        };
        self.clock();
        got
    }

    /// The observer's clock for the window-stall reaper: a stream that the ledger has shown window-blocked
    /// for at least half of the listener's stall deadline (without the 16 KiB of progress that clears the
    /// deadline in h2.rs) may be cancelled from now on.  Half, because sozu's clock started earlier than ours.
    fn clock(&mut self) {
        let Some(t) = self.cfg.reap_after else { return };
        let conn_win = self.conn_win;
        let due: Vec<u32> = self.st.iter()
            .filter(|(_, s)| !s.starved && s.sst == Half::Open && s.rem > 0 && s.win.min(conn_win) <= 0
                    && s.blocked_at.map(|b| b.elapsed() >= t / 2).unwrap_or(false))
            .map(|(k, _)| *k).collect();
        for sid in due {
            self.st.get_mut(&sid).unwrap().starved = true;
            self.log(json!({"ev": "Starve", "sid": sid}));
        }
    }

    fn blocked(&self, s: &StreamL) -> bool { s.sst == Half::Open && s.rem > 0 && s.win.min(self.conn_win) <= 0 }

    /// projection of SozuOwes of the spec
    fn sozu_owes(&self) -> bool {
        if self.dead { return false; }
        if !self.pend.is_empty() || !self.our_set || self.hdr.is_some() { return true; }
        if self.enl > 0 || (self.thr > 0 && self.owe_conn >= self.thr) { return true; }
        self.st.values().any(|s| {
            (s.sst == Half::Wait && s.pst == Half::Done)
                || (s.sst == Half::Open && (s.rem == 0 || s.win.min(self.conn_win) > 0))
                || (s.pst == Half::Open && s.up_left > 0 && s.owe > 0)
        })
    }

    fn all_done(&self) -> bool {
        !self.st.is_empty() && self.st.values().all(|s| (s.sst == Half::Done && s.rem == 0 && s.pst == Half::Done) || s.sst == Half::Reset)
    }

    /// Let sozu run until it owes nothing (Quiet).  See the module comment for Stall / Inconclusive.
    fn sync(&mut self, overall: Instant) -> Wait { self.wait_quiet(overall, true) }

    /// Pacing: let sozu go idle.  Wait until it owes nothing, make a PING round trip (sozu has then read
    /// everything we sent and found the socket empty), record `Idle`.
    fn idle_point(&mut self, overall: Instant) -> Wait {
        for _ in 0..4 {
            match self.wait_quiet(overall, false) { Wait::Quiet => {}, w => return w }
            let before = self.pings;
            let sent = Instant::now();
            self.c.send(&Frame::ping(*b"c14-idle", false));
            while self.pings == before {
                self.pump(Duration::from_millis(20));
                if self.garbled { return Wait::Garbled; }
                if self.c.eof { return Wait::Closed; }
                if sent.elapsed() >= self.cfg.ping_deadline || Instant::now() > overall { return Wait::Inconclusive; }
            }
            if !self.sozu_owes() {
                self.log(json!({"ev": "Idle"}));
                self.burst = 0;
                return Wait::Quiet;
            }
        }
        Wait::Inconclusive
    }

    fn wait_quiet(&mut self, overall: Instant, upload: bool) -> Wait {
        // how often the sidecar has confirmed, during the present silence, that the worker has handled everything
        let mut confirmed = 0u8;
        let mut since = Instant::now();
        loop {
            if upload {
                if !self.cfg.unpaced && self.burst >= PACE_FRAMES {
                    match self.idle_point(overall) { Wait::Quiet => {}, w => return w }
                }
                if self.try_upload() { confirmed = 0; since = Instant::now(); }
            }
            if self.garbled { return Wait::Garbled; }
            if self.c.eof { return Wait::Closed; }
            if !self.sozu_owes() { return Wait::Quiet; }
            let before = self.pings;
            if self.pump(Duration::from_millis(20)) {
                if self.pings == before {
                    confirmed = 0;
                    since = Instant::now();
                }
                continue;
            }
            if Instant::now() > overall { return Wait::Inconclusive; }
            if self.cfg.abort.as_ref().map(|a| a.load(Ordering::SeqCst)).unwrap_or(false) { return Wait::Inconclusive; }
            if self.cfg.no_stall { continue; }
            // sozu owes a frame and is silent
            if since.elapsed() < (if confirmed == 0 { self.cfg.ping_after } else { self.cfg.grace }) { continue; }
            if confirmed >= 2 {
                self.log(json!({"ev": "Stall"}));
                return Wait::Stall;
            }
            // nothing is sent on the checked connection: the sidecar tells whether the worker is alive and has turned
            let beat = self.cfg.beat.clone();
            if !beat.turns(2, self.cfg.ping_deadline) { return Wait::Inconclusive; }
            confirmed += 1;
            since = Instant::now();
        }
    }
}

fn set_rcvbuf(fd: i32, n: i32) {
    unsafe {
        libc::setsockopt(fd, libc::SOL_SOCKET, libc::SO_RCVBUF, &n as *const i32 as *const libc::c_void, 4);
    }
}

// ------------------------------------------------------------------------------------------------
// schedules

fn opt_i(v: &Value, k: &str) -> Option<i64> { v.get(k).and_then(|x| x.as_i64()) }

#[derive(Clone, Copy)]
struct Grant {
    mode: u8, // 0 drip, 1 burst, 2 eager
    k: i64,
    /// 0 both, 1 the connection window is made huge up front (stream-only updates), 2 stream windows huge (connection-only)
    only: u8,
}

fn grant_of(v: &Value) -> Grant {
    let mode = match v.get("mode").and_then(|m| m.as_str()).unwrap_or("burst") { "drip" => 0, "eager" => 2, _ => 1 };
    Grant { mode, k: opt_i(v, "k").unwrap_or(65_536).max(1), only: opt_i(v, "only").unwrap_or(0) as u8 }
}

/// run the peer's schedule on one connection; returns the outcome
fn run_ops<S: Read + Write + SetTimeout>(ep: &mut Ep<S>, ops: &[Value], prefix: &str, overall: Instant, stop: Option<&AtomicBool>, raw_fd: i32) -> Wait {
    for op in ops {
        if ep.c.eof { return Wait::Closed; }
        match op["op"].as_str().unwrap_or("") {
            "settings" => ep.send_settings(opt_i(op, "initWin"), opt_i(op, "maxFrame"), opt_i(op, "maxStreams"), opt_i(op, "tbl")),
            "open" => { ep.open(prefix, opt_i(op, "down").unwrap_or(0), opt_i(op, "up").unwrap_or(0)); }
            "wu" => {
                let slot = opt_i(op, "slot").unwrap_or(0) as usize;
                let n = opt_i(op, "n").unwrap_or(1);
                let times = opt_i(op, "times").unwrap_or(1);
                if times > 1 {
                    // a burst of identical WINDOW_UPDATEs in one write
                    let sid = if slot == 0 { Some(0) } else { ep.slots.get(slot - 1).copied() };
                    if let Some(sid) = sid {
                        let mut buf = Vec::new();
                        for _ in 0..times { buf.extend_from_slice(&ep.note_wu(sid, n).encode()); }
                        ep.c.send_raw(&buf);
                    }
                }
                else if slot == 0 { ep.send_wu(0, n); }
                else if let Some(&sid) = ep.slots.get(slot - 1) {
                    // a WINDOW_UPDATE on a stream that is finished is legal but says nothing: skip it
                    if matches!(ep.st[&sid].sst, Half::Wait | Half::Open) { ep.send_wu(sid, n); }
                }
            }
            "wu-cross" => {
                // ledger-driven: lift the send window of stream `slot` (0: every stream sozu is sending on) from where it
                // stands - zero, or NEGATIVE after a SETTINGS_INITIAL_WINDOW_SIZE decrease under in-flight data - to
                // `extra` > 0 in ONE WINDOW_UPDATE; `conn`: the connection window too if it is exhausted
                let extra = opt_i(op, "extra").unwrap_or(1).clamp(1, MAXWIN);
                let slot = opt_i(op, "slot").unwrap_or(0) as usize;
                if op["conn"] == true && ep.conn_win <= 0 { let n = (extra - ep.conn_win).min(MAXWIN); ep.send_wu(0, n); }
                let sids: Vec<u32> = if slot == 0 { ep.slots.clone() } else { ep.slots.get(slot - 1).copied().into_iter().collect() };
                for sid in sids {
                    let (win, live) = { let s = &ep.st[&sid]; (s.win, matches!(s.sst, Half::Wait | Half::Open)) };
                    if live && win <= 0 { ep.send_wu(sid, (extra - win).min(MAXWIN)); }
                }
            }
            "sync" => match ep.sync(overall) { Wait::Quiet => {}, w => return w },
            "await" => {
                // wait until `bytes` DATA bytes arrived in total (or sozu can send nothing more)
                let want = opt_i(op, "bytes").unwrap_or(0);
                let streams = opt_i(op, "streams").unwrap_or(0) as usize;
                while (ep.data_bytes < want || ep.slots.len() < streams) && Instant::now() < overall && !ep.c.eof {
                    ep.try_upload();
                    if !ep.pump(Duration::from_millis(20)) && !ep.sozu_owes() && ep.slots.len() >= streams { break; }
                    if let Some(s) = stop { if s.load(Ordering::SeqCst) { break; } }
                }
            }
            "pause" => {
                // stop reading for a while (back-pressure), optionally with a small receive buffer
                if let Some(n) = opt_i(op, "rcvbuf") { if raw_fd >= 0 { set_rcvbuf(raw_fd, n as i32); } }
                std::thread::sleep(Duration::from_millis(opt_i(op, "ms").unwrap_or(50) as u64));
            }
            "ping" => { ep.burst += 1; ep.c.send(&Frame::ping(*b"c14-ping", false)); }
            "hold" => ep.hold(op, raw_fd),
            "respond-early" => {
                // backend role: answer stream `slot` as soon as its HEADERS are in, without waiting for the request body
                let slot = opt_i(op, "slot").unwrap_or(1).max(1) as usize;
                while ep.slots.len() < slot && Instant::now() < overall && !ep.c.eof {
                    ep.pump(Duration::from_millis(20));
                    if let Some(s) = stop { if s.load(Ordering::SeqCst) { break; } }
                }
                if let Some(&sid) = ep.slots.get(slot - 1) {
                    let (idle, u) = { let s = &ep.st[&sid]; (s.pst == Half::Idle && s.sst != Half::Reset, s.resp) };
                    if idle && !ep.sozu_is_server { ep.respond(sid, opt_i(op, "u").unwrap_or(u)); }
                }
            }
            "reap-wait" => {
                // grant nothing: the window-stall reaper is expected to cancel the blocked stream
                let until = Instant::now() + ep.cfg.reap_after.unwrap_or(Duration::from_secs(1)) * 8 + Duration::from_secs(10);
                let mut last_ping = Instant::now();
                while Instant::now() < until && !ep.c.eof && !ep.st.values().any(|s| s.sst == Half::Reset) {
                    ep.pump(Duration::from_millis(50));
                    // the reaper runs when sozu reads from the connection (or on its own, much longer, timeout)
                    if last_ping.elapsed() >= Duration::from_millis(400) {
                        last_ping = Instant::now();
                        ep.c.send(&Frame::ping(*b"c14-reap", false));
                    }
                }
                if !ep.st.values().any(|s| s.sst == Half::Reset) { ep.notes.push("reaper did not fire".into()); }
            }
            "finish" => {
                let g = grant_of(op);
                return finish(ep, g, overall, stop);
            }
            _ => {}
        }
    }
    finish(ep, Grant { mode: 1, k: 1 << 20, only: 0 }, overall, stop)
}

/// grant window by policy until every stream is complete (front role) / until told to stop (backend role)
fn finish<S: Read + Write + SetTimeout>(ep: &mut Ep<S>, g: Grant, overall: Instant, stop: Option<&AtomicBool>) -> Wait {
    if g.only == 1 && ep.conn_win < (1 << 30) { let n = (1 << 30) - ep.conn_win.max(0); ep.send_wu(0, n); }
    loop {
        match ep.sync(overall) {
            Wait::Quiet => {}
            w => return w,
        }
        if ep.all_done() && stop.is_none() { return Wait::Quiet; }
        if let Some(s) = stop {
            if s.load(Ordering::SeqCst) { return Wait::Quiet; }
        }
        // sozu owes nothing: whoever is blocked gets window, by policy
        let blocked: Vec<u32> = ep.st.iter().filter(|(_, s)| ep.blocked(s)).map(|(k, _)| *k).collect();
        if blocked.is_empty() {
            // nothing to grant (backend role waiting for more streams, or waiting on our own upload)
            if !ep.try_upload() {
                ep.pump(Duration::from_millis(20));
            }
            if Instant::now() > overall { return Wait::Inconclusive; }
            continue;
        }
        let amount = |need: i64, win: i64| -> i64 {
            let n = match g.mode { 0 => g.k, 1 => g.k.max(1), _ => need.max(1) };
            // stay legal: never push a window past 2^31-1
            n.min(MAXWIN - win.max(0)).max(1)
        };
        if ep.conn_win <= 0 {
            let need: i64 = blocked.iter().map(|s| ep.st[s].rem).sum::<i64>() - ep.conn_win;
            let n = amount(need, ep.conn_win);
            ep.send_wu(0, n);
        }
        for sid in blocked {
            let (win, rem) = { let s = &ep.st[&sid]; (s.win, s.rem) };
            if win <= 0 {
                let n = if g.only == 2 { ((1i64 << 30) - win).min(MAXWIN) } else { amount(rem - win, win) };
                ep.send_wu(sid, n);
            }
        }
    }
}

// ------------------------------------------------------------------------------------------------
// plain HTTP/1.1 ends

/// mock origin: `GET|POST <prefix>/d<N>`: reads the request body (Content-Length or chunked), answers N bytes
fn h1_origin(listener: TcpListener, stop: Arc<AtomicBool>) {
    listener.set_nonblocking(true).ok();
    while !stop.load(Ordering::SeqCst) {
        match listener.accept() {
            Ok((s, _)) => {
                s.set_nonblocking(false).ok();
                std::thread::spawn(move || h1_origin_conn(s));
            }
            Err(_) => std::thread::sleep(Duration::from_millis(5)),
        }
    }
}

fn read_head(s: &mut TcpStream, buf: &mut Vec<u8>) -> Option<usize> {
    let mut tmp = [0u8; 65536];
    loop {
        if let Some(p) = buf.windows(4).position(|w| w == b"\r\n\r\n") { return Some(p + 4); }
        match s.read(&mut tmp) {
            Ok(0) | Err(_) => return None,
            Ok(n) => buf.extend_from_slice(&tmp[..n]),
        }
    }
}

fn h1_origin_conn(mut s: TcpStream) {
    s.set_read_timeout(Some(Duration::from_secs(120))).ok();
    s.set_write_timeout(Some(Duration::from_secs(120))).ok();
    let mut buf: Vec<u8> = Vec::new();
    let mut tmp = vec![0u8; 1 << 16];
    loop {
        let Some(hl) = read_head(&mut s, &mut buf) else { return };
        let head = String::from_utf8_lossy(&buf[..hl]).to_string();
        buf.drain(..hl);
        let path = head.split_whitespace().nth(1).unwrap_or("/").to_string();
        let mut cl: Option<usize> = None;
        let mut chunked = false;
        for l in head.lines().skip(1) {
            let ll = l.to_ascii_lowercase();
            if let Some(v) = ll.strip_prefix("content-length:") { cl = v.trim().parse().ok(); }
            if ll.starts_with("transfer-encoding:") && ll.contains("chunked") { chunked = true; }
        }
        if chunked {
            // read until the last-chunk
            loop {
                if buf.windows(5).any(|w| w == b"0\r\n\r\n") { buf.clear(); break; }
                match s.read(&mut tmp) { Ok(0) | Err(_) => return, Ok(n) => buf.extend_from_slice(&tmp[..n]) }
                if buf.len() > 64 { let keep = buf.len() - 8; buf.drain(..keep); }
            }
        } else if let Some(mut left) = cl {
            let had = buf.len().min(left);
            buf.drain(..had);
            left -= had;
            while left > 0 {
                match s.read(&mut tmp) { Ok(0) | Err(_) => return, Ok(n) => left -= n.min(left) }
            }
        }
        let n: usize = path.rsplit('/').next().and_then(|p| p.strip_prefix('d')).and_then(|p| p.parse().ok()).unwrap_or(0);
        let mut out = format!("HTTP/1.1 200 OK\r\nContent-Length: {n}\r\n\r\n").into_bytes();
        out.extend(std::iter::repeat_n(b'd', n));
        if s.write_all(&out).is_err() { return; }
    }
}

/// HTTP/1.1 client: POST <path> with `up` bytes, reads the whole answer; returns (status, body length)
fn h1_request(addr: SocketAddr, path: &str, up: usize, deadline: Duration) -> Result<(u16, usize), String> {
    let mut s = TcpStream::connect_timeout(&addr, Duration::from_secs(5)).map_err(|e| e.to_string())?;
    s.set_read_timeout(Some(deadline)).ok();
    s.set_write_timeout(Some(deadline)).ok();
    let mut req = format!("POST {path} HTTP/1.1\r\nHost: localhost\r\nContent-Length: {up}\r\n\r\n").into_bytes();
    req.extend(std::iter::repeat_n(b'u', up));
    s.write_all(&req).map_err(|e| format!("write: {e}"))?;
    let mut buf = Vec::new();
    let hl = read_head(&mut s, &mut buf).ok_or("no response head")?;
    let head = String::from_utf8_lossy(&buf[..hl]).to_string();
    let status: u16 = head.split_whitespace().nth(1).and_then(|x| x.parse().ok()).unwrap_or(0);
    let mut cl = 0usize;
    for l in head.lines().skip(1) {
        if let Some(v) = l.to_ascii_lowercase().strip_prefix("content-length:") { cl = v.trim().parse().unwrap_or(0); }
    }
    let mut got = buf.len() - hl;
    let mut tmp = vec![0u8; 1 << 16];
    while got < cl {
        match s.read(&mut tmp) { Ok(0) => break, Ok(n) => got += n, Err(e) => return Err(format!("read: {e}")) }
    }
    Ok((status, got))
}

// ------------------------------------------------------------------------------------------------
// scenarios

struct Shared {
    tls: SocketAddr,
    tls_reap: SocketAddr,
    h1: SocketAddr,
    recv_conn: i64,
    reap_s: u64,
    out_server: Mutex<std::fs::File>,
    out_client: Mutex<std::fs::File>,
    out_inconclusive: Mutex<std::fs::File>,
    results: Mutex<Vec<Value>>,
    quick: bool,
    beat: Arc<Beat>,
}

fn ep_cfg(sc: &Value, sh: &Shared, who: &str) -> EpCfg {
    let p = &sc[who];
    EpCfg {
        ping_after: Duration::from_millis(if sh.quick { 1500 } else { 3000 }),
        ping_deadline: Duration::from_secs(if sh.quick { 20 } else { 40 }),
        grace: Duration::from_millis(if sh.quick { 2500 } else { 5000 }),
        up_chunk: opt_i(p, "up_chunk").unwrap_or(16_384).clamp(1, 16_384) as usize,
        pad: opt_i(p, "pad").unwrap_or(0).clamp(0, 255) as u8,
        reap_after: if sc["listener"] == "reap" { Some(Duration::from_secs(sh.reap_s)) } else { None },
        unpaced: p.get("unpaced").and_then(|x| x.as_bool()).unwrap_or(false),
        no_stall: who == "driver",
        abort: None,
        split_hdr: opt_i(p, "split_hdr").unwrap_or(0).clamp(0, 8) as usize,
        split_ms: opt_i(p, "split_ms").unwrap_or(20).clamp(0, 1000) as u64,
        beat: sh.beat.clone(),
    }
}

fn finish_run<S: Read + Write + SetTimeout>(ep: &mut Ep<S>, w: Wait, sh: &Shared, sc: &Value, who: &str, requests_ok: bool) {
    finish_run_strict(ep, w, sh, sc, who, requests_ok, false)
}

/// `strict`: a backend connection that sozu closes with unfinished streams is RECORDED (SozuEof, judged by
/// P_C14_NeverDropped / T_Conforms) even though the request side failed too.  Only for scenarios whose clients
/// never give up by themselves (full-duplex schedules), and only when the caller saw neither the scenario's
/// deadline pass nor another endpoint of the scenario abort: then nothing but sozu can have ended the connection.
fn finish_run_strict<S: Read + Write + SetTimeout>(ep: &mut Ep<S>, w: Wait, sh: &Shared, sc: &Value, who: &str, requests_ok: bool, strict: bool) {
    let complete = ep.all_done() || ep.dead;
    // the cooperative client of a backend scenario whose checked backend endpoint has given a verdict of its own (stall,
    // garbled, inconclusive): what the client saw next (a 502 / 504 for the request, a reset) is a consequence, not a finding
    let knock_on = who == "driver" && ep.cfg.abort.as_ref().map(|a| a.load(Ordering::SeqCst)).unwrap_or(false);
    let w = if knock_on { Wait::Inconclusive } else { w };
    let outcome = match w {
        Wait::Quiet => {
            if complete || (!ep.sozu_is_server && requests_ok) { ep.log(json!({"ev": "Done"})); "done" } else { "inconclusive" }
        }
        Wait::Stall => "stall",
        Wait::Garbled => "garbled",
        // sozu closed the connection: expected for a backend connection once its frontend session is gone
        Wait::Closed => {
            if complete || ep.sozu_is_server || requests_ok || strict { ep.log(json!({"ev": "SozuEof"})); "closed" } else { "inconclusive" }
        }
        Wait::Inconclusive => "inconclusive",
    };
    let res = json!({"kind": "run", "scen": sc["id"], "label": sc["label"], "who": who, "run": ep.run, "outcome": outcome,
                     "events": ep.ev.len(), "streams": ep.st.len(), "data_bytes": ep.data_bytes, "notes": ep.notes,
                     "role": if ep.sozu_is_server { "server" } else { "client" }});
    if outcome != "inconclusive" {
        let f = if ep.sozu_is_server { &sh.out_server } else { &sh.out_client };
        let mut g = f.lock().unwrap();
        for l in &ep.ev { let _ = writeln!(g, "{}", l); }
    } else {
        // kept aside for diagnosis, never validated
        let mut g = sh.out_inconclusive.lock().unwrap();
        for l in &ep.ev { let _ = writeln!(g, "{}", l); }
        let _ = writeln!(g, "{}", json!({"ev": "inconclusive", "run": ep.run, "wait": format!("{:?}", w), "eof": ep.c.eof, "io_error": ep.c.io_error,
                                          "owes": ep.sozu_owes(), "conn_win": ep.conn_win, "pend": ep.pend.len(), "buffered": ep.c.fb.buf.len(),
                                          "head": ep.c.fb.buf.iter().take(24).map(|b| format!("{b:02x}")).collect::<String>()}));
    }
    sh.results.lock().unwrap().push(res);
}

/// the checked peer is the H2 client of a TLS frontend; the origin is the HTTP/1.1 mock
fn scenario_front(sc: &Value, sh: &Shared) {
    let addr = if sc["listener"] == "reap" { sh.tls_reap } else { sh.tls };
    let overall = Instant::now() + Duration::from_millis(opt_i(sc, "deadline_ms").unwrap_or(60_000) as u64);
    let conn = match h2_tls_client(addr, "localhost", Duration::from_secs(20)) {
        Ok(c) => c,
        Err(e) => { sh.results.lock().unwrap().push(json!({"kind": "run", "scen": sc["id"], "outcome": "inconclusive", "notes": [format!("tls connect: {e}")]})); return; }
    };
    let fd = conn.s.sock.as_raw_fd();
    let mut ep = Ep::new(conn.s, true, sh.recv_conn, ep_cfg(sc, sh, "peer"), sc["label"].as_str().unwrap_or(""), sc["id"].as_u64().unwrap_or(0));
    ep.c.send_raw(PREFACE);
    let ops = sc["peer"]["ops"].as_array().cloned().unwrap_or_default();
    let w = run_ops(&mut ep, &ops, "/m", overall, None, fd);
    finish_run(&mut ep, w, sh, sc, "peer", true);
}

/// the checked peer is an h2c backend; requests come from an HTTP/1.1 client or a cooperative H2 client
fn scenario_back(sc: &Value, sh: &Shared, listener: TcpListener, prefix: String) {
    let overall = Instant::now() + Duration::from_millis(opt_i(sc, "deadline_ms").unwrap_or(60_000) as u64);
    let stop = Arc::new(AtomicBool::new(false));
    let requests_ok = Arc::new(AtomicBool::new(false));
    let abort = Arc::new(AtomicBool::new(false));
    let ops = sc["peer"]["ops"].as_array().cloned().unwrap_or_default();
    let live = Arc::new(AtomicUsize::new(0));
    std::thread::scope(|scope| {
        // acceptor: one checked endpoint per connection sozu opens
        let acc = scope.spawn(|| {
            listener.set_nonblocking(true).ok();
            let mut handles = Vec::new();
            while !stop.load(Ordering::SeqCst) && Instant::now() < overall {
                match listener.accept() {
                    Ok((s, _)) => {
                        s.set_nonblocking(false).ok();
                        s.set_nodelay(true).ok();
                        s.set_write_timeout(Some(Duration::from_secs(30))).ok();
                        if let Some(n) = opt_i(&sc["peer"], "rcvbuf") { set_rcvbuf(s.as_raw_fd(), n as i32); }
                        let (ops, stop, live, prefix, requests_ok, abort) = (ops.clone(), stop.clone(), live.clone(), prefix.clone(), requests_ok.clone(), abort.clone());
                        live.fetch_add(1, Ordering::SeqCst);
                        handles.push(scope.spawn(move || {
                            let fd = s.as_raw_fd();
                            let mut ep = Ep::new(s, false, sh.recv_conn, ep_cfg(sc, sh, "peer"), sc["label"].as_str().unwrap_or(""), sc["id"].as_u64().unwrap_or(0));
                            let w = if ep.c.read_client_preface(Duration::from_secs(20)) {
                                run_ops(&mut ep, &ops, &prefix, overall, Some(&stop), fd)
                            } else { Wait::Inconclusive };
                            // a connection closed under us: give the request side a moment to report its own verdict first
                            if w == Wait::Closed { std::thread::sleep(Duration::from_millis(100)); }
                            let strict = sc["strict_close"] == true && w == Wait::Closed && Instant::now() < overall && !abort.load(Ordering::SeqCst);
                            if matches!(w, Wait::Stall | Wait::Garbled | Wait::Inconclusive) { abort.store(true, Ordering::SeqCst); }
                            finish_run_strict(&mut ep, w, sh, sc, "peer", requests_ok.load(Ordering::SeqCst), strict);
                            live.fetch_sub(1, Ordering::SeqCst);
                        }));
                    }
                    Err(_) => std::thread::sleep(Duration::from_millis(5)),
                }
            }
            for h in handles { let _ = h.join(); }
        });
        // the requests
        let streams = sc["streams"].as_array().cloned().unwrap_or_default();
        let mut notes: Vec<String> = Vec::new();
        if sc["front"] == "h1" {
            let hs: Vec<_> = streams.iter().map(|st| {
                let path = format!("{}/d{}", prefix, opt_i(st, "down").unwrap_or(0));
                let up = opt_i(st, "up").unwrap_or(0) as usize;
                let h1 = sh.h1;
                let left = overall.saturating_duration_since(Instant::now());
                scope.spawn(move || h1_request(h1, &path, up, left))
            }).collect();
            for (h, st) in hs.into_iter().zip(streams.iter()) {
                match h.join().unwrap() {
                    Ok((200, n)) if n as i64 == opt_i(st, "down").unwrap_or(0) => {}
                    other => notes.push(format!("h1 client: {:?}", other)),
                }
            }
        } else {
            // cooperative H2 client: large windows, grants eagerly; its own connection is a server-role run too
            match h2_tls_client(sh.tls, "localhost", Duration::from_secs(20)) {
                Ok(conn) => {
                    let fd = conn.s.sock.as_raw_fd();
                    let mut dcfg = ep_cfg(sc, sh, "driver");
                    dcfg.abort = Some(abort.clone());
                    let mut drv = Ep::new(conn.s, true, sh.recv_conn, dcfg, sc["label"].as_str().unwrap_or(""), sc["id"].as_u64().unwrap_or(0));
                    drv.c.send_raw(PREFACE);
                    let mut dops = vec![json!({"op": "settings", "initWin": 1 << 24}), json!({"op": "wu", "slot": 0, "n": 1 << 28})];
                    if let Some(custom) = sc["driver"]["ops"].as_array() {
                        dops.extend(custom.iter().cloned());
                    } else {
                        for st in &streams { dops.push(json!({"op": "open", "down": st["down"], "up": st["up"]})); }
                    }
                    dops.push(json!({"op": "finish", "mode": "eager"}));
                    let w = run_ops(&mut drv, &dops, &prefix, overall, None, fd);
                    if w != Wait::Quiet { notes.push(format!("driver: {:?}", w)); }
                    // the client gives up by itself (overloaded machine, its own deadline): what the backend endpoints see next says nothing
                    if matches!(w, Wait::Inconclusive | Wait::Stall) { abort.store(true, Ordering::SeqCst); }
                    finish_run(&mut drv, w, sh, sc, "driver", true);
                }
                Err(e) => notes.push(format!("driver tls: {e}")),
            }
        }
        // give the backend endpoints a moment to see the tail (END_STREAM of the last request is already in)
        std::thread::sleep(Duration::from_millis(50));
        requests_ok.store(notes.is_empty(), Ordering::SeqCst);
        stop.store(true, Ordering::SeqCst);
        let _ = acc.join();
        if !notes.is_empty() {
            sh.results.lock().unwrap().push(json!({"kind": "note", "scen": sc["id"], "label": sc["label"], "notes": notes}));
        }
    });
}

// ------------------------------------------------------------------------------------------------
// seeded random scenarios (I->S)

fn pick<T: Copy>(r: &mut StdRng, xs: &[T]) -> T { xs[r.random_range(0..xs.len())] }

fn random_scenario(r: &mut StdRng, id: u64, thorough: bool) -> Value {
    let init_wins: [i64; 9] = [0, 1, 2, 100, 16_383, 65_535, 65_536, 1 << 20, 1 << 30];
    let frames: [i64; 6] = [16_384, 16_385, 20_000, 32_768, 65_536, (1 << 24) - 1];
    let sizes: [i64; 12] = [0, 1, 2, 100, 16_383, 16_384, 16_385, 65_535, 65_536, 100_000, 300_000, 1_000_000];
    let big: [i64; 3] = [2_000_000, 3_000_000, 5_000_000];
    let back = r.random_range(0..10) < 4;
    let nstreams = if back { pick(r, &[1usize, 1, 2, 3, 4]) } else { pick(r, &[1usize, 1, 2, 2, 3, 4]) };
    let init = pick(r, &init_wins);
    let frame = pick(r, &frames);
    let mode = pick(r, &["drip", "burst", "burst", "eager"]);
    let mut body = |r: &mut StdRng| -> i64 {
        let b = if r.random_range(0..12) == 0 && (thorough || r.random_range(0..3) == 0) { pick(r, &big) } else { pick(r, &sizes) };
        if mode == "drip" { b.min(pick(r, &[40, 300, 2_000])) } else { b }
    };
    let k = match mode { "drip" => pick(r, &[1i64, 1, 2, 7, 100]), "burst" => pick(r, &[16_384i64, 65_535, 100_000, 1 << 20, 1 << 30]), _ => 0 };
    let only = pick(r, &[0i64, 0, 0, 1, 2]);
    let mut ops: Vec<Value> = Vec::new();
    let mut first = json!({"op": "settings", "initWin": init, "maxFrame": frame});
    let max_streams = if back { pick(r, &[1i64, 1, 2, 3, 100]) } else { 100 };
    first["maxStreams"] = json!(max_streams);
    if r.random_range(0..3) == 0 { first["tbl"] = json!(pick(r, &[0i64, 64, 4096, 65_536])); }
    ops.push(first);
    let streams: Vec<Value> = (0..nstreams).map(|_| {
        let up = if r.random_range(0..3) == 0 { body(r) } else { 0 };
        json!({"down": body(r), "up": up})
    }).collect();
    let total: i64 = streams.iter().map(|s| if back { s["up"].as_i64().unwrap() } else { s["down"].as_i64().unwrap() }).sum();
    if !back {
        ops.push(json!({"op": "sync"}));
        for s in &streams { ops.push(json!({"op": "open", "down": s["down"], "up": s["up"]})); }
    }
    // a mid-body SETTINGS change: shrink below what is in flight, or grow; sometimes the frame size or the table too
    if r.random_range(0..2) == 0 {
        if total > 0 { ops.push(json!({"op": "await", "bytes": r.random_range(0..=total.min(200_000)), "streams": 1})); }
        let mut ch = json!({"op": "settings", "initWin": pick(r, &init_wins)});
        if r.random_range(0..3) == 0 { ch["maxFrame"] = json!(pick(r, &frames)); }
        if r.random_range(0..4) == 0 { ch["tbl"] = json!(pick(r, &[0i64, 100, 4096])); }
        if back && r.random_range(0..3) == 0 { ch["maxStreams"] = json!(pick(r, &[1i64, 2, 100])); }
        ops.push(ch);
        if r.random_range(0..2) == 0 { ops.push(json!({"op": "sync"})); }
    }
    // a walk of further SETTINGS_INITIAL_WINDOW_SIZE changes under in-flight data, each followed (or not) by a
    // WINDOW_UPDATE that lifts the - possibly negative - window above zero in one step
    if r.random_range(0..3) == 0 {
        if total > 0 { ops.push(json!({"op": "await", "bytes": r.random_range(0..=total.min(100_000)), "streams": 1})); }
        for _ in 0..r.random_range(1..=3) {
            if r.random_range(0..3) > 0 { ops.push(json!({"op": "sync"})); }
            ops.push(json!({"op": "settings", "initWin": pick(r, &[0i64, 0, 1, 100, 5_000, 16_383, 65_535])}));
            if r.random_range(0..3) > 0 { ops.push(json!({"op": "sync"})); }
            if r.random_range(0..4) > 0 {
                ops.push(json!({"op": "wu-cross", "slot": r.random_range(0..=nstreams), "extra": pick(r, &[1i64, 1, 100, 16_384, 1 << 20]),
                                "conn": r.random_range(0..2) == 0}));
            }
        }
        if r.random_range(0..2) == 0 { ops.push(json!({"op": "sync"})); }
    }
    if r.random_range(0..4) == 0 {
        ops.push(json!({"op": "pause", "ms": pick(r, &[30i64, 100, 300]), "rcvbuf": 131_072}));
        if r.random_range(0..2) == 0 { ops.push(json!({"op": "ping"})); }
        if r.random_range(0..2) == 0 { ops.push(json!({"op": "settings", "initWin": pick(r, &init_wins), "maxFrame": pick(r, &frames)})); }
    }
    ops.push(json!({"op": "finish", "mode": mode, "k": k, "only": only}));
    let front = if back && nstreams == 1 && r.random_range(0..2) == 0 { "h1" } else { "h2" };
    json!({"id": id, "kind": if back { "back" } else { "front" }, "front": front, "listener": "tls",
           "label": format!("rand:{}:{}:w{}:f{}:{}{}:n{}", if back { "back" } else { "front" }, front, init, frame, mode, k, nstreams),
           "streams": streams,
           "peer": {"ops": ops, "up_chunk": pick(r, &[1i64, 100, 16_384, 16_384]), "pad": if r.random_range(0..5) == 0 { pick(r, &[1i64, 200]) } else { 0 }},
           "driver": {"up_chunk": pick(r, &[1000i64, 16_384])},
           "deadline_ms": if thorough { 180_000 } else { 90_000 }})
}

/// fixed boundary scenarios named in the property
fn fixed_scenarios(mut id: u64, thorough: bool) -> Vec<Value> {
    let mut v = Vec::new();
    let mut add = |label: &str, kind: &str, front: &str, listener: &str, streams: Value, ops: Value, v: &mut Vec<Value>| {
        id += 1;
        v.push(json!({"id": id, "kind": kind, "front": front, "listener": listener, "label": label, "streams": streams,
                      "peer": {"ops": ops, "pad": 0, "rcvbuf": if label.contains("slow-reader") { json!(131_072) } else { Value::Null },
                               "unpaced": label.contains("unpaced"), "up_chunk": if label.contains("tiny-upload") { 1 } else { 16_384 }},
                      "driver": {"up_chunk": 16_384}, "deadline_ms": 120_000}));
    };
    // download larger than every default window, generous client: sozu must keep going well past 65 535
    add("fixed:front:download-3MB", "front", "h2", "tls", json!([{"down": 3_000_000, "up": 0}]),
        json!([{"op": "settings", "initWin": 65_535}, {"op": "sync"}, {"op": "open", "down": 3_000_000, "up": 0}, {"op": "finish", "mode": "eager"}]), &mut v);
    // upload larger than sozu's advertised windows: WINDOW_UPDATEs must keep coming (no stall at 65 535 / 1 MiB)
    add("fixed:front:upload-3MB", "front", "h2", "tls", json!([{"down": 10, "up": 3_000_000}]),
        json!([{"op": "settings"}, {"op": "sync"}, {"op": "open", "down": 10, "up": 3_000_000}, {"op": "finish", "mode": "eager"}]), &mut v);
    // initial window 0: nothing but HEADERS until the peer grants; then drip of 1
    add("fixed:front:win0-drip1", "front", "h2", "tls", json!([{"down": 50, "up": 0}]),
        json!([{"op": "settings", "initWin": 0}, {"op": "sync"}, {"op": "open", "down": 50, "up": 0}, {"op": "sync"}, {"op": "finish", "mode": "drip", "k": 1}]), &mut v);
    // shrink below in-flight: window goes negative, sozu must wait until it is positive again
    add("fixed:front:shrink-negative", "front", "h2", "tls", json!([{"down": 200_000, "up": 0}]),
        json!([{"op": "settings", "initWin": 65_535}, {"op": "sync"}, {"op": "open", "down": 200_000, "up": 0}, {"op": "sync"},
               {"op": "settings", "initWin": 0}, {"op": "sync"}, {"op": "wu", "slot": 0, "n": 1_000_000}, {"op": "sync"},
               {"op": "wu", "slot": 1, "n": 65_535}, {"op": "sync"}, {"op": "wu", "slot": 1, "n": 1}, {"op": "sync"},
               {"op": "settings", "initWin": 1 << 20}, {"op": "finish", "mode": "burst", "k": 1 << 20}]), &mut v);
    // SETTINGS_INITIAL_WINDOW_SIZE changed again and again UNDER IN-FLIGHT DATA (RFC 9113 6.9.2), both roles: decrease
    // below the bytes already sent (negative window), one WINDOW_UPDATE that crosses zero (-10 000 -> +5 000), decrease
    // to 0, update to exactly +1, increase from 0, three changes in a row, crossing again; every step must be followed
    // by exactly the bytes the new window allows (no overdraft, no stall)
    add("fixed:front:resettings-cross-zero", "front", "h2", "tls", json!([{"down": 100_000, "up": 0}]),
        json!([{"op": "settings", "initWin": 20_000}, {"op": "wu", "slot": 0, "n": 1_000_000}, {"op": "sync"}, {"op": "open", "down": 100_000, "up": 0},
               {"op": "sync"},
               {"op": "settings", "initWin": 10_000}, {"op": "sync"}, {"op": "wu", "slot": 1, "n": 15_000}, {"op": "sync"},
               {"op": "settings", "initWin": 0}, {"op": "sync"}, {"op": "wu-cross", "slot": 1, "extra": 1}, {"op": "sync"},
               {"op": "settings", "initWin": 30_000}, {"op": "sync"},
               {"op": "settings", "initWin": 5_000}, {"op": "settings", "initWin": 50_000}, {"op": "settings", "initWin": 1_000}, {"op": "sync"},
               {"op": "wu-cross", "slot": 1, "extra": 16_384}, {"op": "sync"}, {"op": "finish", "mode": "eager"}]), &mut v);
    add("fixed:front:resettings-2streams", "front", "h2", "tls", json!([{"down": 90_000, "up": 0}, {"down": 70_000, "up": 0}]),
        json!([{"op": "settings", "initWin": 16_384}, {"op": "wu", "slot": 0, "n": 1_000_000}, {"op": "sync"}, {"op": "open", "down": 90_000, "up": 0},
               {"op": "open", "down": 70_000, "up": 0}, {"op": "sync"}, {"op": "settings", "initWin": 16_000}, {"op": "sync"},
               {"op": "wu-cross", "slot": 2, "extra": 100}, {"op": "sync"}, {"op": "wu-cross", "slot": 1, "extra": 20_000}, {"op": "sync"},
               {"op": "settings", "initWin": 1}, {"op": "sync"}, {"op": "wu-cross", "slot": 0, "extra": 16_385}, {"op": "sync"},
               {"op": "settings", "initWin": 65_535}, {"op": "finish", "mode": "burst", "k": 30_000}]), &mut v);
    add("fixed:back:resettings-cross-zero", "back", "h1", "h1", json!([{"down": 5, "up": 100_000}]),
        json!([{"op": "settings", "initWin": 20_000, "maxStreams": 100}, {"op": "wu", "slot": 0, "n": 1_000_000}, {"op": "await", "bytes": 20_000, "streams": 1},
               {"op": "sync"},
               {"op": "settings", "initWin": 10_000}, {"op": "sync"}, {"op": "wu", "slot": 1, "n": 15_000}, {"op": "sync"},
               {"op": "settings", "initWin": 0}, {"op": "sync"}, {"op": "wu-cross", "slot": 1, "extra": 1}, {"op": "sync"},
               {"op": "settings", "initWin": 30_000}, {"op": "sync"},
               {"op": "settings", "initWin": 5_000}, {"op": "settings", "initWin": 50_000}, {"op": "settings", "initWin": 1_000}, {"op": "sync"},
               {"op": "wu-cross", "slot": 1, "extra": 16_384}, {"op": "sync"}, {"op": "finish", "mode": "eager"}]), &mut v);
    add("fixed:back:resettings-cross-zero-h2", "back", "h2", "tls", json!([{"down": 5, "up": 100_000}]),
        json!([{"op": "settings", "initWin": 20_000, "maxStreams": 100}, {"op": "wu", "slot": 0, "n": 1_000_000}, {"op": "await", "bytes": 20_000, "streams": 1},
               {"op": "sync"},
               {"op": "settings", "initWin": 10_000}, {"op": "sync"}, {"op": "wu", "slot": 1, "n": 15_000}, {"op": "sync"},
               {"op": "settings", "initWin": 0}, {"op": "sync"}, {"op": "wu-cross", "slot": 1, "extra": 1}, {"op": "sync"},
               {"op": "settings", "initWin": 30_000}, {"op": "sync"},
               {"op": "settings", "initWin": 5_000}, {"op": "settings", "initWin": 50_000}, {"op": "settings", "initWin": 1_000}, {"op": "sync"},
               {"op": "wu-cross", "slot": 1, "extra": 16_384}, {"op": "sync"}, {"op": "finish", "mode": "eager"}]), &mut v);
    // large frames allowed, then the limit comes back down mid-body
    add("fixed:front:frame-grow-shrink", "front", "h2", "tls", json!([{"down": 1_000_000, "up": 0}]),
        json!([{"op": "settings", "initWin": 1 << 20, "maxFrame": (1 << 24) - 1}, {"op": "wu", "slot": 0, "n": 1 << 24}, {"op": "sync"},
               {"op": "open", "down": 1_000_000, "up": 0}, {"op": "await", "bytes": 300_000}, {"op": "settings", "maxFrame": 16_384},
               {"op": "finish", "mode": "burst", "k": 1 << 20}]), &mut v);
    // connection-only and stream-only starvation with 4 concurrent streams
    add("fixed:front:4streams-conn-only", "front", "h2", "tls", json!([{"down": 100_000, "up": 0}, {"down": 100_000, "up": 0}, {"down": 70_000, "up": 0}, {"down": 1, "up": 0}]),
        json!([{"op": "settings", "initWin": 1 << 30}, {"op": "sync"}, {"op": "open", "down": 100_000, "up": 0}, {"op": "open", "down": 100_000, "up": 0},
               {"op": "open", "down": 70_000, "up": 0}, {"op": "open", "down": 1, "up": 0}, {"op": "finish", "mode": "burst", "k": 30_000, "only": 2}]), &mut v);
    add("fixed:front:4streams-stream-only", "front", "h2", "tls", json!([{"down": 100_000, "up": 0}, {"down": 100_000, "up": 0}, {"down": 70_000, "up": 0}, {"down": 1, "up": 0}]),
        json!([{"op": "settings", "initWin": 1}, {"op": "sync"}, {"op": "open", "down": 100_000, "up": 0}, {"op": "open", "down": 100_000, "up": 0},
               {"op": "open", "down": 70_000, "up": 0}, {"op": "open", "down": 1, "up": 0}, {"op": "finish", "mode": "burst", "k": 20_000, "only": 1}]), &mut v);
    // HPACK: table size 0 from the start, then raised, then lowered again mid-connection
    add("fixed:front:hpack-table", "front", "h2", "tls", json!([{"down": 10, "up": 0}, {"down": 10, "up": 0}, {"down": 10, "up": 0}]),
        json!([{"op": "settings", "tbl": 0}, {"op": "sync"}, {"op": "open", "down": 10, "up": 0}, {"op": "sync"}, {"op": "settings", "tbl": 4096}, {"op": "sync"},
               {"op": "open", "down": 10, "up": 0}, {"op": "sync"}, {"op": "settings", "tbl": 100}, {"op": "sync"}, {"op": "open", "down": 10, "up": 0}, {"op": "finish", "mode": "eager"}]), &mut v);
    // illegal peers: the answer must be the error, never more data than the window
    add("fixed:front:wu-overflow-conn", "front", "h2", "tls", json!([{"down": 100_000, "up": 0}]),
        json!([{"op": "settings", "initWin": 10}, {"op": "sync"}, {"op": "open", "down": 100_000, "up": 0}, {"op": "sync"}, {"op": "wu", "slot": 0, "n": MAXWIN}, {"op": "sync"}]), &mut v);
    add("fixed:front:wu-overflow-stream", "front", "h2", "tls", json!([{"down": 100_000, "up": 0}]),
        json!([{"op": "settings", "initWin": 10}, {"op": "sync"}, {"op": "open", "down": 100_000, "up": 0}, {"op": "sync"}, {"op": "wu", "slot": 1, "n": MAXWIN}, {"op": "sync"}]), &mut v);
    // h2c backend: upload through an H1 client, window 0 then drip / bursts; limit of one stream with three requests
    add("fixed:back:h1-upload-1MB", "back", "h1", "h1", json!([{"down": 5, "up": 1_000_000}]),
        json!([{"op": "settings", "initWin": 65_535, "maxFrame": 16_384, "maxStreams": 100}, {"op": "finish", "mode": "eager"}]), &mut v);
    add("fixed:back:win0-drip", "back", "h1", "h1", json!([{"down": 5, "up": 60}]),
        json!([{"op": "settings", "initWin": 0, "maxStreams": 100}, {"op": "await", "bytes": 0, "streams": 1}, {"op": "sync"}, {"op": "finish", "mode": "drip", "k": 1}]), &mut v);
    add("fixed:back:maxstreams1x3", "back", "h2", "tls", json!([{"down": 70_000, "up": 70_000}, {"down": 70_000, "up": 70_000}, {"down": 70_000, "up": 70_000}]),
        json!([{"op": "settings", "initWin": 1000, "maxStreams": 1}, {"op": "finish", "mode": "burst", "k": 10_000}]), &mut v);
    add("fixed:back:download-3MB", "back", "h1", "h1", json!([{"down": 3_000_000, "up": 0}]),
        json!([{"op": "settings", "maxStreams": 100}, {"op": "finish", "mode": "eager"}]), &mut v);
    // slow readers: the peer stops reading while windows are wide open, so sozu's writes block half-way through a
    // frame; control traffic (PING, SETTINGS that sozu must acknowledge) arrives meanwhile.  Whatever sozu then
    // writes must still be a well-formed frame sequence inside the limits.
    add("fixed:front:slow-reader", "front", "h2", "tls", json!([{"down": 6_000_000, "up": 0}, {"down": 2_000_000, "up": 0}]),
        json!([{"op": "settings", "initWin": 1 << 30, "maxFrame": 65_536}, {"op": "wu", "slot": 0, "n": 1 << 30}, {"op": "sync"},
               {"op": "open", "down": 6_000_000, "up": 0}, {"op": "open", "down": 2_000_000, "up": 0}, {"op": "await", "bytes": 100_000},
               {"op": "pause", "ms": 400, "rcvbuf": 131_072}, {"op": "ping"}, {"op": "settings", "maxFrame": 16_384}, {"op": "pause", "ms": 300},
               {"op": "ping"}, {"op": "settings", "initWin": 1 << 20}, {"op": "pause", "ms": 200}, {"op": "finish", "mode": "eager"}]), &mut v);
    add("fixed:back:slow-reader", "back", "h1", "h1", json!([{"down": 5, "up": 6_000_000}]),
        json!([{"op": "settings", "initWin": 1 << 30, "maxFrame": 65_536, "maxStreams": 100}, {"op": "wu", "slot": 0, "n": 1 << 30},
               {"op": "await", "bytes": 100_000, "streams": 1}, {"op": "pause", "ms": 400}, {"op": "ping"}, {"op": "settings", "maxFrame": 16_384},
               {"op": "pause", "ms": 300}, {"op": "ping"}, {"op": "settings", "initWin": 1 << 20}, {"op": "pause", "ms": 200},
               {"op": "finish", "mode": "eager"}]), &mut v);
    // a warm backend connection (its limit of two streams is known) and four more concurrent requests of the session
    v.push(json!({"id": 19_999, "kind": "back", "front": "h2", "listener": "tls", "label": "fixed:back:maxstreams2-warm",
                  "streams": [{"down": 10, "up": 10}, {"down": 10, "up": 50_000}, {"down": 10, "up": 50_000}, {"down": 10, "up": 50_000}, {"down": 10, "up": 50_000}],
                  "peer": {"ops": [{"op": "settings", "initWin": 1000, "maxStreams": 2}, {"op": "finish", "mode": "burst", "k": 5_000}], "pad": 0, "up_chunk": 16_384},
                  "driver": {"up_chunk": 16_384, "ops": [{"op": "open", "down": 10, "up": 10}, {"op": "sync"},
                                                         {"op": "open", "down": 10, "up": 50_000}, {"op": "open", "down": 10, "up": 50_000},
                                                         {"op": "open", "down": 10, "up": 50_000}, {"op": "open", "down": 10, "up": 50_000}]},
                  "deadline_ms": 120_000}));
    // open finding LoopBudget: thousands of small frames back to back (legal) use up Mux::ready's loop budget
    add("fixed:front:unpaced-wu-burst", "front", "h2", "tls", json!([{"down": 7_000, "up": 0}]),
        json!([{"op": "settings", "initWin": 0}, {"op": "sync"}, {"op": "open", "down": 7_000, "up": 0}, {"op": "sync"},
               {"op": "wu", "slot": 1, "n": 1, "times": 7_000}, {"op": "finish", "mode": "burst", "k": 1 << 20}]), &mut v);
    add("fixed:front:unpaced-tiny-upload", "front", "h2", "tls", json!([{"down": 10, "up": 30_000}]),
        json!([{"op": "settings"}, {"op": "sync"}, {"op": "open", "down": 10, "up": 30_000}, {"op": "finish", "mode": "eager"}]), &mut v);
    // the window-stall reaper (listener with a 1 s stream idle timeout): one stream starved, the other served
    add("fixed:front:reaper", "front", "h2", "reap", json!([{"down": 200_000, "up": 0}]),
        json!([{"op": "settings", "initWin": 1000}, {"op": "sync"}, {"op": "open", "down": 200_000, "up": 0}, {"op": "sync"}, {"op": "reap-wait"}]), &mut v);
    // a write that ends INSIDE a frame header: rustls absorbs at most 64 KiB of plaintext per write (its default buffer limit).
    // The whole body waits in sozu behind a stream window of 0; one WINDOW_UPDATE releases it in one pass of the writer:
    // 4 DATA frames + the empty END_STREAM frame = body + 45 bytes. With a body of 65 492 ... 65 499 bytes the 65 536th byte
    // is one of the first 8 of the last 9-byte frame header, which is then finished by a write shorter than the header
    // (found by tlc:resettings:server schedules: worker panic in kawa's Store::consume, `amount - data.len() + index`)
    for (tag, body) in [("a", 65_494i64), ("b", 65_499), ("c", 65_492)] {
        add(&format!("fixed:front:write-ends-in-frame-header-{tag}"), "front", "h2", "tls", json!([{"down": body, "up": 0}]),
            json!([{"op": "settings", "initWin": 0}, {"op": "sync"}, {"op": "open", "down": body, "up": 0}, {"op": "sync"}, {"op": "pause", "ms": 300},
                   {"op": "wu", "slot": 1, "n": 65_535}, {"op": "finish", "mode": "eager"}]), &mut v);
    }
    if thorough {
        add("fixed:front:download-20MB", "front", "h2", "tls", json!([{"down": 20_000_000, "up": 0}]),
            json!([{"op": "settings", "initWin": 65_535, "maxFrame": 65_536}, {"op": "sync"}, {"op": "open", "down": 20_000_000, "up": 0}, {"op": "finish", "mode": "burst", "k": 1 << 20}]), &mut v);
    }
    v
}

/// FULL-DUPLEX schedules: sozu's write towards the checked endpoint is blocked in the middle of a DATA frame (the
/// endpoint stops reading, bodies far larger than the socket buffers, windows wide open) while the endpoint keeps
/// sending DATA - and PING / SETTINGS / an illegal WINDOW_UPDATE - on the same connection, so that sozu's read
/// path queues WINDOW_UPDATE / PING ACK / SETTINGS ACK / RST_STREAM behind the half-written frame.  sozu's output
/// must stay a sequence of whole frames (P_C14_WholeFrames; spec/H2Wire.tla says why).
///   front: the endpoint is an H2 client: stream 1 downloads `big` bytes (not read during the hold), stream 2 uploads
///   back : the endpoint is an h2c backend: it answers stream 1 early and stops reading the `big` upload
fn duplex_scenario(id: u64, label: &str, back: bool, front: &str, big: i64, small: i64, max_frame: i64, rcvbuf: i64, hold: Value, await_bytes: i64) -> Value {
    duplex_scenario_split(id, label, back, front, big, small, max_frame, rcvbuf, hold, await_bytes, 0)
}

/// `split_hdr` > 0: what the endpoint uploads after the hold goes out with frame headers split in two writes
#[allow(clippy::too_many_arguments)]
fn duplex_scenario_split(id: u64, label: &str, back: bool, front: &str, big: i64, small: i64, max_frame: i64, rcvbuf: i64, hold: Value, await_bytes: i64, split_hdr: i64) -> Value {
    let mut ops: Vec<Value> = vec![json!({"op": "settings", "initWin": 1 << 30, "maxFrame": max_frame, "maxStreams": 100}), json!({"op": "wu", "slot": 0, "n": 1 << 30})];
    let streams;
    if back {
        streams = json!([{"down": small, "up": big}]);
        ops.push(json!({"op": "respond-early", "slot": 1}));
        ops.push(json!({"op": "await", "bytes": await_bytes, "streams": 1}));
    } else {
        streams = json!([{"down": big, "up": 0}, {"down": 10, "up": small}]);
        ops.push(json!({"op": "sync"}));
        ops.push(json!({"op": "open", "down": big, "up": 0}));
        ops.push(json!({"op": "await", "bytes": await_bytes}));
        ops.push(json!({"op": "open", "down": 10, "up": small}));
    }
    let mut h = hold;
    h["op"] = json!("hold");
    h["rcvbuf"] = json!(rcvbuf);
    ops.push(h);
    ops.push(json!({"op": "finish", "mode": "eager"}));
    json!({"id": id, "kind": if back { "back" } else { "front" }, "front": front, "listener": if back && front == "h1" { "h1" } else { "tls" }, "label": label, "streams": streams,
           "strict_close": true,
           "peer": {"ops": ops, "pad": 0, "rcvbuf": rcvbuf, "up_chunk": 16_384, "split_hdr": split_hdr, "split_ms": 15}, "driver": {"up_chunk": 16_384}, "deadline_ms": 120_000})
}

fn duplex_scenarios(mut id: u64, r: &mut StdRng, nrandom: usize) -> Vec<Value> {
    let mut v = Vec::new();
    let mut add_split = |label: &str, back: bool, front: &str, small: i64, hold: Value, split: i64, v: &mut Vec<Value>| {
        id += 1;
        v.push(duplex_scenario_split(id, label, back, front, 6_000_000, small, 16_384, 131_072, hold, 100_000, split));
    };
    // DATA from the endpoint while sozu is blocked: WINDOW_UPDATEs become due inside the half-written frame
    add_split("fixed:front:duplex-data", false, "h2", 48_000, json!({"ms": 600, "every_ms": 40, "data": 3_000, "max": 40_000}), 0, &mut v);
    add_split("fixed:back:duplex-data-h1", true, "h1", 48_000, json!({"ms": 600, "every_ms": 40, "data": 3_000, "max": 40_000}), 0, &mut v);
    add_split("fixed:back:duplex-data-h2", true, "h2", 48_000, json!({"ms": 600, "every_ms": 40, "data": 2_000, "max": 30_000}), 0, &mut v);
    // ... then PING and SETTINGS (their answers wait in the zero buffer, reads stop until it is flushed)
    add_split("fixed:front:duplex-data-ping-settings", false, "h2", 48_000, json!({"ms": 700, "every_ms": 30, "data": 2_000, "max": 30_000,
        "events": [{"at_ms": 450, "op": "ping"}, {"at_ms": 520, "op": "settings", "maxFrame": 32_768}]}), 0, &mut v);
    add_split("fixed:back:duplex-data-ping-settings", true, "h1", 48_000, json!({"ms": 700, "every_ms": 30, "data": 2_000, "max": 30_000,
        "events": [{"at_ms": 450, "op": "ping"}, {"at_ms": 520, "op": "settings", "initWin": 1 << 20}]}), 0, &mut v);
    // ... PING first: the deferred answer parks the reads, the DATA behind it is read after the frame boundary
    add_split("fixed:front:duplex-ping-data", false, "h2", 48_000, json!({"ms": 600, "every_ms": 40, "first_ms": 380, "data": 3_000, "max": 20_000,
        "events": [{"at_ms": 350, "op": "ping"}]}), 0, &mut v);
    // ... an answer deferred during the hold, and afterwards frame headers that arrive in two pieces: between the pieces
    // the zero buffer holds RECEIVED bytes - nothing may flush it (known finding zero-buffer-echo, C15)
    add_split("fixed:front:duplex-ping-then-split-headers", false, "h2", 200_000,
        json!({"ms": 600, "every_ms": 40, "data": 3_000, "max": 20_000, "events": [{"at_ms": 420, "op": "ping"}]}), 4, &mut v);
    add_split("fixed:back:duplex-ping-then-split-headers", true, "h1", 200_000,
        json!({"ms": 600, "every_ms": 40, "data": 3_000, "max": 20_000, "events": [{"at_ms": 420, "op": "ping"}]}), 5, &mut v);
    // ... an illegal WINDOW_UPDATE (increment 0) on the uploading stream: sozu owes RST_STREAM, on a frame boundary
    add_split("fixed:front:duplex-data-rst", false, "h2", 48_000, json!({"ms": 650, "every_ms": 40, "data": 3_000, "max": 24_000,
        "events": [{"at_ms": 420, "op": "wu", "slot": 2, "n": 0, "stop_data": true}]}), 0, &mut v);
    // open finding reset-drops-frame-tail (deviation ResetDropsFrameTail): the peer cancels (RST_STREAM) the stream whose
    // DATA frame sozu has half-written and opens another stream: the rest of the frame never goes out, the next
    // HEADERS frame lands inside it and the framing of the connection is lost
    {
        id += 1;
        let ops = json!([{"op": "settings", "initWin": 1 << 30, "maxFrame": 16_384, "maxStreams": 100}, {"op": "wu", "slot": 0, "n": 1 << 30}, {"op": "sync"},
            {"op": "open", "down": 6_000_000, "up": 0}, {"op": "await", "bytes": 100_000},
            {"op": "hold", "ms": 500, "rcvbuf": 131_072, "events": [{"at_ms": 300, "op": "rst", "slot": 1}]},
            {"op": "open", "down": 50_000, "up": 0}, {"op": "finish", "mode": "eager"}]);
        v.push(json!({"id": id, "kind": "front", "front": "h2", "listener": "tls", "label": "fixed:front:cancel-half-written-frame", "streams": [],
                      "peer": {"ops": ops, "pad": 0, "rcvbuf": 131_072, "up_chunk": 16_384}, "driver": {"up_chunk": 16_384}, "deadline_ms": 60_000}));
    }
    // frames of an upload split inside the next frame header (any TCP segment boundary can fall there)
    for (label, kind, k) in [("fixed:front:split-header-upload", "front", 4i64), ("fixed:back:split-header-response", "back", 5)] {
        id += 1;
        let back = kind == "back";
        let (ops, streams) = if back {
            (json!([{"op": "settings", "maxStreams": 100}, {"op": "finish", "mode": "eager"}]), json!([{"down": 200_000, "up": 10}]))
        } else {
            (json!([{"op": "settings"}, {"op": "sync"}, {"op": "open", "down": 10, "up": 200_000}, {"op": "finish", "mode": "eager"}]), json!([{"down": 10, "up": 200_000}]))
        };
        v.push(json!({"id": id, "kind": kind, "front": "h1", "listener": if back { "h1" } else { "tls" }, "label": label, "streams": streams, "strict_close": true,
                      "peer": {"ops": ops, "pad": 0, "up_chunk": 16_384, "split_hdr": k, "split_ms": 15}, "driver": {"up_chunk": 16_384}, "deadline_ms": 120_000}));
    }
    for i in 0..nrandom {
        id += 1;
        let back = r.random_range(0..2) == 0;
        let front = if back && r.random_range(0..2) == 0 { "h1" } else { "h2" };
        let big = pick(r, &[5_000_000i64, 6_000_000, 8_000_000]);
        let small = pick(r, &[20_000i64, 48_000, 70_000]);
        let max_frame = pick(r, &[16_384i64, 16_384, 20_000, 65_536]);
        let rcvbuf = pick(r, &[65_536i64, 131_072, 131_072]);
        let ms = pick(r, &[450i64, 600, 800]);
        let data = pick(r, &[1i64, 100, 1_000, 3_000, 16_384]);
        let mut events: Vec<Value> = Vec::new();
        match r.random_range(0..5) {
            0 => events.push(json!({"at_ms": ms - 150, "op": "ping"})),
            1 => events.push(json!({"at_ms": ms - 120, "op": "settings", "initWin": pick(r, &[1i64 << 20, 1 << 30]), "maxFrame": pick(r, &[16_384i64, 32_768])})),
            2 => { events.push(json!({"at_ms": ms - 200, "op": "ping"})); events.push(json!({"at_ms": ms - 100, "op": "settings", "maxFrame": 16_384})); }
            _ => {}
        }
        let hold = json!({"ms": ms, "every_ms": pick(r, &[20i64, 40, 70]), "data": data, "max": pick(r, &[8_000i64, 30_000, 48_000]).min(small - 1), "events": events});
        let label = format!("rand:duplex:{}:{}:big{}:f{}:rb{}:h{}:d{}:e{}", if back { "back" } else { "front" }, front, big, max_frame, rcvbuf, ms, data, hold["events"].as_array().map(|a| a.len()).unwrap_or(0));
        v.push(duplex_scenario(id, &label, back, front, big, small, max_frame, rcvbuf, hold, pick(r, &[50_000i64, 100_000, 300_000])));
        let _ = i;
    }
    v
}

/// debugging aid: same as vh::worker::Worker::start, with sozu's logger (thread-local) started on the worker thread
fn start_worker_logging(name: &str, config: sozu_command_lib::proto::command::ServerConfig, level: String) -> Worker {
    use std::os::unix::prelude::IntoRawFd;
    use sozu_command_lib::{channel::Channel, scm_socket::{Listeners, ScmSocket}, state::ConfigState};
    use sozu_command_lib::proto::command::{WorkerRequest, WorkerResponse};
    let (a, b) = mio::net::UnixStream::pair().expect("unix pair");
    let (cmd_m2w, cmd_w2m): (Channel<WorkerRequest, WorkerResponse>, Channel<WorkerResponse, WorkerRequest>) =
        Channel::generate(config.command_buffer_size, config.max_command_buffer_size).expect("channel");
    for fd in [a.as_raw_fd(), b.as_raw_fd()] {
        unsafe { let old = libc::fcntl(fd, libc::F_GETFD); libc::fcntl(fd, libc::F_SETFD, old & !1); }
    }
    let scm_m2w = ScmSocket::new(a.into_raw_fd()).expect("scm");
    let scm_w2m = ScmSocket::new(b.into_raw_fd()).expect("scm");
    scm_m2w.send_listeners(&Listeners::default()).expect("send listeners");
    let state = ConfigState::new();
    let (thread_config, initial_state, thread_scm) = (config.clone(), state.produce_initial_state(), scm_w2m.to_owned());
    let job = std::thread::Builder::new().name(name.to_string()).spawn(move || {
        let _ = sozu_command_lib::logging::setup_default_logging(false, &level, "C14");
        let mut server = sozu_lib::server::Server::try_new_from_config(cmd_w2m, thread_scm, thread_config, initial_state, false).expect("worker");
        server.run();
    }).expect("spawn");
    Worker { name: name.to_string(), config, state, scm_main_to_worker: scm_m2w, scm_worker_to_main: scm_w2m, channel: cmd_m2w,
             next_id: 0, job: Some(job), backlog: Vec::new() }
}

static PANICS: Mutex<Vec<String>> = Mutex::new(Vec::new());
/// set by the panic hook when the panicking thread is the worker ("c14"): no schedule is started against a dead worker
/// (each one would wait for its deadline and for the sidecar: the run would outlast the check's timeout and the violation
/// would end as a tool error)
static WORKER_DEAD: AtomicBool = AtomicBool::new(false);
/// mux_ready_exit snapshots (hook) that show an HTTP/2 connection parked with a stream frame half-written
/// (`ew` = a stream) AND control output waiting for the frame boundary: WINDOW_UPDATEs queued / an answer
/// deferred into the zero buffer with the reads parked.  Coverage evidence only: how often the full-duplex
/// schedules realised the situation they are meant for.
static HALF_FRAME_WU: AtomicU64 = AtomicU64::new(0);
static HALF_FRAME_ZERO: AtomicU64 = AtomicU64::new(0);

fn install_half_frame_counter() {
    sozu_lib::verif::install(Box::new(|e| {
        if e.kind != "mux_ready_exit" { return; }
        for (k, v) in &e.strs {
            if *k != "front" && *k != "backs" { continue; }
            for ep in v.split(';') {
                if !ep.contains("proto=h2") { continue; }
                let num = |key: &str| -> i64 { ep.split(' ').find_map(|p| p.strip_prefix(key).and_then(|r| r.strip_prefix('='))).and_then(|x| x.parse().ok()).unwrap_or(-9) };
                if num("ew") >= 0 {
                    if num("wu") > 0 { HALF_FRAME_WU.fetch_add(1, Ordering::Relaxed); }
                    if num("zero") > 0 && num("int") & 1 == 0 { HALF_FRAME_ZERO.fetch_add(1, Ordering::Relaxed); }
                }
            }
        }
    }));
}

fn main() {
    // panics (of the worker thread: data; of the harness: tool error) are recorded with their location
    std::panic::set_hook(Box::new(|info| {
        let bt = std::backtrace::Backtrace::force_capture().to_string();
        let frames: Vec<&str> = bt.lines().filter(|l| l.contains("sozu") || l.contains("kawa")).take(12).collect();
        if let Ok(mut p) = PANICS.lock() { p.push(format!("{} | {}", info, frames.join(" <- "))); }
        if std::thread::current().name() == Some("c14") { WORKER_DEAD.store(true, Ordering::SeqCst); }
    }));
    let args: Vec<String> = std::env::args().collect();
    let arg = |k: &str| args.iter().position(|a| a == k).and_then(|i| args.get(i + 1)).cloned();
    let seed: u64 = arg("--seed").and_then(|s| s.parse().ok()).unwrap_or(1);
    let nrandom: usize = arg("--random").and_then(|s| s.parse().ok()).unwrap_or(0);
    let threads: usize = arg("--threads").and_then(|s| s.parse().ok()).unwrap_or(6);
    let thorough = arg("--tier").map(|t| t == "thorough").unwrap_or(false);
    let fixed = args.iter().any(|a| a == "--fixed");
    let buffer_size: u64 = arg("--buffer-size").and_then(|s| s.parse().ok()).unwrap_or(131_072);
    let out_server = arg("--out-server").unwrap_or("/tmp/c14_server.ndjson".into());
    let out_client = arg("--out-client").unwrap_or("/tmp/c14_client.ndjson".into());
    let reap_s: u64 = 1;

    let mut scenarios: Vec<Value> = Vec::new();
    if let Some(p) = arg("--scenarios") {
        for l in std::fs::read_to_string(&p).expect("scenario file").lines() {
            if let Ok(v) = serde_json::from_str::<Value>(l) { scenarios.push(v); }
        }
    }
    if fixed { scenarios.extend(fixed_scenarios(10_000, thorough)); }
    let mut rng = StdRng::seed_from_u64(seed ^ 0xC14);
    for i in 0..nrandom { scenarios.push(random_scenario(&mut rng, 20_000 + i as u64, thorough)); }
    if let Some(n) = arg("--duplex").and_then(|s| s.parse::<usize>().ok()) {
        let mut drng = StdRng::seed_from_u64(seed ^ 0xD0_C14);
        // first in the queue: they are the long ones
        let mut d = duplex_scenarios(40_000, &mut drng, n);
        d.append(&mut scenarios);
        scenarios = d;
    }
    if let Some(only) = arg("--only") { scenarios.retain(|s| s["label"].as_str().map(|l| l.contains(&only)).unwrap_or(false)); }
    if args.iter().any(|a| a == "--print") {
        for s in &scenarios { println!("{}", s); }
        return;
    }

    // ---- the worker
    install_half_frame_counter();
    let t = Duration::from_secs(30);
    let cfg = server_config(|fc| { fc.buffer_size = Some(buffer_size); fc.min_buffers = Some(4); fc.max_buffers = Some(2000); });
    let mut w = match arg("--sozu-log") {
        Some(level) => start_worker_logging("c14", cfg, level),
        None => Worker::start("c14", cfg, &Default::default(), Default::default()),
    };
    let tls = free_addr();
    let tls_reap = free_addr();
    let h1 = free_addr();
    let origin = free_addr();
    assert!(w.add_https_listener(tls, t), "https listener");
    {
        let mut l = ListenerBuilder::new_https(tls_reap.into()).to_tls(None).expect("https listener");
        l.h2_stream_idle_timeout_seconds = Some(reap_s as u32);
        assert!(ok(&w.request(RequestType::AddHttpsListener(l), t)));
        assert!(ok(&w.request(RequestType::ActivateListener(ActivateListener { address: tls_reap.into(), proxy: ListenerType::Https.into(), from_scm: false }), t)));
        assert!(ok(&w.request(RequestType::AddCertificate(AddCertificate { address: tls_reap.into(), certificate: CertificateAndKey {
            certificate: LOCAL_CERT.to_string(), key: LOCAL_KEY.to_string(), certificate_chain: vec![], versions: vec![], names: vec![] }, expired_at: None }), t)));
    }
    assert!(w.add_http_listener(h1, t), "http listener");
    assert!(ok(&w.request(RequestType::AddCluster(Worker::default_cluster("cm")), t)));
    for a in [tls, tls_reap] {
        assert!(ok(&w.request(RequestType::AddHttpsFrontend(Worker::http_frontend("cm", a, "localhost", "/m/")), t)));
    }
    assert!(ok(&w.request(RequestType::AddBackend(Worker::backend("cm", "m1", origin)), t)));
    let stop_origin = Arc::new(AtomicBool::new(false));
    {
        let l = TcpListener::bind(origin).expect("origin");
        let s = stop_origin.clone();
        std::thread::spawn(move || h1_origin(l, s));
    }
    // one h2c cluster per backend scenario
    let mut back_listeners: BTreeMap<u64, (TcpListener, String)> = BTreeMap::new();
    for sc in scenarios.iter().filter(|s| s["kind"] == "back") {
        let id = sc["id"].as_u64().unwrap_or(0);
        let addr = free_addr();
        let l = TcpListener::bind(addr).expect("backend listener");
        if let Some(n) = opt_i(&sc["peer"], "rcvbuf") { set_rcvbuf(l.as_raw_fd(), n as i32); }
        let cid = format!("b{id}");
        let prefix = format!("/b{id}");
        let cl = Cluster { cluster_id: cid.clone(), http2: Some(true), ..Default::default() };
        assert!(ok(&w.request(RequestType::AddCluster(cl), t)));
        assert!(ok(&w.request(RequestType::AddHttpsFrontend(Worker::http_frontend(&cid, tls, "localhost", &format!("{prefix}/"))), t)));
        assert!(ok(&w.request(RequestType::AddHttpFrontend(Worker::http_frontend(&cid, h1, "localhost", &format!("{prefix}/"))), t)));
        assert!(ok(&w.request(RequestType::AddBackend(Worker::backend(&cid, &format!("{cid}-1"), addr)), t)));
        back_listeners.insert(id, (l, prefix));
    }

    let sh = Shared {
        tls, tls_reap, h1, recv_conn: 1_048_576, reap_s,
        out_server: Mutex::new(std::fs::File::create(&out_server).expect("out-server")),
        out_client: Mutex::new(std::fs::File::create(&out_client).expect("out-client")),
        out_inconclusive: Mutex::new(std::fs::File::create(format!("{out_server}.inconclusive")).expect("out-inconclusive")),
        results: Mutex::new(Vec::new()),
        quick: !thorough,
        beat: Arc::new(Beat::new(tls)),
    };
    let queue: Mutex<VecDeque<(Value, Option<(TcpListener, String)>)>> = Mutex::new(
        scenarios.iter().map(|s| (s.clone(), back_listeners.remove(&s["id"].as_u64().unwrap_or(0)))).collect());
    let t0 = Instant::now();
    std::thread::scope(|scope| {
        for _ in 0..threads {
            scope.spawn(|| loop {
                if WORKER_DEAD.load(Ordering::SeqCst) { break; }
                let item = queue.lock().unwrap().pop_front();
                let Some((sc, bl)) = item else { break };
                let r = std::panic::catch_unwind(std::panic::AssertUnwindSafe(|| {
                    if sc["kind"] == "back" {
                        let (l, p) = bl.expect("backend listener");
                        scenario_back(&sc, &sh, l, p);
                    } else {
                        scenario_front(&sc, &sh);
                    }
                }));
                if let Err(e) = r {
                    sh.results.lock().unwrap().push(json!({"kind": "harness-panic", "scen": sc["id"], "label": sc["label"], "msg": vh::util::panic_message(e)}));
                }
            });
        }
    });
    stop_origin.store(true, Ordering::SeqCst);
    // a panic of the worker thread is data
    let worker_panic = match w.join_within(Duration::from_millis(200)) { Err(m) => Some(m), _ => None };
    // ... and so is a worker that no longer serves its command channel (spinning in a session): whatever the load of the
    // machine, a live event loop answers Status within a minute
    let worker_wedged = if worker_panic.is_none() && !w.is_finished() && w.request(RequestType::Status(Status {}), Duration::from_secs(60)).is_none() {
        Some("the worker thread does not answer a Status request within 60 s")
    } else { None };
    let results = sh.results.lock().unwrap();
    for r in results.iter() { vh::util::emit(r); }
    let count = |o: &str| results.iter().filter(|r| r["outcome"] == o).count();
    vh::util::emit(&json!({"kind": "summary", "scenarios": scenarios.len(), "runs": results.iter().filter(|r| r["kind"] == "run").count(),
        "done": count("done"), "stall": count("stall"), "closed": count("closed"), "inconclusive": count("inconclusive"),
        "garbled": count("garbled"), "sidecar_probes": sh.beat.used.load(Ordering::Relaxed),
        "half_frame_wu_pending": HALF_FRAME_WU.load(Ordering::Relaxed), "half_frame_zero_deferred": HALF_FRAME_ZERO.load(Ordering::Relaxed),
        "worker_panic": worker_panic, "worker_wedged": worker_wedged, "not_started": queue.lock().map(|q| q.len()).unwrap_or(0), "panics": PANICS.lock().map(|p| p.clone()).unwrap_or_default(), "wall_s": t0.elapsed().as_secs_f64(),
        "data_bytes": results.iter().map(|r| r["data_bytes"].as_i64().unwrap_or(0)).sum::<i64>()}));
    std::process::exit(0);
}
