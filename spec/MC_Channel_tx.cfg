SPECIFICATION Spec
CONSTANTS
  D = 8
  InitCap = 16
  MaxCap = 64
  WriteSizes = {8, 10, 11, 12, 13, 14, 15, 16, 17, 18, 19, 20, 21, 22, 23, 24, 25, 26, 27, 28, 29, 30, 31, 32, 33, 34, 35, 36, 37, 38, 39, 40, 41, 42, 43, 44, 45, 46, 47, 48, 49, 50, 51, 52, 53, 54, 55, 56, 57, 58, 59, 60, 61, 62, 63, 64, 65, 72}
  InjGood = {}
  InjUndec = {}
  InjShort = {}
  InjOver = {}
  MaxWrites = 1
  MaxInjects = 0
  MaxInFlight = 0
  MaxChunks = 2
  Scope = "tx"
  LazyInject = FALSE
  Canonical = FALSE
  Bounded = FALSE
  Record = FALSE
  History = FALSE
  Depth = 0
  Edges = FALSE
  Deviations = {}
INVARIANTS TypeOK P_C11_Slices P_C11_Bounded P_C11_WriteAccepted P_C11_WriteRefused Lemma_PosHalf
CHECK_DEADLOCK FALSE
