--------------------------- MODULE HandoverCodec ---------------------------
(***************************************************************************)
(* Generator (and oracle) for the S->I leg of C10 on the fd hand-off codec *)
(* (command/src/scm_socket.rs).  Every initial state is one listener set:  *)
(* a size 0..MaxFds, a split of that size over the four protocol buckets   *)
(* (http, tls, tcp, udp) and a cyclic pattern of address classes.  For     *)
(* each TLC prints one REPLAY line with what the specification predicts:   *)
(* the exact size of the manifest and whether receive_listeners delivers   *)
(* it.  harness/src/bin/replay_scm.rs builds that listener set out of real *)
(* bound sockets, pushes it through a real ScmSocket pair and compares.    *)
(***************************************************************************)
EXTENDS ScmManifest, TLC, Json

CONSTANTS Full,       \* TRUE: every (size, split, pattern); FALSE: every (size, pattern), split picked by Salt
          Salt        \* VERIF_SEED

VARIABLE cc

Splits == <<"http", "tls", "tcp", "udp", "even", "ends">>
Patterns == << <<"v4s">>, <<"v4l">>, <<"v6s">>, <<"v6l">>, <<"v6x">>, <<"v4l", "v6l">>,
               <<"v4s", "v6s", "v4l", "v6l">> >>

Counts(n, s) ==
  LET q == n \div 4  r == n % 4 IN
  CASE s = "http" -> <<n, 0, 0, 0>>
    [] s = "tls"  -> <<0, n, 0, 0>>
    [] s = "tcp"  -> <<0, 0, n, 0>>
    [] s = "udp"  -> <<0, 0, 0, n>>
    [] s = "even" -> <<q + (IF r > 0 THEN 1 ELSE 0), q + (IF r > 1 THEN 1 ELSE 0), q + (IF r > 2 THEN 1 ELSE 0), q>>
    [] s = "ends" -> IF n = 0 THEN <<0, 0, 0, 0>> ELSE IF n = 1 THEN <<1, 0, 0, 0>> ELSE <<1, n - 2, 0, 1>>

ClassAt(p, i) == Patterns[p][((i - 1) % Len(Patterns[p])) + 1]
Lens(n, p) == [i \in 1..n |-> AddrLen(ClassAt(p, i))]

Cases ==
  IF Full THEN { [n |-> n, s |-> s, p |-> p] : n \in 0..MaxFds, s \in 1..Len(Splits), p \in 1..Len(Patterns) }
  ELSE { [n |-> n, s |-> ((n + p + Salt) % Len(Splits)) + 1, p |-> p] : n \in 0..MaxFds, p \in 1..Len(Patterns) }

Describe(c) ==
  LET bytes == ManifestBytes(Lens(c.n, c.p)) IN
  [ n |-> c.n, split |-> Splits[c.s], counts |-> Counts(c.n, Splits[c.s]), pattern |-> Patterns[c.p],
    bytes |-> bytes, deliver |-> ReceiveOk(c.n, bytes) ]

Init == cc \in Cases
Next == UNCHANGED cc
Spec == Init /\ [][Next]_cc

EmitCase == PrintT(<<"REPLAY", ToJson(Describe(cc))>>)

\* the property on the codec: every listener set up to the advertised limit is delivered
P_C10_EveryCaseDelivered == ReceiveOk(cc.n, ManifestBytes(Lens(cc.n, cc.p)))
=============================================================================
