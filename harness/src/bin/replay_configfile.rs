//! S->I replayer for spec/ConfigFile.tla (property C20).
//!
//! stdin: ndjson, one object per abstract configuration file printed by the TLC generator:
//!   {"file":{g,ls,cs}, "valid":bool, "violations":[..], "declared":{..}, "nmsg":n,
//!    "reload_rejected":k, "code":[outcomes the code model allows when an open deviation applies]}
//!
//! For every abstract file and every rendering (TOML spelling x address family x entry order) the
//! replayer writes real TOML text to a temporary file and runs the REAL pipeline:
//!   Config::load_from_path -> Config::generate_config_messages -> ConfigState::dispatch (fresh state)
//! and compares
//!   * load verdict            with `valid`
//!   * every dispatch result   with "accepted in full"
//!   * project(ConfigState)    with `declared`
//!   * number of messages      with `nmsg`, message ids pairwise distinct
//!   * reload leg: the file is loaded AGAIN (new Config, new HashMap order) and its messages are
//!     dispatched over the produced state: the state must not change, every rejection must be an
//!     "already exists" rejection and their number must be `reload_rejected`.
//!
//! SIZE axis (--scale): valid one-cluster files are replicated n times (renamed cluster ids, host
//! names and - in "own" mode - addresses); the expected configuration is the union of the renamed
//! `declared` (ConfigFile.tla P_C20_Compositional is the model-checked justification).
//!
//! `project` is the only place that knows sozu's types; it produces the shape of the spec's
//! Declared(F) record. Fields the spec does not mention must have their documented default,
//! otherwise they show up under an "unexpected" key and make the comparison fail.
//!
//! stdout: ndjson {"kind":"violation",...} lines and one {"kind":"summary",...}.
//! `--probe FILE.toml` loads one concrete file and prints what the pipeline did (debug aid).

use std::collections::{BTreeMap, BTreeSet, HashSet};
use std::io::{BufRead, BufReader};
use std::panic::{AssertUnwindSafe, catch_unwind};
use std::path::PathBuf;
use std::sync::atomic::{AtomicU64, Ordering};
use std::sync::{Arc, Mutex};

use serde_json::{Value, json};
use sozu_command_lib::config::Config;
use sozu_command_lib::proto::command::{
    LoadBalancingAlgorithms, PathRuleKind, ProxyProtocolConfig, WorkerRequest,
};
use sozu_command_lib::state::{ConfigState, StateError};

// --------------------------------------------------------------------------
// concretisation: model value <-> concrete data

#[derive(Clone, Debug)]
struct Conc {
    style: u8,     // 0 [[listeners]] + inline frontends; 1 inline listeners + [[clusters.x.frontends]]; 2 dotted keys
    v6: bool,      // IPv6 loopback instead of IPv4
    reverse: bool, // write listeners / clusters / frontends in reverse order
    small: u64,    // the concrete "too small" buffer size
    assets: String,
}

fn split_name(name: &str) -> (String, u32) {
    // "A1" -> ("A1", 0) ; "A1r12" -> ("A1", 12)
    match name.find('r') {
        Some(p) => (name[..p].to_string(), name[p + 1..].parse().unwrap_or(0)),
        None => (name.to_string(), 0),
    }
}

fn port_of(name: &str) -> u16 {
    let (base, rep) = split_name(name);
    let k: u32 = base[1..].parse().unwrap_or(9);
    let p = match (&base[..1], rep) {
        ("A", 0) => 8080 + k,
        ("A", r) => 20000 + r * 8 + k,
        (_, _) => 1025 + k, // backends: shared by all replicas
    };
    p as u16
}

fn name_of_port(port: u16) -> String {
    let p = port as u32;
    if (8081..8090).contains(&p) {
        format!("A{}", p - 8080)
    } else if (1026..1035).contains(&p) {
        format!("B{}", p - 1025)
    } else if p >= 20000 && (p - 20000) % 8 != 0 {
        format!("A{}r{}", (p - 20000) % 8, (p - 20000) / 8)
    } else {
        format!("port{p}")
    }
}

fn addr_name(a: &std::net::SocketAddr) -> String {
    if a.ip().is_loopback() { name_of_port(a.port()) } else { a.to_string() }
}

impl Conc {
    fn addr(&self, name: &str) -> String {
        if self.v6 { format!("[::1]:{}", port_of(name)) } else { format!("127.0.0.1:{}", port_of(name)) }
    }
    fn host(&self, h: &str) -> String { format!("{h}.example.com") }
    fn cert(&self, c: &str) -> (String, String) {
        let n = c.to_lowercase();
        (format!("{}/{}-cert.pem", self.assets, n), format!("{}/{}-key.pem", self.assets, n))
    }
}

fn host_name(h: &str) -> String { h.strip_suffix(".example.com").unwrap_or(h).to_string() }

// --------------------------------------------------------------------------
// rendering an abstract file to TOML text

fn s<'a>(v: &'a Value, k: &str) -> &'a str { v[k].as_str().unwrap_or("absent") }
fn on(v: &Value, k: &str) -> bool { s(v, k) != "absent" }

/// key/value pairs of one listener, in TOML syntax; the hsts block is returned separately
fn listener_kv(l: &Value, c: &Conc) -> (Vec<(String, String)>, Option<Vec<(String, String)>>) {
    let mut kv = Vec::new();
    match s(l, "proto") {
        "absent" => {}
        "bogus" => kv.push(("protocol".into(), "\"quic\"".into())),
        p => kv.push(("protocol".into(), format!("\"{p}\""))),
    }
    kv.push(("address".into(), format!("\"{}\"", c.addr(s(l, "addr")))));
    if on(l, "expect_proxy") { kv.push(("expect_proxy".into(), s(l, "expect_proxy").into())); }
    if on(l, "public") { kv.push(("public_address".into(), (if c.v6 { "\"[2001:db8::1]:80\"" } else { "\"1.2.3.4:80\"" }).into())); }
    match s(l, "alpn") {
        "absent" => {}
        "empty" => kv.push(("alpn_protocols".into(), "[]".into())),
        "h1" => kv.push(("alpn_protocols".into(), "[\"http/1.1\"]".into())),
        "h2" => kv.push(("alpn_protocols".into(), "[\"h2\"]".into())),
        "h1h2" => kv.push(("alpn_protocols".into(), "[\"http/1.1\", \"h2\"]".into())),
        _ => kv.push(("alpn_protocols".into(), "[\"h2\", \"spdy/3\"]".into())),
    }
    if on(l, "cert") {
        let (ce, ke) = c.cert(s(l, "cert"));
        kv.push(("certificate".into(), format!("\"{ce}\"")));
        kv.push(("key".into(), format!("\"{ke}\"")));
    }
    if on(l, "front_timeout") { kv.push(("front_timeout".into(), "88".into())); }
    let hsts = match s(l, "hsts") {
        "absent" => None,
        "on" => Some(vec![("enabled".to_string(), "true".to_string())]),
        _ => Some(vec![("max_age".to_string(), "100000".to_string())]),
    };
    (kv, hsts)
}

fn front_kv(f: &Value, c: &Conc) -> (Vec<(String, String)>, Option<Vec<(String, String)>>) {
    let mut kv = vec![("address".to_string(), format!("\"{}\"", c.addr(s(f, "addr"))))];
    if s(f, "host") != "none" { kv.push(("hostname".into(), format!("\"{}\"", c.host(s(f, "host"))))); }
    if on(f, "path") { kv.push(("path".into(), "\"/api\"".into())); }
    if on(f, "ptype") { kv.push(("path_type".into(), format!("\"{}\"", s(f, "ptype")))); }
    if on(f, "method") { kv.push(("method".into(), format!("\"{}\"", s(f, "method")))); }
    if on(f, "position") { kv.push(("position".into(), format!("\"{}\"", s(f, "position")))); }
    if on(f, "tags") { kv.push(("tags".into(), format!("{{ team = \"{}\" }}", s(f, "tags")))); }
    if on(f, "cert") {
        let (ce, ke) = c.cert(s(f, "cert"));
        kv.push(("certificate".into(), format!("\"{ce}\"")));
        kv.push(("key".into(), format!("\"{ke}\"")));
    }
    let hsts = if on(f, "hsts") { Some(vec![("enabled".to_string(), "true".to_string())]) } else { None };
    (kv, hsts)
}

fn back_kv(b: &Value, c: &Conc) -> Vec<(String, String)> {
    let mut kv = vec![("address".to_string(), format!("\"{}\"", c.addr(s(b, "addr"))))];
    if on(b, "weight") { kv.push(("weight".into(), s(b, "weight").into())); }
    if on(b, "backup") { kv.push(("backup".into(), "true".into())); }
    if on(b, "bid") { kv.push(("backend_id".into(), "\"bx\"".into())); }
    kv
}

fn inline(kv: &[(String, String)], sub: &Option<Vec<(String, String)>>, subname: &str) -> String {
    let mut parts: Vec<String> = kv.iter().map(|(k, v)| format!("{k} = {v}")).collect();
    if let Some(h) = sub {
        parts.push(format!("{subname} = {{ {} }}", h.iter().map(|(k, v)| format!("{k} = {v}")).collect::<Vec<_>>().join(", ")));
    }
    format!("{{ {} }}", parts.join(", "))
}

fn ordered<'a>(v: &'a Value, rev: bool) -> Vec<&'a Value> {
    // TLC prints sets in its own order; give them a canonical order first so that a rendering is a
    // function of (abstract file, concretisation) only
    let mut items: Vec<&Value> = v.as_array().map(|a| a.iter().collect()).unwrap_or_default();
    items.sort_by_key(|x| canon(x));
    if rev { items.reverse(); }
    items
}

fn render(file: &Value, c: &Conc) -> String {
    let mut out = String::new();
    let g = &file["g"];
    match s(g, "buffer_size") {
        "small" => out.push_str(&format!("buffer_size = {}\n", c.small)),
        "min" => out.push_str("buffer_size = 16393\n"),
        _ => {}
    }
    if s(g, "activate") == "false" { out.push_str("activate_listeners = false\n"); }
    if on(g, "front_timeout") { out.push_str("front_timeout = 77\n"); }
    if on(g, "metrics_off") { out.push_str("disable_cluster_metrics = true\n"); }
    let ls = ordered(&file["ls"], c.reverse);
    let cs = ordered(&file["cs"], c.reverse);
    // listeners
    if !ls.is_empty() {
        if c.style == 1 {
            out.push_str("listeners = [\n");
            for l in &ls {
                let (kv, h) = listener_kv(l, c);
                out.push_str(&format!("  {},\n", inline(&kv, &h, "hsts")));
            }
            out.push_str("]\n");
        } else {
            for l in &ls {
                let (kv, h) = listener_kv(l, c);
                out.push_str("\n[[listeners]]\n");
                for (k, v) in &kv { out.push_str(&format!("{k} = {v}\n")); }
                if let Some(h) = h {
                    if c.style == 2 {
                        for (k, v) in &h { out.push_str(&format!("hsts.{k} = {v}\n")); }
                    } else {
                        out.push_str("[listeners.hsts]\n");
                        for (k, v) in &h { out.push_str(&format!("{k} = {v}\n")); }
                    }
                }
            }
        }
    }
    // clusters
    let cluster_kv = |cl: &Value| -> Vec<(String, String)> {
        let mut kv = Vec::new();
        match s(cl, "proto") {
            "bogus" => kv.push(("protocol".to_string(), "\"sctp\"".to_string())),
            p => kv.push(("protocol".to_string(), format!("\"{p}\""))),
        }
        if on(cl, "lb") { kv.push(("load_balancing".into(), format!("\"{}\"", s(cl, "lb")))); }
        if on(cl, "https_redirect") { kv.push(("https_redirect".into(), "true".into())); }
        if on(cl, "send_proxy") { kv.push(("send_proxy".into(), "true".into())); }
        kv
    };
    if c.style == 2 && !cs.is_empty() {
        out.push_str("\n[clusters]\n");
        for cl in &cs {
            let id = s(cl, "id");
            for (k, v) in cluster_kv(cl) { out.push_str(&format!("{id}.{k} = {v}\n")); }
            let fr = ordered(&cl["fronts"], c.reverse);
            out.push_str(&format!("{id}.frontends = [\n"));
            for f in &fr { let (kv, h) = front_kv(f, c); out.push_str(&format!("  {},\n", inline(&kv, &h, "hsts"))); }
            out.push_str("]\n");
            out.push_str(&format!("{id}.backends = [{}]\n",
                cl["backs"].as_array().unwrap().iter().map(|b| inline(&back_kv(b, c), &None, "")).collect::<Vec<_>>().join(", ")));
        }
    } else {
        for cl in &cs {
            let id = s(cl, "id");
            out.push_str(&format!("\n[clusters.{id}]\n"));
            for (k, v) in cluster_kv(cl) { out.push_str(&format!("{k} = {v}\n")); }
            let fr = ordered(&cl["fronts"], c.reverse);
            let backs: Vec<&Value> = cl["backs"].as_array().unwrap().iter().collect();
            if c.style == 0 {
                out.push_str("frontends = [\n");
                for f in &fr { let (kv, h) = front_kv(f, c); out.push_str(&format!("    {},\n", inline(&kv, &h, "hsts"))); }
                out.push_str("]\nbackends = [\n");
                for b in &backs { out.push_str(&format!("    {},\n", inline(&back_kv(b, c), &None, ""))); }
                out.push_str("]\n");
            } else {
                // array-of-tables spelling; an empty list still has to be written (the keys are mandatory)
                if fr.is_empty() { out.push_str("frontends = []\n"); }
                if backs.is_empty() { out.push_str("backends = []\n"); }
                for f in &fr {
                    let (kv, h) = front_kv(f, c);
                    out.push_str(&format!("[[clusters.{id}.frontends]]\n"));
                    for (k, v) in &kv { out.push_str(&format!("{k} = {v}\n")); }
                    if let Some(h) = h {
                        out.push_str(&format!("[clusters.{id}.frontends.hsts]\n"));
                        for (k, v) in &h { out.push_str(&format!("{k} = {v}\n")); }
                    }
                }
                for b in &backs {
                    out.push_str(&format!("[[clusters.{id}.backends]]\n"));
                    for (k, v) in back_kv(b, c) { out.push_str(&format!("{k} = {v}\n")); }
                }
            }
        }
    }
    out
}

// --------------------------------------------------------------------------
// projection of the real ConfigState to the shape of the spec's Declared(F)

fn canon(v: &Value) -> String {
    match v {
        Value::Object(m) => {
            let mut keys: Vec<&String> = m.keys().collect();
            keys.sort();
            format!("{{{}}}", keys.iter().map(|k| format!("{:?}:{}", k, canon(&m[*k]))).collect::<Vec<_>>().join(","))
        }
        Value::Array(a) => format!("[{}]", a.iter().map(canon).collect::<Vec<_>>().join(",")),
        other => other.to_string(),
    }
}

struct Certs { c1: String, c2: String }

fn cert_name(certs: &Certs, pem: &str) -> String {
    if pem == certs.c1 { "C1".into() } else if pem == certs.c2 { "C2".into() } else { "unknown".into() }
}

fn hsts_name(h: &Option<sozu_command_lib::proto::command::HstsConfig>) -> String {
    match h {
        None => "none".into(),
        // documented: enabled = true with max_age omitted means one year
        Some(h) if h.enabled == Some(true) && h.max_age == Some(31_536_000) && h.include_subdomains.is_none()
            && h.preload.is_none() && h.force_replace_backend.is_none() => "on".into(),
        Some(h) => format!("{h:?}"),
    }
}

fn put_unexpected(rec: &mut Value, unexpected: Vec<String>) {
    if !unexpected.is_empty() { rec["unexpected"] = json!(unexpected); }
}

fn project(state: &ConfigState, certs: &Certs) -> Value {
    let mut listeners = Vec::new();
    for (a, l) in &state.http_listeners {
        let mut r = json!({"kind":"http","addr":addr_name(a),"active":l.active,"expect_proxy":l.expect_proxy,
            "public":l.public_address.is_some(),"front_timeout":l.front_timeout,"alpn":[],"cert":"absent","hsts":"none"});
        let mut u = Vec::new();
        if l.back_timeout != 30 { u.push(format!("back_timeout={}", l.back_timeout)); }
        if l.connect_timeout != 3 { u.push(format!("connect_timeout={}", l.connect_timeout)); }
        if l.request_timeout != 10 { u.push(format!("request_timeout={}", l.request_timeout)); }
        if l.sticky_name != "SOZUBALANCEID" { u.push(format!("sticky_name={}", l.sticky_name)); }
        if std::net::SocketAddr::from(l.address) != *a { u.push("address differs from key".into()); }
        if !l.answers.is_empty() { u.push("answers".into()); }
        put_unexpected(&mut r, u);
        listeners.push(r);
    }
    for (a, l) in &state.https_listeners {
        let mut r = json!({"kind":"https","addr":addr_name(a),"active":l.active,"expect_proxy":l.expect_proxy,
            "public":l.public_address.is_some(),"front_timeout":l.front_timeout,"alpn":l.alpn_protocols,
            "cert": match &l.certificate { Some(p) => cert_name(certs, p), None => "absent".into() },
            "hsts": hsts_name(&l.hsts)});
        let mut u = Vec::new();
        if l.back_timeout != 30 { u.push(format!("back_timeout={}", l.back_timeout)); }
        if l.connect_timeout != 3 { u.push(format!("connect_timeout={}", l.connect_timeout)); }
        if l.request_timeout != 10 { u.push(format!("request_timeout={}", l.request_timeout)); }
        if l.sticky_name != "SOZUBALANCEID" { u.push(format!("sticky_name={}", l.sticky_name)); }
        if l.certificate.is_some() != l.key.is_some() { u.push("certificate without key".into()); }
        if std::net::SocketAddr::from(l.address) != *a { u.push("address differs from key".into()); }
        if l.disable_http11 == Some(true) { u.push("disable_http11".into()); }
        if !l.answers.is_empty() { u.push("answers".into()); }
        put_unexpected(&mut r, u);
        listeners.push(r);
    }
    for (a, l) in &state.tcp_listeners {
        let mut r = json!({"kind":"tcp","addr":addr_name(a),"active":l.active,"expect_proxy":l.expect_proxy,
            "public":l.public_address.is_some(),"front_timeout":l.front_timeout,"alpn":[],"cert":"absent","hsts":"none"});
        let mut u = Vec::new();
        if l.back_timeout != 30 { u.push(format!("back_timeout={}", l.back_timeout)); }
        if l.connect_timeout != 3 { u.push(format!("connect_timeout={}", l.connect_timeout)); }
        if std::net::SocketAddr::from(l.address) != *a { u.push("address differs from key".into()); }
        put_unexpected(&mut r, u);
        listeners.push(r);
    }
    for (a, l) in &state.udp_listeners {
        let mut r = json!({"kind":"udp","addr":addr_name(a),"active":l.active,"expect_proxy":false,
            "public":l.public_address.is_some(),"front_timeout":l.front_timeout,"alpn":[],"cert":"absent","hsts":"none"});
        let mut u = Vec::new();
        if l.back_timeout != 30 { u.push(format!("back_timeout={}", l.back_timeout)); }
        if std::net::SocketAddr::from(l.address) != *a { u.push("address differs from key".into()); }
        put_unexpected(&mut r, u);
        listeners.push(r);
    }
    let mut clusters = Vec::new();
    for (id, c) in &state.clusters {
        let proxy = match c.proxy_protocol {
            None => "none".to_string(),
            Some(i) => match ProxyProtocolConfig::try_from(i) {
                Ok(ProxyProtocolConfig::ExpectHeader) => "expect".into(),
                Ok(ProxyProtocolConfig::SendHeader) => "send".into(),
                Ok(ProxyProtocolConfig::RelayHeader) => "relay".into(),
                Err(_) => format!("invalid({i})"),
            },
        };
        let lb = LoadBalancingAlgorithms::try_from(c.load_balancing).map(|l| l.as_str_name().to_string())
            .unwrap_or_else(|_| format!("invalid({})", c.load_balancing));
        let mut r = json!({"id": c.cluster_id, "proxy": proxy, "lb": lb, "https_redirect": c.https_redirect});
        let mut u = Vec::new();
        if &c.cluster_id != id { u.push("cluster_id differs from key".to_string()); }
        if c.sticky_session { u.push("sticky_session".into()); }
        if c.http2 == Some(true) { u.push("http2".into()); }
        if c.answer_503.is_some() { u.push("answer_503".into()); }
        if c.load_metric.is_some() { u.push("load_metric".into()); }
        if c.health_check.is_some() { u.push("health_check".into()); }
        if c.udp.is_some() { u.push("udp".into()); }
        if !c.answers.is_empty() { u.push("answers".into()); }
        if !c.authorized_hashes.is_empty() { u.push("authorized_hashes".into()); }
        if c.max_connections_per_ip.is_some() { u.push("max_connections_per_ip".into()); }
        put_unexpected(&mut r, u);
        clusters.push(r);
    }
    let front = |f: &sozu_command_lib::response::HttpFrontend| -> Value {
        let pkind = match PathRuleKind::try_from(f.path.kind) {
            Ok(PathRuleKind::Prefix) => "prefix", Ok(PathRuleKind::Regex) => "regex", Ok(PathRuleKind::Equals) => "equals", Err(_) => "invalid",
        };
        let mut r = json!({"cluster": f.cluster_id.clone().unwrap_or_else(|| "<deny>".into()), "addr": addr_name(&f.address),
            "host": host_name(&f.hostname), "pkind": pkind, "path": f.path.value, "hsts": hsts_name(&f.hsts),
            "method": f.method.clone().unwrap_or_else(|| "absent".into()),
            "position": f.position.as_str_name(),
            // a tag set is either not there (the loader sends an empty map) or the one the renderer writes
            "tags": match &f.tags { None => "absent".to_string(), Some(t) if t.is_empty() => "absent".to_string(),
                Some(t) if t.len() == 1 && t.contains_key("team") => t["team"].clone(), Some(t) => format!("{t:?}") }});
        let mut u = Vec::new();
        if f.redirect.is_some() || f.redirect_scheme.is_some() || f.redirect_template.is_some() { u.push("redirect".into()); }
        if f.rewrite_host.is_some() || f.rewrite_path.is_some() || f.rewrite_port.is_some() { u.push("rewrite".into()); }
        if f.required_auth == Some(true) { u.push("required_auth".into()); }
        if !f.headers.is_empty() { u.push("headers".into()); }
        put_unexpected(&mut r, u);
        r
    };
    let http_fronts: Vec<Value> = state.http_fronts.values().map(front).collect();
    let https_fronts: Vec<Value> = state.https_fronts.values().map(front).collect();
    let mut tcp_fronts = Vec::new();
    for (id, fs) in &state.tcp_fronts {
        for f in fs {
            let mut r = json!({"cluster": f.cluster_id, "addr": addr_name(&f.address)});
            let mut u = Vec::new();
            if &f.cluster_id != id { u.push("cluster_id differs from key".to_string()); }
            if !f.tags.is_empty() { u.push("tags".into()); }
            put_unexpected(&mut r, u);
            tcp_fronts.push(r);
        }
    }
    let mut udp_fronts = Vec::new();
    for (id, fs) in &state.udp_fronts {
        for f in fs {
            let mut r = json!({"cluster": f.cluster_id, "addr": addr_name(&f.address)});
            let mut u = Vec::new();
            if &f.cluster_id != id { u.push("cluster_id differs from key".to_string()); }
            if !f.tags.is_empty() { u.push("tags".into()); }
            put_unexpected(&mut r, u);
            udp_fronts.push(r);
        }
    }
    let mut backends = Vec::new();
    for (id, bs) in &state.backends {
        let mut ids = HashSet::new();
        for b in bs {
            let mut r = json!({"cluster": b.cluster_id, "addr": addr_name(&b.address),
                "weight": b.load_balancing_parameters.map(|p| p.weight).unwrap_or(-1),
                "backup": b.backup.unwrap_or(false),
                "idkind": if b.backend_id == "bx" { "x" } else { "auto" }});
            let mut u = Vec::new();
            if &b.cluster_id != id { u.push("cluster_id differs from key".to_string()); }
            if b.sticky_id.is_some() { u.push("sticky_id".into()); }
            // identity of a backend inside its cluster: (backend_id, address)
            if !ids.insert((b.backend_id.clone(), b.address)) { u.push(format!("backend {} {} held twice", b.backend_id, b.address)); }
            put_unexpected(&mut r, u);
            backends.push(r);
        }
    }
    let mut certs_out = Vec::new();
    for (a, m) in &state.certificates {
        for c in m.values() {
            certs_out.push(json!({"addr": addr_name(a), "cert": cert_name(certs, &c.certificate)}));
        }
    }
    json!({"listeners": listeners, "clusters": clusters, "http_fronts": http_fronts, "https_fronts": https_fronts,
           "tcp_fronts": tcp_fronts, "udp_fronts": udp_fronts, "backends": backends, "certs": certs_out})
}

const COLLECTIONS: [&str; 8] = ["listeners", "clusters", "http_fronts", "https_fronts", "tcp_fronts", "udp_fronts", "backends", "certs"];

/// Compare two configurations as bags of canonical records per collection; returns the differences.
fn diff_config(expected: &Value, got: &Value) -> Vec<Value> {
    let mut out = Vec::new();
    for k in COLLECTIONS {
        let bag = |v: &Value| -> BTreeMap<String, i64> {
            let mut m = BTreeMap::new();
            for x in v[k].as_array().map(|a| a.as_slice()).unwrap_or(&[]) { *m.entry(canon(x)).or_insert(0) += 1; }
            m
        };
        let (e, g) = (bag(expected), bag(got));
        let missing: Vec<String> = e.iter().filter(|(x, n)| g.get(*x).copied().unwrap_or(0) < **n).map(|(x, _)| x.clone()).collect();
        let extra: Vec<String> = g.iter().filter(|(x, n)| e.get(*x).copied().unwrap_or(0) < **n).map(|(x, _)| x.clone()).collect();
        if !missing.is_empty() || !extra.is_empty() {
            out.push(json!({"collection": k, "declared_but_not_loaded": missing, "loaded_but_not_declared": extra}));
        }
    }
    out
}

// --------------------------------------------------------------------------
// the real pipeline

#[derive(Debug)]
enum Real {
    Rejected(String),
    Panic(String, String), // stage, message
    Loaded(Box<LoadedRun>),
}

#[derive(Debug)]
struct LoadedRun {
    nmsg: usize,
    duplicate_ids: Vec<String>,
    rejected: Vec<String>,
    state: Value,
    reload_rejected_exists: usize,
    reload_rejected_other: Vec<String>,
    reload_state_same: bool,
    reload_diff_len: Result<usize, String>,
}

fn guarded<T>(stage: &str, f: impl FnOnce() -> T) -> Result<T, Real> {
    catch_unwind(AssertUnwindSafe(f)).map_err(|e| Real::Panic(stage.to_string(), vh::util::panic_message(e)))
}

fn load_messages(path: &str) -> Result<Vec<WorkerRequest>, Real> {
    let cfg = guarded("load", || Config::load_from_path(path))?;
    let cfg = match cfg { Ok(c) => c, Err(e) => return Err(Real::Rejected(e.to_string())) };
    match guarded("generate_config_messages", || cfg.generate_config_messages())? {
        Ok(m) => Ok(m),
        Err(e) => Err(Real::Panic("generate_config_messages".into(), format!("returned Err: {e}"))),
    }
}

fn run_real(path: &str, certs: &Certs) -> Real {
    let msgs = match load_messages(path) { Ok(m) => m, Err(r) => return r };
    let mut seen = HashSet::new();
    let mut duplicate_ids = Vec::new();
    for m in &msgs { if !seen.insert(m.id.clone()) && duplicate_ids.len() < 5 { duplicate_ids.push(m.id.clone()); } }
    let mut state = ConfigState::new();
    let mut rejected = Vec::new();
    for (i, m) in msgs.iter().enumerate() {
        match guarded("dispatch", || state.dispatch(&m.content)) {
            Err(r) => return r,
            Ok(Ok(())) => {}
            Ok(Err(e)) => if rejected.len() < 10 { rejected.push(format!("message {i} ({}): {e}", m.id)) } else { rejected.push(String::new()) },
        }
    }
    let projected = match guarded("project", || project(&state, certs)) { Ok(p) => p, Err(r) => return r };
    // reload leg: load the file again (fresh Config, fresh HashMap order) over the state it produced
    let before = state.clone();
    let msgs2 = match load_messages(path) {
        Ok(m) => m,
        Err(Real::Rejected(e)) => return Real::Panic("reload".into(), format!("second load of the same file was rejected: {e}")),
        Err(r) => return r,
    };
    let mut exists = 0usize;
    let mut other = Vec::new();
    for (i, m) in msgs2.iter().enumerate() {
        match guarded("reload-dispatch", || state.dispatch(&m.content)) {
            Err(r) => return r,
            Ok(Ok(())) => {}
            Ok(Err(StateError::Exists { .. })) => exists += 1,
            Ok(Err(e)) => if other.len() < 10 { other.push(format!("message {i}: {e}")) },
        }
    }
    let mut after = state.clone();
    after.request_counts = before.request_counts.clone();
    let same = after == before && match guarded("project", || project(&after, certs)) { Ok(p) => canon(&p) == canon(&projected) || diff_config(&projected, &p).is_empty(), Err(r) => return r };
    let diff_len = catch_unwind(AssertUnwindSafe(|| before.diff(&after).len())).map_err(vh::util::panic_message);
    Real::Loaded(Box::new(LoadedRun { nmsg: msgs.len(), duplicate_ids, rejected, state: projected,
        reload_rejected_exists: exists, reload_rejected_other: other, reload_state_same: same, reload_diff_len: diff_len }))
}

// --------------------------------------------------------------------------
// verdicts

struct Ctx {
    certs: Certs,
    assets: String,
    tmp: PathBuf,
    seed: u64,
    renderings: u8,
    deviations: String,
}

fn conc_for(ctx: &Ctx, r: u8) -> Conc {
    let k = ctx.seed.wrapping_add(r as u64);
    Conc { style: r % 3, v6: k % 2 == 1, reverse: (k / 2) % 2 == 1, small: if k % 3 == 0 { 16392 } else if k % 3 == 1 { 4096 } else { 1 }, assets: ctx.assets.clone() }
}

/// returns a list of (class, detail)
fn judge(expect_valid: bool, violations: &Value, declared: &Value, nmsg: Option<u64>, reload_rejected: Option<u64>, real: &Real) -> Vec<(String, Value)> {
    let mut v = Vec::new();
    match real {
        Real::Panic(stage, msg) => v.push((format!("panic:{stage}"), json!({"panic": msg}))),
        Real::Rejected(e) => if expect_valid { v.push(("valid-rejected".into(), json!({"loader_error": e}))) },
        Real::Loaded(run) => {
            if !expect_valid {
                v.push(("invalid-accepted".into(), json!({"violated_constraints": violations, "loaded_state": run.state})));
                return v;
            }
            if !run.rejected.is_empty() {
                v.push(("message-rejected".into(), json!({"rejected": run.rejected.iter().filter(|s| !s.is_empty()).collect::<Vec<_>>(), "count": run.rejected.len()})));
            }
            if !run.duplicate_ids.is_empty() { v.push(("duplicate-message-id".into(), json!({"ids": run.duplicate_ids}))); }
            let d = diff_config(declared, &run.state);
            if !d.is_empty() { v.push(("state-mismatch".into(), json!({"differences": d}))); }
            if let Some(n) = nmsg { if n as usize != run.nmsg { v.push(("message-count".into(), json!({"spec": n, "real": run.nmsg}))); } }
            if !run.reload_state_same { v.push(("reload-changed-state".into(), json!({}))); }
            if !run.reload_rejected_other.is_empty() { v.push(("reload-rejection-kind".into(), json!({"errors": run.reload_rejected_other}))); }
            if let Some(k) = reload_rejected { if k as usize != run.reload_rejected_exists { v.push(("reload-rejection-count".into(), json!({"spec": k, "real": run.reload_rejected_exists}))); } }
            match &run.reload_diff_len {
                Ok(0) => {}
                Ok(n) => v.push(("reload-diff-nonempty".into(), json!({"diff_requests": n}))),
                Err(p) => v.push(("panic:reload-diff".into(), json!({"panic": p}))),
            }
        }
    }
    v
}

/// does the real run equal one of the outcomes the code model (with open deviations on) allows?
fn matches_code_outcome(code: &Value, real: &Real) -> bool {
    let outcomes = match code.as_array() { Some(a) if !a.is_empty() => a, _ => return false };
    match real {
        Real::Panic(..) => false,
        Real::Rejected(_) => outcomes.iter().any(|o| o["loaded"] == json!(false)),
        Real::Loaded(run) => outcomes.iter().any(|o| {
            o["loaded"] == json!(true)
                && o["nmsg"].as_u64() == Some(run.nmsg as u64)
                && o["rejected"].as_u64() == Some(run.rejected.len() as u64)
                && o["reload_rejected"].as_u64() == Some(run.reload_rejected_exists as u64)
                && run.reload_rejected_other.is_empty() && run.reload_state_same && run.duplicate_ids.is_empty()
                && diff_config(&o["state"], &run.state).is_empty()
        }),
    }
}

// --------------------------------------------------------------------------
// SIZE axis: replication of a one-cluster file

fn rename(v: &Value, i: u32, own: bool, in_listener: bool) -> Value {
    match v {
        Value::Object(m) => {
            let mut o = serde_json::Map::new();
            for (k, x) in m {
                let nx = match (k.as_str(), x) {
                    ("id", Value::String(sv)) | ("cluster", Value::String(sv)) => json!(format!("{sv}r{i}")),
                    ("host", Value::String(sv)) if sv != "none" => json!(format!("{sv}r{i}")),
                    ("addr", Value::String(sv)) if sv.starts_with('A') && own => json!(format!("{sv}r{i}")),
                    (_, Value::Object(_)) | (_, Value::Array(_)) if k != "alpn" => rename(x, i, own, in_listener),
                    _ => x.clone(),
                };
                o.insert(k.clone(), nx);
            }
            Value::Object(o)
        }
        Value::Array(a) => Value::Array(a.iter().map(|x| rename(x, i, own, in_listener)).collect()),
        other => other.clone(),
    }
}

/// (scaled abstract file, expected configuration)
fn scale(base: &Value, n: u32, own: bool) -> (Value, Value) {
    let file = &base["file"];
    let decl = &base["declared"];
    let mut ls: Vec<Value> = Vec::new();
    let mut cs: Vec<Value> = Vec::new();
    let mut exp: BTreeMap<&str, Vec<Value>> = COLLECTIONS.iter().map(|k| (*k, Vec::new())).collect();
    let mut seen: BTreeMap<&str, BTreeSet<String>> = COLLECTIONS.iter().map(|k| (*k, BTreeSet::new())).collect();
    if !own { ls.extend(file["ls"].as_array().unwrap().iter().cloned()); }
    for i in 1..=n {
        if own { for l in file["ls"].as_array().unwrap() { ls.push(rename(l, i, true, true)); } }
        for c in file["cs"].as_array().unwrap() { cs.push(rename(c, i, own, false)); }
        for k in COLLECTIONS {
            for rec in decl[k].as_array().unwrap() {
                let r = if k == "listeners" || k == "certs" { if own { rename(rec, i, true, true) } else { rec.clone() } } else { rename(rec, i, own, false) };
                // listeners and certificates shared by all replicas are declared once; backends are a bag
                if k == "backends" || seen.get_mut(k).unwrap().insert(canon(&r)) { exp.get_mut(k).unwrap().push(r); }
            }
        }
    }
    (json!({"g": file["g"], "ls": ls, "cs": cs}), json!(exp))
}

// --------------------------------------------------------------------------

/// The loader prints TOML parse errors on stdout (display_toml_error); keep our ndjson channel clean by
/// moving the real stdout to a private descriptor and pointing fd 1 at /dev/null.
fn private_stdout() -> std::fs::File {
    use std::os::fd::FromRawFd;
    unsafe {
        let saved = libc::dup(1);
        let null = libc::open(c"/dev/null".as_ptr(), libc::O_WRONLY);
        if saved >= 0 && null >= 0 { libc::dup2(null, 1); libc::close(null); }
        std::fs::File::from_raw_fd(if saved >= 0 { saved } else { 1 })
    }
}

static OUT: std::sync::OnceLock<Mutex<std::fs::File>> = std::sync::OnceLock::new();

fn emit(v: &Value) {
    use std::io::Write;
    let mut f = OUT.get().expect("output").lock().unwrap();
    let _ = writeln!(f, "{v}");
}

fn main() {
    vh::util::quiet_panics();
    let _ = OUT.set(Mutex::new(private_stdout()));
    let args: Vec<String> = std::env::args().collect();
    let mut seed: u64 = 1;
    let mut threads: usize = 8;
    let mut renderings: u8 = 2;
    let mut deviations = String::new();
    let mut assets = String::from("/verif/assets/c20");
    let mut probe: Option<String> = None;
    let mut scale_ns: Vec<u32> = Vec::new();
    let mut scale_bases: usize = 0;
    let mut dump_dir: Option<String> = None;
    let mut i = 1;
    while i < args.len() {
        match args[i].as_str() {
            "--seed" => { seed = args[i + 1].parse().unwrap_or(1); i += 1; }
            "--threads" => { threads = args[i + 1].parse().unwrap(); i += 1; }
            "--renderings" => { renderings = args[i + 1].parse().unwrap(); i += 1; }
            "--deviations" => { deviations = args[i + 1].clone(); i += 1; }
            "--assets" => { assets = args[i + 1].clone(); i += 1; }
            "--probe" => { probe = Some(args[i + 1].clone()); i += 1; }
            "--scale" => { scale_ns = args[i + 1].split(',').filter_map(|x| x.parse().ok()).collect(); i += 1; }
            "--scale-bases" => { scale_bases = args[i + 1].parse().unwrap(); i += 1; }
            "--dump" => { dump_dir = Some(args[i + 1].clone()); i += 1; }
            _ => {}
        }
        i += 1;
    }
    let read = |p: String| std::fs::read_to_string(&p).unwrap_or_else(|e| { eprintln!("cannot read asset {p}: {e}"); std::process::exit(3) });
    let certs = Certs { c1: read(format!("{assets}/c1-cert.pem")), c2: read(format!("{assets}/c2-cert.pem")) };
    let tmp = std::env::temp_dir().join(format!("c20-replay-{}", std::process::id()));
    std::fs::create_dir_all(&tmp).unwrap();
    // the loader resolves a default command socket path from the current directory
    let _ = std::env::set_current_dir(&tmp);

    if let Some(p) = probe {
        let real = run_real(&p, &certs);
        match &real {
            Real::Loaded(run) => emit(&json!({"kind":"probe","loaded":true,"nmsg":run.nmsg,"rejected":run.rejected,"state":run.state,
                "duplicate_ids": run.duplicate_ids, "reload_exists": run.reload_rejected_exists, "reload_other": run.reload_rejected_other,
                "reload_state_same": run.reload_state_same, "reload_diff": format!("{:?}", run.reload_diff_len)})),
            other => emit(&json!({"kind":"probe","loaded":false,"result":format!("{other:?}")})),
        }
        let _ = std::fs::remove_dir_all(&tmp);
        return;
    }

    let ctx = Arc::new(Ctx { certs, assets, tmp: tmp.clone(), seed, renderings, deviations });
    let (tx, rx) = std::sync::mpsc::sync_channel::<(usize, String)>(512);
    let rx = Arc::new(Mutex::new(rx));
    let n_files = Arc::new(AtomicU64::new(0));
    let n_valid = Arc::new(AtomicU64::new(0));
    let n_nontrivial = Arc::new(AtomicU64::new(0));
    let n_runs = Arc::new(AtomicU64::new(0));
    let n_msgs = Arc::new(AtomicU64::new(0));
    let n_dev = Arc::new(AtomicU64::new(0));
    let violations: Arc<Mutex<Vec<Value>>> = Arc::new(Mutex::new(Vec::new()));
    let classes: Arc<Mutex<BTreeMap<String, u64>>> = Arc::new(Mutex::new(BTreeMap::new()));
    let constraint_hits: Arc<Mutex<BTreeMap<String, u64>>> = Arc::new(Mutex::new(BTreeMap::new()));
    let feature_hits: Arc<Mutex<BTreeMap<String, u64>>> = Arc::new(Mutex::new(BTreeMap::new()));
    let pair_hits: Arc<Mutex<BTreeMap<String, u64>>> = Arc::new(Mutex::new(BTreeMap::new()));
    let samples: Arc<Mutex<Vec<Value>>> = Arc::new(Mutex::new(Vec::new()));
    let bases: Arc<Mutex<Vec<(String, String)>>> = Arc::new(Mutex::new(Vec::new()));

    let mut handles = Vec::new();
    for t in 0..threads {
        let n_nontrivial = n_nontrivial.clone();
        let feature_hits = feature_hits.clone();
        let pair_hits = pair_hits.clone();
        let (ctx, rx, n_files, n_valid, n_runs, n_msgs, n_dev, violations, classes, constraint_hits, samples, bases, dump_dir) = (
            ctx.clone(), rx.clone(), n_files.clone(), n_valid.clone(), n_runs.clone(), n_msgs.clone(), n_dev.clone(),
            violations.clone(), classes.clone(), constraint_hits.clone(), samples.clone(), bases.clone(), dump_dir.clone());
        handles.push(std::thread::spawn(move || {
            let path = ctx.tmp.join(format!("t{t}.toml"));
            let path_s = path.to_str().unwrap().to_string();
            loop {
                let msg = { rx.lock().unwrap().recv() };
                let (k, line) = match msg { Ok(m) => m, Err(_) => break };
                let rec: Value = match serde_json::from_str(&line) { Ok(v) => v, Err(_) => continue };
                if rec.get("file").is_none() { continue; }
                n_files.fetch_add(1, Ordering::Relaxed);
                if rec["size"].as_u64().unwrap_or(0) > 0 { n_nontrivial.fetch_add(1, Ordering::Relaxed); }
                let valid = rec["valid"].as_bool().unwrap_or(false);
                if valid { n_valid.fetch_add(1, Ordering::Relaxed); }
                {
                    let mut ch = constraint_hits.lock().unwrap();
                    for c in rec["violations"].as_array().map(|a| a.as_slice()).unwrap_or(&[]) {
                        *ch.entry(c.as_str().unwrap_or("?").to_string()).or_insert(0) += 1;
                    }
                }
                {
                    // identity pairs (valid files) and non-identity decoys the spec says this file holds
                    let mut ph = pair_hits.lock().unwrap();
                    for (key, prefix) in [("pairs", "pair"), ("decoys", "decoy")] {
                        for p in rec[key].as_array().map(|a| a.as_slice()).unwrap_or(&[]) {
                            let name = format!("{prefix}:{}:{}", p[0].as_str().unwrap_or("?"), p[1].as_str().unwrap_or("?"));
                            *ph.entry(name).or_insert(0) += 1;
                        }
                    }
                }
                {
                    // which editing actions of the spec does this file witness (vacuity guard for the generator)
                    let f = &rec["file"];
                    let any_on = |v: &Value, keys: &[&str]| keys.iter().any(|k| on(v, k));
                    let mut feats: Vec<&str> = Vec::new();
                    if any_on(&f["g"], &["buffer_size", "activate", "front_timeout", "metrics_off"]) { feats.push("SetGlobal"); }
                    for l in f["ls"].as_array().map(|a| a.as_slice()).unwrap_or(&[]) {
                        feats.push("AddListener");
                        if any_on(l, &["expect_proxy", "public", "alpn", "cert", "hsts", "front_timeout"]) { feats.push("EditListener"); }
                    }
                    for c in f["cs"].as_array().map(|a| a.as_slice()).unwrap_or(&[]) {
                        feats.push("AddCluster");
                        if any_on(c, &["lb", "https_redirect", "send_proxy"]) { feats.push("EditCluster"); }
                        let base_host = if s(c, "proto") == "http" { "h1" } else { "none" };
                        for fr in c["fronts"].as_array().map(|a| a.as_slice()).unwrap_or(&[]) {
                            feats.push("NewFrontend");
                            if any_on(fr, &["path", "ptype", "method", "cert", "hsts", "position", "tags"]) { feats.push("EditFrontend"); }
                            if s(fr, "host") != base_host { feats.push("EditFrontendHost"); }
                        }
                        for b in c["backs"].as_array().map(|a| a.as_slice()).unwrap_or(&[]) {
                            feats.push("NewBackend");
                            if any_on(b, &["weight", "backup", "bid"]) { feats.push("EditBackend"); }
                        }
                    }
                    feats.sort(); feats.dedup();
                    let mut fh = feature_hits.lock().unwrap();
                    for x in feats { *fh.entry(x.to_string()).or_insert(0) += 1; }
                }
                if valid && rec["file"]["cs"].as_array().map(|a| a.len()) == Some(1)
                    && rec["file"]["cs"][0]["fronts"].as_array().is_some_and(|a| !a.is_empty())
                    && rec["file"]["cs"][0]["backs"].as_array().is_some_and(|a| !a.is_empty()) {
                    bases.lock().unwrap().push((canon(&rec["file"]), line.clone()));
                }
                for r in 0..ctx.renderings {
                    let conc = conc_for(&ctx, r);
                    let text = render(&rec["file"], &conc);
                    std::fs::write(&path, &text).unwrap();
                    let real = run_real(&path_s, &ctx.certs);
                    n_runs.fetch_add(1, Ordering::Relaxed);
                    if let Real::Loaded(run) = &real { n_msgs.fetch_add(run.nmsg as u64, Ordering::Relaxed); }
                    let found = judge(valid, &rec["violations"], &rec["declared"], rec["nmsg"].as_u64(), rec["reload_rejected"].as_u64(), &real);
                    if !found.is_empty() {
                        if !ctx.deviations.is_empty() && matches_code_outcome(&rec["code"], &real) {
                            n_dev.fetch_add(1, Ordering::Relaxed);
                            *classes.lock().unwrap().entry(format!("dev:{}", ctx.deviations)).or_insert(0) += 1;
                        } else {
                            for (class, detail) in found {
                                *classes.lock().unwrap().entry(class.clone()).or_insert(0) += 1;
                                let mut v = violations.lock().unwrap();
                                if v.len() < 100 {
                                    v.push(json!({"kind":"violation","class":class,"leg":"files","record":rec,
                                        "rendering":format!("{conc:?}"),"toml":text,"detail":detail}));
                                }
                            }
                        }
                    }
                    if let Some(d) = &dump_dir { if k < 40 { let _ = std::fs::write(format!("{d}/file{k}_r{r}.toml"), &text); } }
                    // samples: one per (valid?, has a frontend?, has a listener?) class among the richer files
                    let has_front = rec["file"]["cs"].as_array().is_some_and(|a| a.iter().any(|c| c["fronts"].as_array().is_some_and(|f| !f.is_empty())));
                    let has_listener = rec["file"]["ls"].as_array().is_some_and(|a| !a.is_empty());
                    if r == 1 && has_front && rec["size"].as_u64().unwrap_or(0) >= 4 && k % 7 == 3 {
                        let mut sm = samples.lock().unwrap();
                        let class = format!("{valid}/{has_listener}");
                        if sm.len() < 4 && !sm.iter().any(|x: &Value| x["class"] == json!(class)) {
                            sm.push(json!({"class": class, "abstract_file": rec["file"], "valid": valid, "violated_constraints": rec["violations"],
                                "declared": rec["declared"], "toml": text,
                                "loader": match &real { Real::Rejected(e) => format!("rejected: {e}"), Real::Loaded(run) => format!("loaded, {} messages, all accepted: {}", run.nmsg, run.rejected.is_empty()), Real::Panic(s, m) => format!("panic in {s}: {m}") }}));
                        }
                    }
                }
            }
            let _ = std::fs::remove_file(&path);
        }));
    }
    let stdin = BufReader::new(std::io::stdin());
    for (k, l) in stdin.lines().enumerate() {
        let l = match l { Ok(l) => l, Err(_) => break };
        if l.trim().is_empty() { continue; }
        tx.send((k, l)).unwrap();
    }
    drop(tx);
    for h in handles { h.join().unwrap(); }

    // SIZE axis
    let mut scale_runs = 0u64;
    let mut scale_max_msgs = 0usize;
    let mut scale_samples: Vec<Value> = Vec::new();
    if scale_bases > 0 && !scale_ns.is_empty() {
        let mut all = bases.lock().unwrap().clone();
        all.sort();
        // one base per (cluster protocol, served over https?, declared listener?) class first, then seeded picks
        let mut chosen: Vec<Value> = Vec::new();
        let mut classes_seen = BTreeSet::new();
        let start = if all.is_empty() { 0 } else { (seed as usize * 7919) % all.len() };
        for j in 0..all.len() {
            if chosen.len() >= scale_bases { break; }
            let rec: Value = serde_json::from_str(&all[(start + j * 37) % all.len()].1).unwrap();
            let c = &rec["file"]["cs"][0];
            let key = format!("{}/{}/{}", s(c, "proto"), !rec["declared"]["https_fronts"].as_array().unwrap().is_empty(),
                rec["file"]["ls"].as_array().unwrap().len());
            if classes_seen.insert(key) { chosen.push(rec); }
        }
        // jobs = (base index, n); executed by a pool of threads, results merged afterwards
        let jobs: Arc<Mutex<Vec<(usize, u32)>>> = Arc::new(Mutex::new(
            (0..chosen.len()).flat_map(|bi| scale_ns.iter().map(move |n| (bi, *n))).rev().collect()));
        let chosen = Arc::new(chosen);
        let results: Arc<Mutex<Vec<(usize, u32, bool, usize, String, Real, Value)>>> = Arc::new(Mutex::new(Vec::new()));
        let mut hs = Vec::new();
        for t in 0..threads.max(1) {
            let (jobs, chosen, results, ctx, tmp) = (jobs.clone(), chosen.clone(), results.clone(), ctx.clone(), tmp.clone());
            hs.push(std::thread::spawn(move || {
                let path = tmp.join(format!("scaled{t}.toml"));
                let path_s = path.to_str().unwrap().to_string();
                loop {
                    let job = { jobs.lock().unwrap().pop() };
                    let (bi, n) = match job { Some(j) => j, None => break };
                    let base = &chosen[bi];
                    let is_http = s(&base["file"]["cs"][0], "proto") == "http";
                    // HTTP clusters can share listeners (distinct host names); TCP clusters get their own addresses
                    let own = !is_http || (bi + n as usize) % 2 == 1;
                    let (file, expected) = scale(base, n, own);
                    let conc = conc_for(&ctx, (bi % 3) as u8);
                    let text = render(&file, &conc);
                    std::fs::write(&path, &text).unwrap();
                    let real = run_real(&path_s, &ctx.certs);
                    let head: String = text.chars().take(1500).collect();
                    results.lock().unwrap().push((bi, n, own, text.len(), format!("{conc:?}\n{head}"), real, expected));
                }
                let _ = std::fs::remove_file(&path);
            }));
        }
        for h in hs { h.join().unwrap(); }
        let mut results = std::mem::take(&mut *results.lock().unwrap());
        results.sort_by_key(|r| (r.0, r.1));
        for (bi, n, own, bytes, head, real, expected) in results {
            let base = &chosen[bi];
            scale_runs += 1;
            if let Real::Loaded(run) = &real { scale_max_msgs = scale_max_msgs.max(run.nmsg); n_msgs.fetch_add(run.nmsg as u64, Ordering::Relaxed); }
            let found = judge(true, &json!([]), &expected, None, None, &real);
            for (class, mut detail) in found {
                let class = format!("scale:{class}");
                *classes.lock().unwrap().entry(class.clone()).or_insert(0) += 1;
                // keep replay files small: the differences can be thousands of records
                if let Some(d) = detail.get_mut("differences") { let sd = d.to_string(); if sd.len() > 4000 { *d = json!(format!("{}...", &sd[..4000])); } }
                let mut v = violations.lock().unwrap();
                if v.len() < 100 {
                    v.push(json!({"kind":"violation","class":class,"leg":"scale","replicas":n,"own_addresses":own,
                        "record":base,"rendering_and_toml_head": head, "toml_bytes": bytes,
                        "messages": match &real { Real::Loaded(run) => json!(run.nmsg), _ => json!(null) },
                        "detail":detail}));
                }
            }
            if scale_samples.len() < 2 && n >= 256 && (bi + scale_samples.len()) % 2 == 0 {
                scale_samples.push(json!({"scaled_base": base["file"], "replicas": n, "own_addresses": own, "toml_bytes": bytes,
                    "result": match &real { Real::Rejected(e) => format!("rejected: {e}"), Real::Loaded(run) => format!("loaded, {} messages, ids distinct: {}", run.nmsg, run.duplicate_ids.is_empty()), Real::Panic(st, m) => format!("panic in {st}: {m}") }}));
            }
        }
    }
    let _ = std::env::set_current_dir("/");
    let _ = std::fs::remove_dir_all(&tmp);
    for v in violations.lock().unwrap().iter() { emit(v); }
    let mut all_samples = samples.lock().unwrap().clone();
    all_samples.extend(scale_samples);
    emit(&json!({"kind":"summary","files": n_files.load(Ordering::SeqCst), "valid_files": n_valid.load(Ordering::SeqCst), "nonempty_files": n_nontrivial.load(Ordering::SeqCst),
        "runs": n_runs.load(Ordering::SeqCst), "messages_dispatched": n_msgs.load(Ordering::SeqCst),
        "deviation_explained": n_dev.load(Ordering::SeqCst), "scale_runs": scale_runs, "scale_max_messages": scale_max_msgs,
        "classes": *classes.lock().unwrap(), "constraint_hits": *constraint_hits.lock().unwrap(), "action_hits": *feature_hits.lock().unwrap(),
        "pair_hits": *pair_hits.lock().unwrap(), "samples": all_samples}));
}
