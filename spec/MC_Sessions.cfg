SPECIFICATION Spec
CONSTANTS
  Max = 3
  Socks = {1, 2, 3, 4, 5}
  Toks = {1, 2, 3, 4}
  Ips = {"i1", "i2"}
  IpOf <- MC_IpOf
  Clusters = {"c1", "c2"}
  Override <- MC_Override
  OverrideC2 = 1
  Limits = {0, 1, 2}
  EvictOn = TRUE
  QT = 1
  Sys = 4
  MaxBack = 2
  PoolCap = 7
  PopAny = FALSE
  CreateMayFail = TRUE
  TlsChoices = {TRUE, FALSE}
  Deviations = {}
  Script <- NoScript
  Gen = "off"
  Depth = 0
INVARIANTS TypeOK P_C16
PROPERTIES P_C16_Admission P_C16_Hysteresis P_C16_PerIpAdmission
CHECK_DEADLOCK FALSE
VIEW View
