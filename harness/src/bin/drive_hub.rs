//! I->S driver for spec/Trace_MasterHub.tla (property C09).
//!
//! Drives a REAL `CommandHub` (see hubkit.rs) with seeded random, free-running schedules - no pacing,
//! no barriers: 1-4 fake workers with random behaviours and delays (ok, failure, silent, close,
//! ok-then-close, duplicate ok, late, processing-then-ok, closed before any request), 1-3 clients
//! sending 1-2 requests each (mutating, rejected, query, load-state), concurrently.
//! One thread per run acts for every client and worker and records ONE ndjson event stream in its own
//! program order: its actions when performed (send / ans / close), its observations when made
//! (crecv / wrecv / hang / end), and `tick` events from the monotonic clock (unit = worker_timeout / T).
//! The runs are written one after the other, separated by `reset` events; Trace_MasterHub.tla decides.
//!
//! Load-state requests name state files of random SHAPES (MasterHub.tla `Files`: well-formed, cut off
//! after k records, damaged from the first record, empty, missing, with records the main state refuses);
//! the `send` event carries the shape. Clients keep reading after a final answer (a second final answer
//! has no explanation in the spec). In half of the runs the hub's loop is PARKED now and then for a few
//! ms (hubkit::Gate) while workers answer / hang up and clients send: the hub then finds several events
//! in one poll turn (a busy main process). One run in six is the "deadline beside a task without
//! deadline" family: a load-state waiting for a silent worker while another client's request waits for
//! the same silent worker and nothing else happens - that request's deadline must still fire.
//!
//! usage: drive_hub --runs N --seed S --threads K --out trace.ndjson [--t 2] [--timeout-s 1] [--slack-ms 3000]
//! stdout: {"kind":"summary",...}

#[path = "../hubkit.rs"]
mod hubkit;

use std::collections::BTreeMap;
use std::io::Write;
use std::sync::atomic::{AtomicUsize, Ordering};
use std::sync::{Arc, Mutex};
use std::time::{Duration, Instant};

use hubkit::*;
use serde_json::{Value, json};
use sozu_command_lib::proto::command::{QueryClusterByDomain, Request, request::RequestType};

struct Rng(u64);
impl Rng {
    fn next(&mut self) -> u64 {
        // splitmix64
        self.0 = self.0.wrapping_add(0x9E3779B97F4A7C15);
        let mut z = self.0;
        z = (z ^ (z >> 30)).wrapping_mul(0xBF58476D1CE4E5B9);
        z = (z ^ (z >> 27)).wrapping_mul(0x94D049BB133111EB);
        z ^ (z >> 31)
    }
    fn below(&mut self, n: u64) -> u64 {
        self.next() % n.max(1)
    }
    fn pick<'a, T>(&mut self, items: &'a [(T, u64)]) -> &'a T {
        let total: u64 = items.iter().map(|x| x.1).sum();
        let mut k = self.below(total);
        for (t, w) in items {
            if k < *w {
                return t;
            }
            k -= *w;
        }
        &items[0].0
    }
    fn delay(&mut self) -> u64 {
        match self.below(4) {
            0 | 1 => 0,
            2 => 1 + self.below(30),
            _ => 50 + self.below(250),
        }
    }
}

#[derive(Clone)]
struct Cfg {
    timeout_s: u32,
    slack_ms: u64,
    t: u64,
    parts: u64,
}

#[derive(Clone, Debug)]
enum Act {
    Send { r: usize },
    Ans { w: usize, r: usize, p: u64, st: &'static str },
    Close { w: usize },
}

struct Run {
    events: Vec<Value>,
    start: Instant,
    unit: Duration,
    next_tick: u32,
}

impl Run {
    fn ticks(&mut self) {
        let now = Instant::now();
        while self.start + self.unit * self.next_tick <= now {
            self.events.push(json!({"ev": "tick"}));
            self.next_tick += 1;
        }
    }
    fn ev(&mut self, v: Value) {
        self.ticks();
        self.events.push(v);
    }
}

fn client_of(r: usize) -> usize {
    (r + 1) / 2 // 1-based request numbers
}

fn one_run(run_no: usize, seed: u64, cfg: &Cfg) -> (Vec<Value>, Value) {
    let mut rng = Rng(seed ^ (run_no as u64).wrapping_mul(0xA24BAED4963EE407));
    let nw = 1 + rng.below(4) as usize;
    let nclients = 1 + rng.below(3) as usize;
    // plan: requests 1..=2*nclients, verb or None
    let verbs: [(&'static str, u64); 4] = [("worker", 40), ("query", 25), ("workerBad", 10), ("load", 25)];
    let mut plan: Vec<Option<&'static str>> = vec![None; 2 * nclients + 1];
    for c in 1..=nclients {
        plan[2 * c - 1] = Some(*rng.pick(&verbs));
        if rng.below(2) == 0 {
            plan[2 * c] = Some(*rng.pick(&verbs));
        }
    }
    let behaviours: [(&'static str, u64); 8] = [
        ("ok", 45),
        ("failure", 14),
        ("silent", 7),
        ("close", 5),
        ("okclose", 4),
        ("dupok", 9),
        ("late", 5),
        ("procok", 11),
    ];
    // script[w][r]
    let mut script: Vec<Vec<(&'static str, u64, u64)>> = Vec::new();
    for _w in 0..nw {
        let mut row = Vec::new();
        for _r in 0..plan.len() {
            row.push((*rng.pick(&behaviours), rng.delay(), rng.delay()));
        }
        script.push(row);
    }
    let preclosed: Vec<bool> = (0..nw).map(|_| rng.below(10) == 0).collect();
    let first_send: Vec<u64> = (0..=nclients).map(|_| rng.below(200)).collect();
    let next_gap: Vec<u64> = (0..=nclients).map(|_| rng.below(100)).collect();
    let variant: Vec<u64> = (0..plan.len()).map(|_| rng.below(2)).collect();
    // state file shapes (only used by the load-state requests)
    let g = || "good".to_string();
    let b = || "bad".to_string();
    let rf = || "refused".to_string();
    let whole: Vec<String> = (0..cfg.parts).map(|_| g()).collect();
    let mut cut_full = whole.clone();
    cut_full.push(b());
    let shapes: Vec<(Vec<String>, u64)> = vec![
        (whole.clone(), 40),
        (vec![g(), b()], 14),                  // a valid record, then damage
        (cut_full, 8),                         // every record valid, a damaged tail
        (vec![b(), g()], 6),                   // damaged from the first record
        (vec![b()], 3),
        (vec![], 6),                           // empty file
        (vec!["missing".to_string()], 5),
        (vec![rf(), g()], 6),                  // a record the main state refuses
        (vec![rf(), rf()], 4),
        (vec![g(), rf(), b()], 8),
    ];
    let mut files: Vec<Vec<String>> = (0..plan.len()).map(|_| rng.pick(&shapes).clone()).collect();
    let flavour: Vec<u64> = (0..plan.len()).map(|_| rng.below(4)).collect();
    let beside = nclients >= 2 && rng.below(6) == 0;
    // (a park wakes the loop: the quiet loop is the whole point of the `beside` family)
    let parky = rng.below(2) == 0 && !beside;
    let mut plan = plan;
    let mut script = script;
    let mut first_send = first_send;
    if beside {
        // a load-state (no deadline) pending on a silent worker; beside it a request with a deadline pending on
        // the same silent worker; everybody else answers at once, then nothing moves any more
        let w = rng.below(nw as u64) as usize;
        plan[1] = Some("load");
        plan[2] = None;
        plan[3] = Some(if rng.below(3) == 0 { "query" } else { "worker" });
        plan[4] = None;
        for c in 3..=nclients {
            plan[2 * c - 1] = Some("workerBad");
            plan[2 * c] = None;
        }
        files[1] = whole.clone();
        for v in 0..nw {
            for r in [1usize, 3] {
                script[v][r] = if v == w { ("silent", 0, 0) } else { ("ok", rng.below(20), 0) };
            }
        }
        first_send[1] = rng.below(30);
        first_send[2] = 40 + rng.below(200);
    }
    let plan = plan;
    let script = script;
    let first_send = first_send;
    let preclosed: Vec<bool> = if beside { vec![false; nw] } else { preclosed };
    let nparts_of = |r: usize| -> u64 { if plan[r] == Some("load") { accepted_records(&files[r]) } else { 1 } };

    let mut events0 = vec![json!({"ev": "reset", "nw": nw, "run": run_no})];
    let hub = match Hub::start(nw, cfg.timeout_s) {
        Ok(h) => h,
        Err(e) => {
            events0.push(json!({"ev": "toolerror", "msg": e}));
            return (events0, json!({"run": run_no, "error": true}));
        }
    };
    let mut hub = hub;
    let timeout = Duration::from_secs(cfg.timeout_s as u64);
    let mut run = Run { events: events0, start: Instant::now(), unit: timeout / cfg.t as u32, next_tick: 1 };
    let mut clients: BTreeMap<usize, ClientChan> = BTreeMap::new();
    let mut eof: BTreeMap<usize, bool> = BTreeMap::new();
    let mut current: BTreeMap<usize, usize> = BTreeMap::new(); // client -> request
    let mut send_time: Vec<Option<Instant>> = vec![None; plan.len()];
    let mut done: Vec<bool> = vec![false; plan.len()]; // final observed or hang declared
    let mut abandoned: Vec<bool> = vec![false; plan.len()]; // will never be sent (predecessor hung / connection lost)
    let mut wgot: Vec<Vec<(u64, u64)>> = vec![Vec::new(); nw];
    let mut ids: Vec<BTreeMap<(u64, u64), String>> = vec![BTreeMap::new(); nw];
    let mut due: Vec<(Instant, u64, Act)> = Vec::new();
    let mut order = 0u64;
    let mut push = |due: &mut Vec<(Instant, u64, Act)>, at: Instant, a: Act| {
        order += 1;
        due.push((at, order, a));
    };
    let t0 = run.start;
    for w in 0..nw {
        if preclosed[w] {
            push(&mut due, t0, Act::Close { w });
        }
    }
    for c in 1..=nclients {
        push(&mut due, t0 + Duration::from_millis(first_send[c]), Act::Send { r: 2 * c - 1 });
    }
    // burst: in a third of the runs one worker hangs up at the very moment a client sends, so that the
    // hang-up races with the scatter (the hub may hold unsent data for that worker when it sees the HUP)
    if !beside && rng.below(3) == 0 {
        let w = rng.below(nw as u64) as usize;
        let c = 1 + rng.below(nclients as u64) as usize;
        push(&mut due, t0 + Duration::from_millis(first_send[c]), Act::Close { w });
    }
    let mut crashed: Option<String> = None;
    let mut parked_until: Option<Instant> = None;
    let mut parks = 0u64;
    let hard_stop = t0 + Duration::from_secs(60);
    loop {
        // 1. observations: clients
        let cs: Vec<usize> = clients.keys().cloned().collect();
        for c in cs {
            loop {
                if *eof.get(&c).unwrap_or(&false) {
                    break;
                }
                let r = current[&c];
                match recv(clients.get_mut(&c).unwrap(), Duration::from_millis(0)) {
                    Recv::Msg(m) => {
                        let st = status_name(m.status);
                        run.ev(json!({"ev": "crecv", "r": r, "st": st}));
                        if st != "processing" && !done[r] {
                            done[r] = true;
                            if r % 2 == 1 && r + 1 < plan.len() && plan[r + 1].is_some() {
                                push(&mut due, Instant::now() + Duration::from_millis(next_gap[c]), Act::Send { r: r + 1 });
                            }
                        }
                    }
                    Recv::Timeout => break,
                    Recv::Eof | Recv::Bad(_) => {
                        eof.insert(c, true);
                        run.ev(json!({"ev": "ceof", "r": r}));
                        done[r] = true;
                        if r % 2 == 1 && r + 1 < plan.len() {
                            abandoned[r + 1] = true;
                        }
                        break;
                    }
                }
            }
        }
        // 2. observations: workers
        for w in 0..nw {
            loop {
                let Some(ch) = hub.workers[w].chan.as_mut() else { break };
                match recv_worker(ch, Duration::from_millis(0)) {
                    Recv::Msg(m) => {
                        let Some((r, p)) = request_tag(&m.content) else { continue };
                        run.ev(json!({"ev": "wrecv", "w": w + 1, "r": r, "p": p}));
                        wgot[w].push((r, p));
                        ids[w].insert((r, p), m.id.clone());
                        let r = r as usize;
                        let nparts = nparts_of(r);
                        let (b, d1, d2) = script[w][r];
                        let now = Instant::now();
                        let at1 = now + Duration::from_millis(d1);
                        let at2 = at1 + Duration::from_millis(d2);
                        if p < nparts {
                            push(&mut due, at1, Act::Ans { w, r, p, st: "ok" });
                            continue;
                        }
                        match b {
                            "ok" => push(&mut due, at1, Act::Ans { w, r, p, st: "ok" }),
                            "failure" => push(&mut due, at1, Act::Ans { w, r, p, st: "failure" }),
                            "silent" => {}
                            "close" => push(&mut due, at1, Act::Close { w }),
                            "okclose" => {
                                push(&mut due, at1, Act::Ans { w, r, p, st: "ok" });
                                push(&mut due, at2, Act::Close { w });
                            }
                            "dupok" => {
                                push(&mut due, at1, Act::Ans { w, r, p, st: "ok" });
                                push(&mut due, at2, Act::Ans { w, r, p, st: "ok" });
                            }
                            "late" => push(
                                &mut due,
                                now + timeout + Duration::from_millis(150 + d1),
                                Act::Ans { w, r, p, st: "ok" },
                            ),
                            _ => {
                                push(&mut due, at1, Act::Ans { w, r, p, st: "processing" });
                                push(&mut due, at2, Act::Ans { w, r, p, st: "ok" });
                            }
                        }
                    }
                    _ => break,
                }
            }
        }
        // 3. hub alive?
        if crashed.is_none() {
            if let Some(f) = hub.finished() {
                let msg = match f {
                    Ok(_) => "run() returned although nobody asked the main process to stop".to_string(),
                    Err(m) => format!("panic: {m}"),
                };
                run.ev(json!({"ev": "crash", "msg": msg}));
                crashed = Some(msg);
            }
        }
        // 4. hangs
        for r in 1..plan.len() {
            if let Some(t) = send_time[r] {
                if !done[r] && t.elapsed() > timeout + Duration::from_millis(cfg.slack_ms) {
                    done[r] = true;
                    if r % 2 == 1 && r + 1 < plan.len() {
                        abandoned[r + 1] = true;
                    }
                    run.ev(json!({"ev": "hang", "r": r}));
                }
            }
        }
        // 4b. park / unpark the hub's loop (parky runs). Never around a deadline: a park may only begin while
        // every pending request is younger than timeout - 300 ms or older than timeout + 400 ms, and lasts
        // at most 40 ms (Trace_MasterHub.tla, T_silent: no answer written long before a deadline is still unread at it)
        if parky && crashed.is_none() {
            let now = Instant::now();
            if let Some(until) = parked_until {
                if now >= until {
                    hub.unpark();
                    parked_until = None;
                }
            } else if rng.below(12) == 0 {
                let safe = (1..plan.len()).all(|r| match send_time[r] {
                    Some(t) if !done[r] => {
                        let age = now.saturating_duration_since(t);
                        age + Duration::from_millis(300) < timeout || age > timeout + Duration::from_millis(400)
                    }
                    _ => true,
                });
                if safe && hub.park().is_ok() {
                    parks += 1;
                    parked_until = Some(Instant::now() + Duration::from_millis(3 + rng.below(38)));
                }
            }
        }
        // 5. due actions
        due.sort_by_key(|x| (x.0, x.1));
        let now = Instant::now();
        let mut k = 0;
        while k < due.len() && due[k].0 <= now {
            k += 1;
        }
        let ready: Vec<(Instant, u64, Act)> = due.drain(..k).collect();
        for (_, _, a) in ready {
            match a {
                Act::Send { r } => {
                    let c = client_of(r);
                    if !clients.contains_key(&c) {
                        match hub.connect() {
                            Ok(ch) => {
                                clients.insert(c, ch);
                            }
                            Err(_) => continue,
                        }
                    }
                    let verb = plan[r].unwrap();
                    let rr = r as u64;
                    let t = match verb {
                        "worker" => add_cluster(rr, 1),
                        "workerBad" => RequestType::RemoveCluster(format!("absent-r{rr}")),
                        "query" => {
                            if variant[r] == 0 {
                                RequestType::QueryClusterById(cluster_name(rr, 1))
                            } else {
                                RequestType::QueryClustersByDomain(QueryClusterByDomain {
                                    hostname: format!("{}.example", cluster_name(rr, 1)),
                                    path: None,
                                })
                            }
                        }
                        _ => RequestType::LoadState(write_state_file_shape(hub.dir(), rr, &files[r], flavour[r])),
                    };
                    current.insert(c, r);
                    if verb == "load" {
                        run.ev(json!({"ev": "send", "r": r, "verb": verb, "file": files[r]}));
                    } else {
                        run.ev(json!({"ev": "send", "r": r, "verb": verb}));
                    }
                    send_time[r] = Some(Instant::now());
                    let _ = clients.get_mut(&c).unwrap().write_message(&Request { request_type: Some(t) });
                }
                Act::Ans { w, r, p, st } => {
                    if hub.workers[w].chan.is_none() {
                        continue;
                    }
                    let id = ids[w][&(r as u64, p)].clone();
                    let msg = format!("r{r}p{p}-w{}-{st}", w + 1);
                    let _ = hub.workers[w].chan.as_mut().unwrap().write_message(&worker_response(&id, st, &msg));
                    // recorded after the write returned (see Trace_MasterHub.tla, T_silent)
                    run.ev(json!({"ev": "ans", "w": w + 1, "r": r, "p": p, "st": st}));
                }
                Act::Close { w } => {
                    if hub.workers[w].chan.is_none() {
                        continue;
                    }
                    hub.close_worker(w);
                    run.ev(json!({"ev": "close", "w": w + 1}));
                }
            }
        }
        // 6. done?
        let all_sent_done = (1..plan.len()).all(|r| plan[r].is_none() || done[r] || abandoned[r]);
        if (all_sent_done && due.is_empty()) || crashed.is_some() || Instant::now() > hard_stop {
            break;
        }
        run.ticks();
        std::thread::sleep(Duration::from_millis(2));
    }
    if parked_until.is_some() {
        hub.unpark();
    }
    // end of run: let the hub go idle (two ListWorkers round trips), observe what is left, record the end state
    let mut wstate: Vec<String> = Vec::new();
    let mut alive = crashed.is_none();
    if alive {
        match hub.connect() {
            Ok(mut ctl) => {
                for _ in 0..2 {
                    let _ = ctl.write_message(&list_workers_request());
                    match recv(&mut ctl, Duration::from_secs(10)) {
                        Recv::Msg(m) => {
                            if let Some(v) = run_states(&m) {
                                wstate = v.iter().map(|x| x.1.to_string()).collect();
                            }
                        }
                        _ => {
                            alive = false;
                            break;
                        }
                    }
                }
            }
            Err(_) => alive = false,
        }
    }
    if alive {
        let cs: Vec<usize> = clients.keys().cloned().collect();
        for c in cs {
            while let Recv::Msg(m) = recv(clients.get_mut(&c).unwrap(), Duration::from_millis(0)) {
                run.ev(json!({"ev": "crecv", "r": current[&c], "st": status_name(m.status)}));
            }
        }
        for w in 0..nw {
            while let Some(ch) = hub.workers[w].chan.as_mut() {
                match recv_worker(ch, Duration::from_millis(0)) {
                    Recv::Msg(m) => {
                        if let Some((r, p)) = request_tag(&m.content) {
                            run.ev(json!({"ev": "wrecv", "w": w + 1, "r": r, "p": p}));
                            wgot[w].push((r, p));
                        }
                    }
                    _ => break,
                }
            }
        }
        let wreq: Vec<Vec<Vec<u64>>> = wgot.iter().map(|v| v.iter().map(|t| vec![t.0, t.1]).collect()).collect();
        run.ev(json!({"ev": "end", "nw": nw, "wstate": wstate, "wreq": wreq}));
    } else if crashed.is_none() {
        let fate = hub.finished();
        run.ev(json!({"ev": "crash", "msg": format!("the hub does not answer ListWorkers at the end of the run: {fate:?}")}));
    }
    let nev = run.events.len();
    let hangs = run.events.iter().filter(|e| e["ev"] == "hang").count();
    let events = std::mem::take(&mut run.events);
    drop(clients);
    let fate = hub.teardown(Duration::from_secs(4));
    let info = json!({"run": run_no, "nw": nw, "clients": nclients, "events": nev, "hangs": hangs,
                      "plan": plan.iter().skip(1).map(|v| v.unwrap_or("-")).collect::<Vec<_>>(),
                      "files": (1..plan.len()).map(|r| if plan[r] == Some("load") { json!(files[r]) } else { Value::Null }).collect::<Vec<_>>(),
                      "parks": parks, "beside": beside,
                      "crashed": crashed, "teardown": format!("{fate:?}")});
    (events, info)
}

fn main() {
    vh::util::quiet_panics();
    let args: Vec<String> = std::env::args().collect();
    let mut cfg = Cfg { timeout_s: 1, slack_ms: 3000, t: 2, parts: 2 };
    let (mut runs, mut seed, mut threads, mut out) = (16usize, 1u64, 16usize, String::from("trace.ndjson"));
    let mut i = 1;
    while i + 1 < args.len() {
        let v = &args[i + 1];
        match args[i].as_str() {
            "--runs" => runs = v.parse().unwrap(),
            "--seed" => seed = v.parse().unwrap(),
            "--threads" => threads = v.parse().unwrap(),
            "--out" => out = v.clone(),
            "--t" => cfg.t = v.parse().unwrap(),
            "--timeout-s" => cfg.timeout_s = v.parse().unwrap(),
            "--slack-ms" => cfg.slack_ms = v.parse().unwrap(),
            "--parts" => cfg.parts = v.parse().unwrap(),
            _ => {}
        }
        i += 2;
    }
    let results: Arc<Mutex<BTreeMap<usize, (Vec<Value>, Value)>>> = Arc::new(Mutex::new(BTreeMap::new()));
    let next = Arc::new(AtomicUsize::new(0));
    let t0 = Instant::now();
    let mut hs = Vec::new();
    for _ in 0..threads.min(runs.max(1)) {
        let results = results.clone();
        let next = next.clone();
        let cfg = cfg.clone();
        hs.push(std::thread::Builder::new().stack_size(4 << 20).spawn(move || loop {
            let k = next.fetch_add(1, Ordering::SeqCst);
            if k >= runs {
                break;
            }
            let r = one_run(k, seed, &cfg);
            results.lock().unwrap().insert(k, r);
        }).unwrap());
    }
    for h in hs {
        let _ = h.join();
    }
    let res = results.lock().unwrap();
    let mut f = std::io::BufWriter::new(std::fs::File::create(&out).expect("trace file"));
    let mut total = 0usize;
    let mut infos = Vec::new();
    let mut starts = Vec::new();
    for (_, (evs, info)) in res.iter() {
        starts.push(total + 1);
        for e in evs {
            writeln!(f, "{}", e).unwrap();
            total += 1;
        }
        infos.push(info.clone());
    }
    f.flush().unwrap();
    vh::util::emit(&json!({"kind": "summary", "runs": runs, "events": total, "wall_ms": t0.elapsed().as_millis() as u64,
                           "run_starts": starts, "infos": infos}));
}
