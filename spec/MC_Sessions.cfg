\* Admission instance of Sessions (what tools/props/c16.py generates as mc_adm.cfg in the thorough tier);
\* the other instances (per-IP, slab gate, liveness, generators) are written by c16.py into .work/C16.
SPECIFICATION Spec
CONSTANTS
  Max = 3
  Socks = {1, 2, 3, 4, 5}
  Toks = {1, 2, 3, 4}
  Ips = {"i1"}
  IpOf <- MC_IpOf1
  Clusters = {"c1"}
  Override <- MC_Override
  OverrideC2 = 1
  OvrValues = {}
  Limits = {0}
  EvictOn = TRUE
  QT = 1
  Sys = 4
  MaxBack = 1
  PoolCap = 7
  TlsChoices = {TRUE, FALSE}
  CreateMayFail = TRUE
  PopAny = FALSE
  Deviations = {}
  Script <- NoScript
  Gen = "off"
  Depth = 0
INVARIANTS TypeOK P_C16
PROPERTIES P_C16_Admission P_C16_Hysteresis P_C16_PerIpAdmission
CHECK_DEADLOCK FALSE
VIEW View
