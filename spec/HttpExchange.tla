--------------------------- MODULE HttpExchange ---------------------------
(***************************************************************************)
(* C02 - every received request gets exactly one well-formed answer.       *)
(*                                                                         *)
(* One frontend connection (HTTP/1.1 keep-alive / pipelined, or HTTP/2     *)
(* streams) carrying up to NReq requests through sozu's mux                *)
(* (lib/src/protocol/mux) towards scripted backends.  One action per       *)
(* run-to-completion step of the code:                                     *)
(*   Route      Router::route_from_request  (mod.rs connect-error mapping) *)
(*   Connect    Router::connect             (retry budget, pool reuse)     *)
(*   ConnectFail  dead Connecting backend -> end_stream -> Reconnect       *)
(*   Relay      backend readable + frontend writable                       *)
(*   EndStream  shared.rs end_stream_decision (forward / 502 / retry /     *)
(*              close-delimited / forced termination)                      *)
(*   BackTimeout / FrontTimeout   Mux::timeout arms (504 / 408 / forced)   *)
(* The backend and the client are environment processes (C_x and B_x), time *)
(* is a Tick of half a second against the listener's timeouts.             *)
(*                                                                         *)
(* A behaviour starts by choosing a FAULT SCENARIO (protocol pair, mode,   *)
(* per request: routing outcome, framing, fault kind, abstract offset);    *)
(* TLC explores every interleaving of sozu, peers and time for it.  The    *)
(* same module is the model checked for P_C02 and the generator/oracle of  *)
(* harness/src/bin/replay_exchange.rs (Emit = TRUE prints, for every       *)
(* terminal state, the scenario and the outcome of every request).         *)
(***************************************************************************)
EXTENDS Naturals, Sequences, FiniteSets, TLC, Json

CONSTANTS
  Fronts,      \* subset of {"h1","h2"}
  Backs,       \* subset of {"h1","h2"}
  NReq,        \* 1 or 2
  Framings,    \* subset of {"cl","chunked","close","clclose"}  ("chunked" on an h2c backend = no content-length;
               \* "clclose" = Content-Length AND Connection: close: framed, and the backend closes behind it)
  Siblings,    \* what the second request may be: subset of SiblingKinds
  Faults,      \* subset of FaultPoints (as <<kind, at>>)
  Timings,     \* subset of {"bf","ff"}
  Deviations,  \* names of known deviations of the code switched on (none open at present)
  Emit         \* TRUE = generator: print one REPLAY line per terminal state

\* Two listener configurations (a Tick is half a second):
\*   "bf" back first : back_timeout 1 s, front_timeout 2 s  -> the backend-token arms of Mux::timeout decide
\*   "ff" front first: front_timeout 1 s, back_timeout 2 s  -> the frontend-token arms decide
RT == 2        \* request_timeout 1 s in both
MaxRetries == 3   \* CONN_RETRIES, lib/src/server.rs

Reqs == 1..NReq
Budget == NReq * 6 + 1

SiblingKinds == {"b", "bdrip", "a", "noroute", "deny", "redirect", "nobackend", "iplimit", "wrongcert"}
FaultKinds == {"none", "refuse", "close", "reset", "garbage", "stall", "connstall", "rststream", "goaway"}
\* Further dimensions of a request's script (hole C02-12/22, cross findings 7 and 8):
\*   interim  none | sep | same   a 103 Early Hints before the final response, in a segment of its own or in the
\*                                same segment as the head of the final response
\*   lsid     na | below | equal | above   fault "goaway" = graceful GOAWAY(NO_ERROR) of an h2c backend at a point of
\*                                the stream's life; last_stream_id below the stream (it will NOT be processed) or
\*                                equal / above (it WILL be: RFC 9113 6.8)
\*   pace     fast | drip | split  split: the fault arrives in a read of its own, after sozu has handled the bytes
\*                                before it (fast: possibly in the same read)
\*   gap      none | long          mode "newconn" (every request on a frontend connection of its own): the client
\*                                waits GapTicks (longer than any back-off) before it sends the request
GapTicks == 4
BackoffTicks == 2   \* retry.rs: 1 s after a failed connect
Ats == {"none", "accept", "prehdr", "midhdr", "posthdr", "midbody", "between"}

\* progress of a response: 0 nothing, 1 part of the head, 2 whole head, 3 part of the body, 4 complete
Level(at) == CASE at = "accept"  -> 0
               [] at = "prehdr"  -> 0
               [] at = "midhdr"  -> 1
               [] at = "posthdr" -> 2
               [] at = "midbody" -> 3
               [] at = "between" -> 4
               [] OTHER          -> 5

StatusOfRoute(rt) == CASE rt = "noroute"   -> "404"
                       [] rt = "deny"      -> "401"
                       [] rt = "wrongcert" -> "421"
                       [] rt = "iplimit"   -> "429"
                       [] rt = "redirect"  -> "301"
                       [] OTHER            -> "none"

\* the cause table of the property statement (plus the two the code adds: 301 redirect, 200 relayed)
Prescribed(c) == CASE c = "noroute"        -> "404"
                   [] c = "deny"           -> "401"
                   [] c = "wrongcert"      -> "421"
                   [] c = "iplimit"        -> "429"
                   [] c = "redirect"       -> "301"
                   [] c = "nobackend"      -> "503"
                   [] c = "refused"        -> "503"
                   [] c = "backoff"        -> "503"
                   [] c = "closedEarly"    -> "502"
                   [] c = "backendTimeout" -> "504"
                   [] c = "clientTimeout"  -> "408"
                   [] c = "backend"        -> "200"
                   [] OTHER                -> "none"

VARIABLES
  sc,        \* [front, back, mode, nbk, timing]                               scenario, constant along a behaviour
  rq,        \* [Reqs -> [route, framing, fault, at, pace]]              scenario
  phase,     \* unsent receiving received link linked respStarted aborting done aborted
  answer,    \* "none" or the status of the one answer of the request
  cause,     \* why sozu produced that answer
  attempts,  \* Stream.attempts
  tried,     \* backends this request was refused by
  link,      \* backend the request is linked to ("none")
  bprog,     \* what the backend has emitted of the response
  cprog,     \* what the client has received of it
  fdone,     \* the scripted fault of the request has been injected
  stalled,   \* the backend will send nothing more for this request
  dead,      \* "no" | "close" | "reset" | "garbage" | "rst": the backend side of the request is gone, sozu not yet reacted
  hit,       \* ghost: what the environment did to the request before any answer ("none","refused","early","stall")
  fconn,     \* frontend connection: open | draining (HTTP/2 after a default answer) | closed
             \* | halfclosed (HTTP/1: the client was told Connection: close and sends nothing more; sozu still serves)
  pool,      \* [Backend -> none | up | peerclosed | mute]  reusable connection (HTTP/1 keep-alive or the shared h2c connection)
  bclock, fclock, wait, elapsed,
  actor,     \* ghost: the request whose step this was (0 = connection / time)
  istate,    \* interim response of r: "no" (none / not yet emitted) | "sent" (emitted, sozu has not handled it) | "fwd"
  bup,       \* the scripted backend B1 listens (FALSE while it refuses connections)
  boff,      \* ticks of back-off left on B1 (retry.rs: a failed connect makes the backend unavailable for a while)
  bfail,     \* ghost: a connect to B1 failed since the last one that succeeded
  idle       \* mode newconn: ticks since the client's previous request finished (saturates at GapTicks)

iv == <<istate>>
rv == <<bup, boff, bfail, idle>>
vars == <<sc, rq, phase, answer, cause, attempts, tried, link, bprog, cprog, fdone, stalled, dead, hit,
          fconn, pool, bclock, fclock, wait, elapsed, actor, istate, bup, boff, bfail, idle>>

Backends == {"B1", "B2", "B3", "B4"}
BT == IF sc.timing = "ff" THEN 4 ELSE 2
FT == IF sc.timing = "ff" THEN 2 ELSE 4

Finished(r) == phase[r] \in {"done", "aborted"}
Active(r) == phase[r] \in {"linked", "respStarted"}
ClusterOf(r) == IF rq[r].route = "a" THEN (IF sc.nbk = 2 THEN {"B1", "B3"} ELSE {"B1"})
                ELSE IF rq[r].route = "b" THEN {"B2"}
                ELSE IF rq[r].route = "iplimit" THEN {"B4"} ELSE {}
Refusing(b) == b = "B1" /\ ~bup
BackCloses(r) == rq[r].framing \in {"close", "clclose"} /\ sc.back = "h1"
\* a backend that listens but never accepts / never reads: every connection to it is mute
Mute(b) == b = "B1" /\ \E q \in Reqs : rq[q].route = "a" /\ rq[q].fault = "stall" /\ rq[q].at = "accept"
\* the script of a request only runs on the scripted backend
EffFault(r) == IF link[r] = "B1" THEN rq[r].fault ELSE "none"
EffAt(r) == IF link[r] = "B1" THEN rq[r].at ELSE "none"
\* requests sharing the backend connection of r (an h2c connection is shared, HTTP/1 connections are not)
Victims(r) == IF sc.back = "h2" THEN {q \in Reqs : Active(q) /\ link[q] = link[r]} ELSE {r}
\* HTTP/1 serves one request at a time, HTTP/2 streams are independent
AtHead(r) == sc.front = "h2" \/ \A q \in 1..(r - 1) : Finished(q)

-----------------------------------------------------------------------------
(* scenarios *)

Base == [route |-> "a", framing |-> "cl", fault |-> "none", at |-> "none", pace |-> "fast", interim |-> "none", lsid |-> "na", gap |-> "none"]
Primary(f, fr) == [Base EXCEPT !.framing = fr, !.fault = f[1], !.at = f[2]]
Sibling(k) == [Base EXCEPT !.route = IF k = "bdrip" THEN "b" ELSE k, !.pace = IF k = "bdrip" THEN "drip" ELSE "fast"]

OkScenario(s, q) ==
  /\ s.mode \in (IF NReq = 1 THEN {"seq"} ELSE IF NReq = 3 THEN {"newconn"} ELSE IF s.front = "h1" THEN {"seq", "pipe"} ELSE {"seq", "mux"})
  /\ \A r \in Reqs :
       /\ q[r].route = "wrongcert" => s.front = "h2"
       /\ q[r].framing \in {"close", "clclose"} => s.back = "h1"
       /\ q[r].fault = "goaway" => s.back = "h2"
       \* a GOAWAY naming one stream also speaks about the others on the connection: with a second stream on it
       \* only the "everything will be processed" form is scripted
       /\ (q[r].fault = "goaway" /\ s.mode \in {"pipe", "mux"} /\ \E p \in Reqs : p # r /\ q[p].route = "a") => q[r].lsid = "above"
       /\ q[r].fault = "rststream" => s.back = "h2"
       /\ q[r].fault = "connstall" => (s.back = "h2" /\ q[r].at \in {"midhdr", "midbody"} /\ \E p \in Reqs : p # r /\ q[p].route = "a")
       \* on an h2c connection a stall inside a frame silences the whole connection (that is "connstall")
       /\ (q[r].fault = "stall" /\ s.back = "h2" /\ \E p \in Reqs : p # r /\ q[p].route = "a") => q[r].at # "midhdr"
       /\ q[r].fault = "refuse" => q[r].at = "accept"
       /\ (q[r].fault # "none") <=> (q[r].at # "none")
       /\ q[r].at = "accept" => q[r].fault \in {"refuse", "stall"}
       /\ q[r].fault = "garbage" /\ q[r].at \in {"posthdr", "midbody"} => (q[r].framing = "chunked" /\ s.back = "h1")
  /\ s.nbk = 2 => (NReq = 1 /\ q[1].fault \in {"refuse", "close", "stall"} /\ q[1].at \in {"accept", "prehdr"} /\ q[1].pace = "fast")

\* built constructively (the record-set comprehension above would be astronomically large)
ScenarioSet ==
  LET Shapes == [front : Fronts, back : Backs, mode : {"seq", "pipe", "mux", "newconn"}, nbk : {1, 2}, timing : Timings]
      Plain == {f \in Faults : f[1] # "goaway"}
      \* graceful GOAWAY: before HEADERS (below / equal / above), between HEADERS and DATA, after the answer
      Gw == {[Primary(f, fr) EXCEPT !.lsid = l, !.pace = p] : f \in {g \in Faults : g[1] = "goaway"}, fr \in Framings \cap {"cl", "chunked"},
                                                           l \in {"below", "equal", "above"}, p \in {"fast", "split"}}
      GwOk == {x \in Gw : x.lsid = "below" => x.at = "prehdr"}
      \* the pacing dimension of close / reset: in a read of its own, or (fast) possibly with the bytes before it
      Split == {[Primary(f, fr) EXCEPT !.pace = "split"] : f \in {g \in Plain : g[1] \in {"close", "reset"} /\ g[2] \in {"midhdr", "posthdr", "midbody"}}, fr \in Framings}
      \* interim responses before the final one
      \* (framed, kept-alive responses only: while InterimSwallowsFinal is open, a close right behind a swallowed
      \* final response is the interplay of two defects)
      Interim == {[Primary(<<"none", "none">>, fr) EXCEPT !.interim = i] : fr \in Framings \cap {"cl", "chunked"}, i \in {"sep", "same"}}
      Prim == {Primary(f, fr) : f \in Plain, fr \in Framings}
               \cup {[Base EXCEPT !.framing = fr, !.pace = "drip"] : fr \in Framings}
               \cup GwOk \cup Split \cup Interim
               \cup (IF NReq = 1 THEN {Sibling(k) : k \in Siblings \ {"a", "b", "bdrip"}}
                                        \cup {[Base EXCEPT !.route = "partial"]}
                     ELSE {})
      Sibs == {Sibling(k) : k \in Siblings}
      \* recovery sequences (three requests, each on a connection of its own): the backend refuses the first one,
      \* recovers, and the later ones arrive after the back-off or right behind their predecessor
      Rec == {<<Primary(<<"refuse", "accept">>, "cl"), [Base EXCEPT !.gap = g2], [Base EXCEPT !.gap = g3]>> :
                 g2 \in {"none", "long"}, g3 \in {"none", "long"}}
      Q == IF NReq = 1 THEN {<<p>> : p \in Prim}
           ELSE IF NReq = 3 THEN Rec
           ELSE {<<p, s>> : p \in Prim, s \in Sibs} \cup {<<s, p>> : p \in Prim, s \in Sibs}
  IN {<<s, q>> \in Shapes \X Q : OkScenario(s, q)}

Init ==
  /\ \E x \in ScenarioSet : sc = x[1] /\ rq = x[2]
  /\ phase = [r \in Reqs |-> "unsent"]
  /\ answer = [r \in Reqs |-> "none"]
  /\ cause = [r \in Reqs |-> "none"]
  /\ attempts = [r \in Reqs |-> 0]
  /\ tried = [r \in Reqs |-> {}]
  /\ link = [r \in Reqs |-> "none"]
  /\ bprog = [r \in Reqs |-> 0]
  /\ cprog = [r \in Reqs |-> 0]
  /\ fdone = [r \in Reqs |-> FALSE]
  /\ stalled = [r \in Reqs |-> FALSE]
  /\ dead = [r \in Reqs |-> "no"]
  /\ hit = [r \in Reqs |-> "none"]
  /\ fconn = "open"
  /\ pool = [b \in Backends |-> "none"]
  /\ bclock = [r \in Reqs |-> 0]
  /\ fclock = 0
  /\ wait = [r \in Reqs |-> 0]
  /\ elapsed = [r \in Reqs |-> 0]
  /\ actor = 0
  /\ istate = [r \in Reqs |-> "no"]
  /\ bup = ~(\E q \in Reqs : rq[q].route = "a" /\ rq[q].fault = "refuse")
  /\ boff = 0
  /\ bfail = FALSE
  /\ idle = 0

-----------------------------------------------------------------------------
(* helpers producing primed values *)

\* closing the frontend connection is the one explicit connection-level abort: whatever is not finished is cut
CutAll(ph) == [q \in Reqs |-> IF ph[q] \in {"unsent", "done", "aborted"} THEN ph[q] ELSE "aborted"]
CutCause(ph, cs) == [q \in Reqs |-> IF ph[q] \in {"unsent", "done", "aborted"} THEN cs[q] ELSE "connclosed"]

\* a proxy-generated answer: written at once, carries Connection: close.
\* HTTP/1: the connection closes behind it. HTTP/2: graceful GOAWAY (streams in flight finish, no new ones).
Default(r, code, c) ==
  LET ph == [phase EXCEPT ![r] = "done"] IN
  /\ answer' = [answer EXCEPT ![r] = code]
  /\ cause' = IF sc.front = "h1" THEN CutCause(ph, [cause EXCEPT ![r] = c]) ELSE [cause EXCEPT ![r] = c]
  /\ phase' = IF sc.front = "h1" THEN CutAll(ph) ELSE ph
  /\ link' = [link EXCEPT ![r] = "none"]
  /\ fconn' = IF sc.front = "h1" THEN "closed" ELSE IF fconn = "closed" THEN "closed" ELSE "draining"
  /\ fclock' = 0
  /\ actor' = r

\* forced termination (forcefully_terminate_answer): HTTP/2 -> RST_STREAM now; HTTP/1 -> nothing more is
\* written and the connection is closed by the next frontend timeout
Abort(r) ==
  /\ phase' = [phase EXCEPT ![r] = IF sc.front = "h2" THEN "aborted" ELSE "aborting"]
  /\ cause' = [cause EXCEPT ![r] = IF answer[r] = "none" THEN "aborted" ELSE cause[r]]
  /\ link' = [link EXCEPT ![r] = "none"]
  /\ actor' = r

-----------------------------------------------------------------------------
(* client *)

SeqGate(r) == sc.mode = "seq" => \A q \in 1..(r - 1) : Finished(q)

C_Send(r) ==
  /\ phase[r] = "unsent"
  /\ \A q \in 1..(r - 1) : phase[q] # "unsent"
  /\ SeqGate(r)
  \* seq: the client waits until sozu has seen a close of the idle backend connection (harness mode seqgap)
  /\ (sc.mode = "seq" /\ r > 1) => \A b \in Backends : pool[b] # "peerclosed"
  /\ IF sc.mode = "newconn"
       THEN \* a connection of its own (backend connections belong to the session: none is inherited), after the
            \* refusing backend has recovered and, with gap = long, after more than any back-off
            /\ r > 1 => (bup /\ (rq[r].gap = "long" => idle >= GapTicks))
            /\ phase' = [phase EXCEPT ![r] = "received"]
            /\ cause' = cause
            /\ fconn' = "open"
            /\ pool' = [b \in Backends |-> "none"]
       ELSE /\ IF fconn = "open"
                 THEN /\ phase' = [phase EXCEPT ![r] = IF rq[r].route = "partial" THEN "receiving" ELSE "received"]
                      /\ cause' = cause
                 ELSE /\ phase' = [phase EXCEPT ![r] = "aborted"]     \* connection closed / GOAWAY: not received
                      /\ cause' = [cause EXCEPT ![r] = "connclosed"]
            /\ UNCHANGED <<fconn, pool>>
  /\ fclock' = 0
  /\ idle' = 0
  /\ actor' = r
  /\ UNCHANGED <<sc, rq, answer, attempts, tried, link, bprog, cprog, fdone, stalled, dead, hit, bclock, wait, elapsed, istate, bup, boff, bfail>>

\* pipelined / multiplexed: both requests leave the client back to back
C_SendAll ==
  /\ sc.mode \in {"pipe", "mux"}
  /\ \A r \in Reqs : phase[r] = "unsent"
  /\ fconn = "open"
  /\ phase' = [r \in Reqs |-> IF rq[r].route = "partial" THEN "receiving" ELSE "received"]
  /\ fclock' = 0
  /\ actor' = 0
  /\ UNCHANGED <<sc, rq, answer, cause, attempts, tried, link, bprog, cprog, fdone, stalled, dead, hit, fconn, pool, bclock, wait, elapsed, iv, rv>>

-----------------------------------------------------------------------------
(* sozu *)

Route(r) ==
  /\ phase[r] = "received" /\ AtHead(r) /\ fconn # "closed"
  /\ IF rq[r].route \in {"a", "b", "nobackend"} \/ (rq[r].route = "iplimit" /\ "IpLimitIgnored" \in Deviations)
       THEN /\ phase' = [phase EXCEPT ![r] = "link"]
            /\ actor' = r
            /\ UNCHANGED <<answer, cause, link, fconn, fclock>>
       ELSE Default(r, StatusOfRoute(rq[r].route), rq[r].route)
  /\ UNCHANGED <<sc, rq, attempts, tried, bprog, cprog, fdone, stalled, dead, hit, pool, bclock, wait, elapsed, iv, rv>>

\* backends.rs: a backend in back-off is not eligible (can_open)
Avail(r) == {b \in ClusterOf(r) : b # "B1" \/ boff = 0}

Connect(r) ==
  /\ phase[r] = "link" /\ fconn # "closed"
  /\ IF ClusterOf(r) = {}
       THEN /\ Default(r, "503", "nobackend")
            /\ UNCHANGED <<attempts, tried, pool, bclock, dead, hit, stalled, boff, bfail>>
     ELSE IF attempts[r] >= MaxRetries
       THEN /\ Default(r, "503", "refused")
            /\ UNCHANGED <<attempts, tried, pool, bclock, dead, hit, stalled, boff, bfail>>
     ELSE IF Avail(r) = {}
       THEN \* every backend of the cluster is in back-off: no usable backend
            /\ Default(r, "503", IF "B1" \in tried[r] THEN "refused" ELSE "backoff")
            \* (ghost) the window is there because a connect really failed and none succeeded since
            /\ hit' = [hit EXCEPT ![r] = IF "B1" \notin tried[r] /\ bfail THEN "backoff" ELSE @]
            /\ UNCHANGED <<attempts, tried, pool, bclock, dead, stalled, boff, bfail>>
     ELSE \E b \in (IF Avail(r) \ tried[r] = {} THEN Avail(r) ELSE Avail(r) \ tried[r]) :
            \* retry.rs succeed(): an established connection clears the back-off
            \* (deviation BackoffNotReset - the seeded defect C02-12 - keeps the stale window and re-arms it)
            /\ IF b = "B1" /\ ~Refusing(b)
                 THEN /\ boff' = IF "BackoffNotReset" \in Deviations /\ bfail THEN BackoffTicks ELSE 0
                      /\ bfail' = FALSE
                 ELSE UNCHANGED <<boff, bfail>>
            /\ attempts' = [attempts EXCEPT ![r] = @ + 1]
            /\ link' = [link EXCEPT ![r] = b]
            /\ phase' = [phase EXCEPT ![r] = "linked"]
            /\ bclock' = [bclock EXCEPT ![r] = 0]
            \* a pooled connection the backend has already closed may still be picked: the request is written
            \* into it and lost (502), or sozu has noticed and dials afresh
            /\ \/ /\ pool[b] = "peerclosed"
                  /\ dead' = [dead EXCEPT ![r] = "close"]
                  /\ hit' = [hit EXCEPT ![r] = "early"]
                  /\ pool' = [pool EXCEPT ![b] = "none"]
               \/ /\ dead' = dead
                  /\ hit' = [hit EXCEPT ![r] = IF Mute(b) \/ pool[b] = "mute" THEN "stall" ELSE @]
                  /\ pool' = [pool EXCEPT ![b] = IF @ = "peerclosed" THEN "none" ELSE @]
            /\ stalled' = [stalled EXCEPT ![r] = pool[b] = "mute"]
            /\ actor' = r
            /\ UNCHANGED <<answer, cause, fconn, fclock, tried>>
  /\ UNCHANGED <<sc, rq, bprog, cprog, fdone, wait, elapsed, istate, bup, idle>>

\* connection refused: nothing of the request was written, the stream goes back to Link (Reconnect)
ConnectFail(r) ==
  /\ phase[r] = "linked" /\ Refusing(link[r])
  /\ phase' = [phase EXCEPT ![r] = "link"]
  /\ tried' = [tried EXCEPT ![r] = @ \cup {link[r]}]
  /\ link' = [link EXCEPT ![r] = "none"]
  /\ hit' = [hit EXCEPT ![r] = "refused"]
  \* retry.rs fail(): the backend is unavailable for a second (a failure inside the window changes nothing)
  \* (observed: only a failed connect to an HTTP/1 backend arms the window; after a refused h2c connect the
  \* backend is offered again at once)
  /\ boff' = IF link[r] = "B1" /\ boff = 0 /\ sc.back = "h1" THEN BackoffTicks ELSE boff
  /\ bfail' = (bfail \/ link[r] = "B1")
  /\ actor' = r
  /\ UNCHANGED <<sc, rq, answer, cause, attempts, bprog, cprog, fdone, stalled, dead, fconn, pool, bclock, fclock, wait, elapsed, istate, bup, idle>>

\* what completing a relayed response does to the connections
AfterComplete(r, ph) ==
  LET b == link[r]
      closeDelim == rq[r].framing = "close" /\ sc.back = "h1"
      \* an unframed body reaches an HTTP/1 client: only closing the connection ends it
      closeFront == closeDelim /\ sc.front = "h1" /\ ~("KeepAliveAfterCloseDelimited" \in Deviations)
      \* a framed response that says Connection: close is relayed with that header: sozu keeps serving what it
      \* already received on the connection (pipelined requests), the client sends nothing more on it
      clientStops == rq[r].framing = "clclose" /\ sc.back = "h1" /\ sc.front = "h1"
      \* (fixed defect) kept alive, the client keeps waiting for the end of the unframed body ...
      lingering == closeDelim /\ sc.front = "h1" /\ "KeepAliveAfterCloseDelimited" \in Deviations
  IN /\ pool' = [pool EXCEPT ![b] = IF BackCloses(r) THEN "none" ELSE IF @ = "mute" THEN @ ELSE "up"]
     /\ fconn' = IF closeFront THEN "closed" ELSE IF clientStops /\ fconn = "open" THEN "halfclosed" ELSE fconn
     /\ phase' = IF closeFront THEN CutAll(ph) ELSE IF lingering THEN [ph EXCEPT ![r] = "respStarted"] ELSE ph
     /\ cause' = IF closeFront THEN CutCause(ph, [cause EXCEPT ![r] = "backend"]) ELSE [cause EXCEPT ![r] = "backend"]

\* an interim (1xx) response is forwarded; it is not the answer, the final response follows on the same exchange
RelayInterim(r) ==
  /\ Active(r) /\ dead[r] = "no" /\ istate[r] = "sent"
  /\ istate' = [istate EXCEPT ![r] = "fwd"]
  /\ bclock' = [bclock EXCEPT ![r] = 0]
  /\ fclock' = 0
  /\ actor' = r
  \* (open finding InterimSwallowsFinal) HTTP/1 backend: what arrived behind the interim response in the same
  \* buffer is thrown away with it - the final response is never seen, the exchange waits for the backend timeout
  /\ IF "InterimSwallowsFinal" \in Deviations /\ sc.back = "h1" /\ bprog[r] > 0
       THEN /\ bprog' = [bprog EXCEPT ![r] = 0]
            /\ stalled' = [stalled EXCEPT ![r] = TRUE]
       ELSE UNCHANGED <<bprog, stalled>>
  /\ UNCHANGED <<sc, rq, phase, answer, cause, attempts, tried, link, cprog, fdone, dead, hit, fconn, pool, wait, elapsed, rv>>

Relay(r) ==
  /\ Active(r) /\ dead[r] = "no" /\ istate[r] # "sent"
  /\ bprog[r] >= 2 /\ cprog[r] < bprog[r]
  /\ IF "InterimOnH2BackendAborts" \in Deviations /\ sc.back = "h2" /\ rq[r].interim # "none" /\ link[r] = "B1"
       THEN \* (open finding) the final HEADERS of an h2c backend that follow a 1xx HEADERS are refused: the stream is
            \* aborted and the backend connection goes down with it (a connection error): the other streams on it
            \* lose their backend
            /\ Abort(r)
            /\ fclock' = 0
            /\ dead' = [q \in Reqs |-> IF q \in Victims(r) \ {r} THEN "close" ELSE dead[q]]
            /\ hit' = [q \in Reqs |-> IF q \in Victims(r) \ {r} /\ cprog[q] = 0 /\ answer[q] = "none" THEN "early" ELSE hit[q]]
            /\ pool' = [pool EXCEPT ![link[r]] = "none"]
            /\ UNCHANGED <<cprog, answer, bclock, fconn>>
       ELSE /\ cprog' = [cprog EXCEPT ![r] = bprog[r]]
            /\ answer' = [answer EXCEPT ![r] = "200"]
            /\ bclock' = [bclock EXCEPT ![r] = 0]
            /\ fclock' = 0
            /\ actor' = r
            /\ IF bprog[r] = 4
                 THEN /\ AfterComplete(r, [phase EXCEPT ![r] = "done"])
                      /\ link' = link     \* kept as ghost: which backend served it
                 ELSE /\ phase' = [phase EXCEPT ![r] = "respStarted"]
                      /\ cause' = [cause EXCEPT ![r] = "backend"]
                      /\ UNCHANGED <<pool, fconn, link>>
            /\ UNCHANGED <<dead, hit>>
  /\ UNCHANGED <<sc, rq, attempts, tried, bprog, fdone, stalled, wait, elapsed, iv, rv>>

\* the backend side of r is gone: shared.rs end_stream_decision on what sozu has parsed (view)
EndStream(r) ==
  /\ Active(r) /\ dead[r] # "no"
  /\ \E view \in (IF dead[r] = "reset" THEN cprog[r]..bprog[r] ELSE {bprog[r]}) :
       IF dead[r] = "gwrefused"
         THEN \* GOAWAY: the backend will not process this stream. The request was written: it cannot be replayed.
              \* (open finding GoawayRefusedDropped: the stream is terminated without any answer; so is - seeded
              \* defect C02-22, deviation GoawayKillsNamed - the stream the GOAWAY names as being processed)
              IF "GoawayRefusedDropped" \in Deviations \/ hit[r] # "early"
                THEN /\ Abort(r)
                     /\ UNCHANGED <<cprog, answer, pool, fconn, fclock>>
                ELSE /\ Default(r, "502", "closedEarly")
                     /\ UNCHANGED <<cprog, pool>>
       ELSE IF "LengthBodyCutByCloseCompletes" \in Deviations /\ rq[r].framing = "clclose" /\ sc.back = "h1" /\ dead[r] \in {"close", "reset"} /\ view \in {2, 3}
         THEN \* (open finding) Connection: close makes the backend's close the end of a body that has a length
              /\ cprog' = [cprog EXCEPT ![r] = view]
              /\ answer' = [answer EXCEPT ![r] = "200"]
              /\ AfterComplete(r, [phase EXCEPT ![r] = "done"])
              /\ link' = link /\ fclock' = 0 /\ actor' = r
       ELSE IF rq[r].framing = "clclose" /\ sc.back = "h1" /\ dead[r] = "close" /\ cprog[r] = 0 /\ view \in {2, 3}
         THEN \* the close came in the same read as the head: the truncated response is an error before anything of
              \* it was forwarded - answered like "no response" (502)
              /\ Default(r, "502", "closedEarly")
              /\ UNCHANGED <<cprog, pool>>
       ELSE IF view < 2 \/ (dead[r] = "garbage" /\ cprog[r] < 2 /\ "DefaultAfterHead" \notin Deviations)
         THEN \* no response: the request was written, retrying is unsafe
              /\ Default(r, "502", "closedEarly")
              /\ UNCHANGED <<cprog, pool>>
       ELSE IF dead[r] = "garbage" /\ "DefaultAfterHead" \in Deviations
         THEN \* (fixed defect) a default answer on top of a forwarded head
              /\ Default(r, "502", "closedEarly")
              /\ UNCHANGED <<cprog, pool>>
       ELSE IF view = 4 /\ dead[r] # "garbage"
         THEN \* ForwardTerminated
              /\ cprog' = [cprog EXCEPT ![r] = 4]
              /\ answer' = [answer EXCEPT ![r] = "200"]
              /\ AfterComplete(r, [phase EXCEPT ![r] = "done"])
              /\ link' = link /\ fclock' = 0 /\ actor' = r
       ELSE IF rq[r].framing = "close" /\ sc.back = "h1" /\ dead[r] # "garbage"
         THEN \* CloseDelimited: the close IS the end of the body
              /\ cprog' = [cprog EXCEPT ![r] = view]
              /\ answer' = [answer EXCEPT ![r] = "200"]
              /\ AfterComplete(r, [phase EXCEPT ![r] = "done"])
              /\ link' = link /\ fclock' = 0 /\ actor' = r
       ELSE \* ForwardUnterminated: what was not yet written is dropped, the stream is aborted
              /\ Abort(r)
              /\ UNCHANGED <<cprog, answer, pool, fconn, fclock>>
  /\ dead' = [dead EXCEPT ![r] = "no"]
  /\ UNCHANGED <<sc, rq, attempts, tried, bprog, fdone, stalled, hit, bclock, wait, elapsed, iv, rv>>

\* back_timeout on the backend connection of r (Mux::timeout, backend token branch)
BackTimeout(r) ==
  /\ Active(r) /\ dead[r] = "no" /\ bclock[r] >= BT /\ istate[r] # "sent"
  /\ ~(bprog[r] >= 2 /\ cprog[r] < bprog[r])
  /\ IF cprog[r] = 0 /\ ~("NoAnswerOnTimeout" \in Deviations)
       THEN Default(r, "504", "backendTimeout")       \* nothing forwarded yet
       ELSE /\ Abort(r)                                \* response under way: forced termination
            /\ fclock' = 0
            /\ UNCHANGED <<answer, fconn>>
  /\ UNCHANGED <<sc, rq, attempts, tried, bprog, cprog, fdone, stalled, dead, hit, pool, bclock, wait, elapsed, iv, rv>>

\* frontend timeout (Mux::timeout, frontend token branch): 408 for an HTTP/1 request that never completed
\* (request_timeout); with timing "ff" the 504 / forced-termination arms for the streams waiting on their
\* backends; the close that ends an HTTP/1 connection whose response was forcefully terminated.
\* (The 503 arm for a stream still in Link state is not reachable here: linking is immediate.)
FrontTimeout ==
  /\ fconn # "closed"
  /\ \/ /\ \E r \in Reqs : phase[r] = "receiving" /\ AtHead(r) /\ fclock >= RT /\ sc.front = "h1"
        /\ LET r == CHOOSE q \in Reqs : phase[q] = "receiving" /\ AtHead(q) IN Default(r, "408", "clientTimeout")
     \/ \* front_timeout with requests waiting for / receiving from their backends: every stream is handled in the
        \* same pass - 504 where nothing was forwarded, forced termination where a response is under way
        /\ fclock >= FT /\ \E r \in Reqs : Active(r)
        /\ \A r \in Reqs : Active(r) => (dead[r] = "no" /\ istate[r] # "sent" /\ ~(bprog[r] >= 2 /\ cprog[r] < bprog[r]))
        /\ LET T == {r \in Reqs : Active(r)}
               A == {r \in T : cprog[r] = 0}       \* answered 504
               \* (on this path nothing is written for a terminated stream, on HTTP/2 either: the client learns
               \* about it when the next frontend timeout closes the connection)
               ph == [r \in Reqs |-> IF r \in A THEN "done" ELSE IF r \in T THEN "aborting" ELSE phase[r]]
               cs == [r \in Reqs |-> IF r \in A THEN "backendTimeout"
                                      ELSE IF r \in T /\ answer[r] = "none" THEN "aborted" ELSE cause[r]]
           IN /\ answer' = [r \in Reqs |-> IF r \in A THEN "504" ELSE answer[r]]
              /\ phase' = IF sc.front = "h1" /\ A # {} THEN CutAll(ph) ELSE ph
              /\ cause' = IF sc.front = "h1" /\ A # {} THEN CutCause(ph, cs) ELSE cs
              /\ link' = [r \in Reqs |-> IF r \in T THEN "none" ELSE link[r]]
              /\ fconn' = IF A = {} THEN fconn ELSE IF sc.front = "h1" THEN "closed" ELSE IF fconn = "closed" THEN "closed" ELSE "draining"
        /\ fclock' = 0
        /\ actor' = 0
     \/ /\ \E r \in Reqs : phase[r] = "aborting" /\ fclock >= FT
        /\ phase' = CutAll(phase)
        /\ cause' = CutCause([q \in Reqs |-> IF phase[q] = "aborting" THEN "done" ELSE phase[q]], cause)
        /\ fconn' = "closed"
        /\ fclock' = 0
        /\ actor' = 0
        /\ UNCHANGED <<answer, link>>
     \/ \* (fixed defect, see AfterComplete) ... until the idle timeout writes a 408 into the same response
        /\ "KeepAliveAfterCloseDelimited" \in Deviations
        /\ \E r \in Reqs : phase[r] = "respStarted" /\ cprog[r] = 4 /\ fclock >= RT
        /\ LET r == CHOOSE q \in Reqs : phase[q] = "respStarted" /\ cprog[q] = 4 IN Default(r, "408", "clientTimeout")
     \/ \* an HTTP/2 request that never completes is not a received request: the connection is closed
        /\ \E r \in Reqs : phase[r] = "receiving" /\ fclock >= RT /\ sc.front = "h2"
        /\ phase' = CutAll(phase)
        /\ cause' = CutCause(phase, cause)
        /\ fconn' = "closed"
        /\ fclock' = 0
        /\ actor' = 0
        /\ UNCHANGED <<answer, link>>
  /\ UNCHANGED <<sc, rq, attempts, tried, bprog, cprog, fdone, stalled, dead, hit, pool, bclock, wait, elapsed, iv, rv>>

\* sozu processes the HUP of an idle pooled connection the backend closed
NoticeClose(b) ==
  /\ pool[b] = "peerclosed"
  /\ pool' = [pool EXCEPT ![b] = "none"]
  /\ actor' = 0
  /\ UNCHANGED <<sc, rq, phase, answer, cause, attempts, tried, link, bprog, cprog, fdone, stalled, dead, hit, fconn, bclock, fclock, wait, elapsed, iv, rv>>

-----------------------------------------------------------------------------
(* backend *)

FaultDue(r) == /\ EffFault(r) \notin {"none", "refuse"} /\ ~fdone[r] /\ EffAt(r) \notin {"between", "accept"} /\ bprog[r] = Level(EffAt(r))
               \* pace split: the fault comes in a read of its own, after sozu has handled what was sent before it
               /\ rq[r].pace = "split" => (istate[r] # "sent" /\ (bprog[r] < 2 \/ cprog[r] = bprog[r]))
\* the interim response of r is still to be emitted (only the scripted backend sends one)
InterimDue(r) == link[r] = "B1" /\ rq[r].interim # "none" /\ istate[r] = "no" /\ bprog[r] = 0
CanSend(r) == Active(r) /\ ~Refusing(link[r]) /\ ~Mute(link[r]) /\ dead[r] = "no" /\ ~stalled[r] /\ bprog[r] < 4 /\ ~FaultDue(r)
NextLevel(r) == CASE bprog[r] = 0 -> IF EffAt(r) = "midhdr" /\ ~fdone[r] THEN 1 ELSE 2
                  [] bprog[r] = 1 -> 2
                  [] bprog[r] = 2 -> IF (EffAt(r) = "midbody" /\ ~fdone[r]) \/ rq[r].pace = "drip" THEN 3 ELSE 4
                  [] OTHER        -> 4
\* a dripping backend lets one tick pass before each piece of the body
Paced(r) == rq[r].pace = "drip" /\ bprog[r] >= 2 => wait[r] >= 1

B_Send(r) ==
  /\ CanSend(r) /\ Paced(r)
  /\ IF InterimDue(r)
       THEN \* the interim response, alone or (same) in one segment with the head of the final response
            /\ istate' = [istate EXCEPT ![r] = "sent"]
            /\ bprog' = IF rq[r].interim = "same" THEN [bprog EXCEPT ![r] = NextLevel(r)] ELSE bprog
       ELSE /\ bprog' = [bprog EXCEPT ![r] = NextLevel(r)]
            /\ istate' = istate
  /\ wait' = [wait EXCEPT ![r] = 0]
  /\ actor' = r
  /\ UNCHANGED <<sc, rq, phase, answer, cause, attempts, tried, link, cprog, fdone, stalled, dead, hit, fconn, pool, bclock, fclock, elapsed, rv>>

B_Fault(r) ==
  /\ Active(r) /\ ~Refusing(link[r]) /\ ~Mute(link[r]) /\ dead[r] = "no" /\ ~stalled[r] /\ FaultDue(r)
  /\ fdone' = [fdone EXCEPT ![r] = TRUE]
  /\ LET k == EffFault(r)
         V == IF k \in {"close", "reset", "garbage", "connstall"} THEN Victims(r) ELSE {r}
         \* graceful GOAWAY: the stream is refused when last_stream_id is below it - and (deviation
         \* GoawayKillsNamed, the seeded defect C02-22) when it is the very stream the GOAWAY names
         refused == k = "goaway" /\ (rq[r].lsid = "below" \/ (rq[r].lsid = "equal" /\ "GoawayKillsNamed" \in Deviations))
     IN /\ dead' = [q \in Reqs |-> IF q \in V /\ k \in {"close", "reset", "garbage"} THEN k
                                    ELSE IF q = r /\ k = "rststream" THEN "rst"
                                    ELSE IF q = r /\ refused THEN "gwrefused" ELSE dead[q]]
        /\ stalled' = [q \in Reqs |-> stalled[q] \/ (q \in V /\ k \in {"stall", "connstall"}) \/ (q = r /\ k = "goaway" /\ rq[r].lsid = "below")]
        \* (ghost) what the environment did to a request nothing was forwarded for yet; a kill supersedes a stall
        /\ hit' = [q \in Reqs |-> IF k = "goaway" THEN (IF q = r /\ rq[r].lsid = "below" THEN "early" ELSE hit[q])
                                    ELSE IF q \in V /\ cprog[q] = 0 /\ answer[q] = "none"
                                    THEN (IF k \in {"stall", "connstall"} THEN (IF hit[q] = "none" THEN "stall" ELSE hit[q]) ELSE "early")
                                    ELSE hit[q]]
        \* a shared h2c connection silenced inside a frame stays in the pool: later requests linked to it stall too;
        \* a connection whose peer said GOAWAY takes no new stream
        /\ pool' = [pool EXCEPT ![link[r]] = IF k = "connstall" THEN "mute" ELSE IF k = "goaway" THEN "none" ELSE @]
  /\ actor' = r
  /\ UNCHANGED <<sc, rq, phase, answer, cause, attempts, tried, link, bprog, cprog, fconn, bclock, fclock, wait, elapsed, iv, rv>>

\* the backend closes / resets the connection after a complete response: it hits the idle pooled connection
\* and, on a shared h2c connection, whatever else is in flight on it
B_Between(r) ==
  /\ phase[r] = "done" /\ answer[r] = "200" /\ link[r] = "B1" /\ rq[r].at = "between" /\ ~fdone[r]
  /\ fdone' = [fdone EXCEPT ![r] = TRUE]
  \* (a GOAWAY on the idle connection retires it at once: sozu never offers it a new stream)
  /\ pool' = [pool EXCEPT !["B1"] = IF @ = "up" THEN (IF rq[r].fault = "goaway" THEN "none" ELSE "peerclosed") ELSE @]
  /\ LET V == IF sc.back = "h2" THEN {q \in Reqs : Active(q) /\ link[q] = "B1"} ELSE {}
         \* a later stream already on the connection when the GOAWAY arrives is above its last_stream_id
         gw == rq[r].fault = "goaway"
     IN /\ dead' = [q \in Reqs |-> IF q \in V THEN (IF gw THEN (IF rq[r].lsid = "above" THEN dead[q] ELSE "gwrefused") ELSE rq[r].fault) ELSE dead[q]]
        /\ stalled' = [q \in Reqs |-> stalled[q] \/ (q \in V /\ gw /\ rq[r].lsid # "above")]
        /\ hit' = [q \in Reqs |-> IF q \in V /\ cprog[q] = 0 /\ answer[q] = "none" /\ ~(gw /\ rq[r].lsid = "above") THEN "early" ELSE hit[q]]
  /\ actor' = r
  /\ UNCHANGED <<sc, rq, phase, answer, cause, attempts, tried, link, bprog, cprog, fconn, bclock, fclock, wait, elapsed, iv, rv>>

\* the refusing backend starts listening once the requests scripted "refuse" are over (mode newconn)
B_Recover ==
  /\ sc.mode = "newconn" /\ ~bup
  /\ \A q \in Reqs : rq[q].fault = "refuse" => Finished(q)
  /\ bup' = TRUE
  /\ actor' = 0
  /\ UNCHANGED <<sc, rq, phase, answer, cause, attempts, tried, link, bprog, cprog, fdone, stalled, dead, hit, fconn, pool, bclock, fclock, wait, elapsed, istate, boff, bfail, idle>>

-----------------------------------------------------------------------------
(* time *)

SozuStep == \/ \E r \in Reqs : Route(r) \/ Connect(r) \/ ConnectFail(r) \/ RelayInterim(r) \/ Relay(r) \/ EndStream(r) \/ BackTimeout(r)
            \/ FrontTimeout
EnvUrgent == \/ \E r \in Reqs : C_Send(r) \/ B_Send(r) \/ B_Fault(r) \/ B_Between(r)
             \/ C_SendAll \/ B_Recover
AllFinished == \A r \in Reqs : Finished(r)

\* everything but waiting is urgent: time passes only when nobody can move (a dripping backend waits one tick)
Tick ==
  /\ ~AllFinished
  /\ ~ENABLED SozuStep /\ ~ENABLED EnvUrgent
  /\ bclock' = [r \in Reqs |-> IF Active(r) /\ bclock[r] < BT THEN bclock[r] + 1 ELSE bclock[r]]
  /\ fclock' = IF fclock < FT THEN fclock + 1 ELSE fclock
  /\ wait' = [r \in Reqs |-> IF wait[r] < 1 THEN wait[r] + 1 ELSE wait[r]]
  /\ elapsed' = [r \in Reqs |-> IF phase[r] \notin {"unsent", "done", "aborted"} /\ elapsed[r] <= Budget THEN elapsed[r] + 1 ELSE elapsed[r]]
  /\ actor' = 0
  /\ boff' = IF boff > 0 THEN boff - 1 ELSE 0
  /\ idle' = IF (\A r \in Reqs : phase[r] = "unsent" \/ Finished(r)) /\ idle < GapTicks THEN idle + 1 ELSE idle
  /\ UNCHANGED <<sc, rq, phase, answer, cause, attempts, tried, link, bprog, cprog, fdone, stalled, dead, hit, fconn, pool, istate, bup, bfail>>

Next == SozuStep \/ EnvUrgent \/ (\E b \in Backends : NoticeClose(b)) \/ Tick

Spec == Init /\ [][Next]_vars

-----------------------------------------------------------------------------
(* the property *)

TypeOK ==
  /\ \A r \in Reqs : /\ phase[r] \in {"unsent", "receiving", "received", "link", "linked", "respStarted", "aborting", "done", "aborted"}
                     /\ answer[r] \in {"none", "200", "301", "401", "404", "408", "421", "429", "502", "503", "504"}
                     /\ bprog[r] \in 0..4 /\ cprog[r] \in 0..4 /\ cprog[r] <= bprog[r]
                     /\ attempts[r] \in 0..MaxRetries
                     /\ istate[r] \in {"no", "sent", "fwd"}
  /\ fconn \in {"open", "draining", "closed", "halfclosed"}
  /\ boff \in 0..BackoffTicks /\ idle \in 0..GapTicks

\* (a) at most one final answer per request: once set it never changes
P_C02_OneAnswer == [][\A r \in Reqs : answer[r] # "none" => answer'[r] = answer[r]]_vars

\* (b) the status is the one the cause table prescribes, and the cause is what really happened
P_C02_StatusMatchesCause ==
  \A r \in Reqs : answer[r] # "none" =>
    /\ answer[r] = Prescribed(cause[r])
    /\ cause[r] \in {"noroute", "deny", "wrongcert", "iplimit", "redirect"} => rq[r].route = cause[r]
    /\ cause[r] = "nobackend" => rq[r].route = "nobackend"
    /\ cause[r] = "refused" => hit[r] = "refused"
    /\ cause[r] = "backoff" => (hit[r] = "backoff" /\ rq[r].route = "a")
    /\ cause[r] = "closedEarly" => hit[r] = "early"
    /\ cause[r] = "backendTimeout" => hit[r] = "stall"
    /\ cause[r] = "clientTimeout" => rq[r].route = "partial"
    /\ cause[r] = "backend" => bprog[r] >= 2
\* ... and a request whose routing outcome is an error never reaches a backend, a routed one never gets a routing error
P_C02_RoutingOutcome ==
  \A r \in Reqs :
    /\ rq[r].route \in {"noroute", "deny", "wrongcert", "iplimit", "redirect", "nobackend"} => (link[r] = "none" /\ answer[r] \in {"none", Prescribed(rq[r].route)})
    /\ rq[r].route \in {"a", "b"} => answer[r] \in {"none", "200", "502", "503", "504"}

\* (c) once a response has started: completion or an explicit abort, never "done" with a part of the body
\*     (a close-delimited body ends where the backend closed: that is its framing)
P_C02_NoTruncation ==
  \A r \in Reqs : (phase[r] = "done" /\ answer[r] = "200") => (cprog[r] = 4 \/ (rq[r].framing = "close" /\ sc.back = "h1" /\ cprog[r] >= 2))
P_C02_OnceStarted ==
  [][\A r \in Reqs : phase[r] = "respStarted" => phase'[r] \in {"respStarted", "done", "aborted", "aborting"}]_vars

\* (d) every fully received request is finished within the timeout budget, and nothing is left hanging
P_C02_Budget == \A r \in Reqs : elapsed[r] <= Budget
P_C02_NoHang == (~ENABLED Next) => AllFinished
\* a routed request whose backend is healthy and whose connection was not cut gets the backend's answer
P_C02_HealthyServed ==
  \A r \in Reqs : (phase[r] = "done" /\ rq[r].route \in {"a", "b"} /\ hit[r] = "none") => answer[r] = "200"

\* a request is never dropped silently: an abort without any answer happens only once the response had started
\* on the backend side (or by the explicit close of the connection)
P_C02_AnsweredUnlessStarted ==
  \A r \in Reqs : (phase[r] \in {"aborted", "aborting"} /\ answer[r] = "none" /\ cause[r] # "connclosed") => bprog[r] >= 2

\* (e) isolation: a step of request r changes phase/answer of another request only through the explicit
\*     connection-level abort
P_C02_Isolation ==
  [][\A q \in Reqs : (actor' # 0 /\ actor' # q /\ (phase'[q] # phase[q] \/ answer'[q] # answer[q]))
        => (phase'[q] = "aborted" /\ cause'[q] = "connclosed" /\ fconn' = "closed")]_vars
\* the healthy sibling on another backend is served whatever happens to the other request, unless the
\* connection was explicitly closed under it (HTTP/1: Connection: close of a default answer / forced termination)
P_C02_SiblingServed ==
  \A r \in Reqs : (Finished(r) /\ rq[r].route = "b") =>
     \/ (answer[r] = "200" /\ phase[r] = "done")
     \/ (cause[r] = "connclosed" /\ (sc.front = "h1" \/ fconn # "open"))

-----------------------------------------------------------------------------
\* (f) when the environment does nothing wrong - every backend answers completely; a graceful GOAWAY that lets the
\*     stream finish, an interim response before the final one, a slow body are not faults - every request gets the
\*     backend's response (or the explicit close behind a response that says Connection: close)
Graceful(q) == rq[q].fault = "none" \/ (rq[q].fault = "goaway" /\ rq[q].lsid \in {"equal", "above"} /\ rq[q].at # "between")
CleanScenario == \A q \in Reqs : rq[q].route \in {"a", "b"} /\ Graceful(q)
P_C02_CleanServed ==
  CleanScenario => \A r \in Reqs : Finished(r) => ((phase[r] = "done" /\ answer[r] = "200") \/ cause[r] = "connclosed")

-----------------------------------------------------------------------------
(* generator: one line per terminal state *)

Outcome(r) == <<answer[r], IF phase[r] = "done" THEN "complete" ELSE "abort">>
Terminal == AllFinished /\ ~ENABLED Next
EmitState ==
  (Emit /\ Terminal) =>
     PrintT(<<"REPLAY", ToJson([front |-> sc.front, back |-> sc.back, mode |-> sc.mode, nbk |-> sc.nbk, timing |-> sc.timing,
                                reqs |-> [r \in Reqs |-> rq[r]],
                                out |-> [r \in Reqs |-> Outcome(r)],
                                ticks |-> [r \in Reqs |-> elapsed[r]]])>>)
=============================================================================
