-------------------------- MODULE Gen_CertListener --------------------------
(***************************************************************************)
(* S->I generator for CertListener.tla: TLC (simulation mode) is generator *)
(* and oracle.  One REPLAY line per behaviour: the history of commands     *)
(* (certificate commands interleaved with listener operations on NAddr     *)
(* addresses) and, after every step, the spec's prediction for every       *)
(* address: listener status and, per probe name, the set of certificates a *)
(* real TLS handshake may be served (CertListener!Expect).                 *)
(*                                                                         *)
(* TLC's simulator draws uniformly among the successor states, so the many *)
(* certificate commands (variants x fingerprints) would crowd out the few  *)
(* listener operations: the CLASS of the next step is drawn first (`cls`), *)
(* then an enabled operation of that class (TLC!RandomElement, seeded by   *)
(* -seed: one successor per step, the simulation is a plain random walk).  *)
(***************************************************************************)
EXTENDS CertListener, Json

CONSTANT MaxSteps

VARIABLES hist, done, cls
gvars == <<vars, hist, done, cls>>

NClasses == 16

InClass(o, c) ==
  CASE c \in {1, 2}    -> o.kind = "add"
    [] c \in {3, 4}    -> o.kind = "replace"
    [] c = 5           -> o.kind = "remove"
    [] c = 6           -> o.kind \in {"replace_fail", "replace_badold"}
    [] c \in {7, 8, 9} -> o.kind = "patch" /\ o.k # "other"
    [] c = 10          -> o.kind = "patch"
    [] c = 11          -> o.kind \in {"activate", "deactivate"}
    [] c = 12          -> o.kind \in {"add_listener", "remove_listener"}
    \* "bring something up": a listener that is missing or down; else a certificate
    [] c \in {13, 14, 15} -> IF \E a \in Addr : lst[a] # "up" THEN o.kind \in {"add_listener", "activate"}
                             ELSE o.kind \in {"add", "replace"}
    [] OTHER           -> TRUE

EnabledOps(c) == {o \in AllOps : Can(o) /\ InClass(o, c)}
\* a class without enabled operation falls back to every enabled operation
Choice(c)  == IF EnabledOps(c) # {} THEN EnabledOps(c) ELSE {o \in AllOps : Can(o)}

GenInit == Init /\ hist = <<>> /\ done = FALSE /\ cls = RandomElement(1..NClasses)
GenNext ==
  \/ /\ Len(hist) < MaxSteps
     /\ \E o \in {RandomElement(Choice(cls))} :
          /\ Do(o)
          /\ hist' = Append(hist, [op |-> o, exp |-> Expect'])
     /\ done' = FALSE
     /\ cls' = RandomElement(1..NClasses)
  \/ /\ Len(hist) = MaxSteps /\ ~done
     /\ done' = TRUE /\ UNCHANGED <<vars, hist, cls>>
GenSpec == GenInit /\ [][GenNext]_gvars

\* (simulation evaluates invariants on every candidate successor; `done` has a single successor: once per behaviour)
EmitHist == done => PrintT(<<"REPLAY", ToJson(hist)>>)
=============================================================================
