\* Soft-stop completion as a liveness property (fairness on Flush and LoopEnd; bounds are in the guards).
SPECIFICATION FairSpec
CONSTANTS
  Listeners = {"hA", "tC"}
  Clusters = {}
  HFronts = {}
  TFronts = {}
  UFronts = {}
  Backends = {}
  Verbs <- VerbsListeners
  MaxReq = 3
  AfterStop <- AfterStopKinds
  Deviations = {}
  Deterministic = FALSE
  Preamble <- NoPreamble
  Traffic = FALSE
  Faults = FALSE
  Emit = FALSE
VIEW MCView
PROPERTY P_C08_SoftStopCompletes
CHECK_DEADLOCK FALSE
