--------------------------- MODULE Trace_MasterHub ---------------------------
(***************************************************************************)
(* I->S trace validation for property C09: is a recorded run of a REAL     *)
(* CommandHub (harness/drive_hub, free-running seeded random schedules,    *)
(* no pacing) a behaviour of MasterHub?                                    *)
(*                                                                         *)
(* One observer: the driver thread.  Its own actions (send, ans, close)    *)
(* are recorded when performed; what it observes (crecv, wrecv, hang, end) *)
(* is recorded when observed, which only delays it - an observation just   *)
(* requires that the hub HAS produced the thing.  Every hub step is        *)
(* silent (HubNext without consuming an event); hub steps always           *)
(* terminate, so no bound on silent steps is needed.  `tick` events come   *)
(* from the driver's monotonic clock (the hub's clock as well: same        *)
(* process): at least T ticks lie between the sending of a request and the *)
(* observation of an answer caused by its deadline, so a premature timeout *)
(* has no explanation in the spec.                                         *)
(*                                                                         *)
(* Every event carries the ids (request, worker, part) that tie it to its  *)
(* object.  Runs are concatenated, separated by `reset` events.            *)
(***************************************************************************)
EXTENDS MasterHub, Json, IOUtils, SequencesExt

Rec == ndJsonDeserialize(IOEnv.TRACE)

VARIABLES i,      \* index of the next event
          seen    \* [Reqs -> number of messages of out[r] the client has observed]

tvars == <<vars, i, seen>>

ASSUME TLCSet(1, 0)

E == Rec[i]
Is(name) == i <= Len(Rec) /\ E.ev = name
Consume == i' = i + 1

InitFor(nw) ==
  /\ master' = "running"
  /\ wstate' = [w \in Workers |-> IF w <= nw THEN "running" ELSE "stopped"]
  /\ wopen' = [w \in Workers |-> w <= nw]
  /\ wreq' = [w \in Workers |-> {}]
  /\ toHub' = [w \in Workers |-> <<>>]
  /\ req' = [r \in Reqs |-> [st |-> "idle", verb |-> "none", file |-> NoFile]]
  /\ tasks' = [r \in Reqs |-> NoTask]
  /\ inFlight' = {}
  /\ out' = [r \in Reqs |-> <<>>]
  /\ budget' = [dup |-> MaxDup, proc |-> MaxProc]
  /\ firstAns' = [id \in Ids |-> "none"]

TraceInit == Init /\ i = 1 /\ seen = [r \in Reqs |-> 0]

T_reset == Is("reset") /\ InitFor(E.nw) /\ seen' = [r \in Reqs |-> 0] /\ Consume

\* a load-state names its file by shape (JSON array of record kinds; ["missing"] = no such file)
T_send == Is("send") /\ Client_Send(E.r, E.verb, IF E.verb = "load" THEN E.file ELSE NoFile) /\ UNCHANGED seen /\ Consume

T_ans == Is("ans") /\ Worker_Answer(E.w, Id(E.w, E.r, E.p), E.st) /\ UNCHANGED seen /\ Consume

T_close == Is("close") /\ Worker_Close(E.w) /\ UNCHANGED seen /\ Consume

\* the fake worker has read a request: the hub must have scattered it to that worker
T_wrecv == Is("wrecv") /\ Id(E.w, E.r, E.p) \in wreq[E.w] /\ UNCHANGED <<vars, seen>> /\ Consume

\* the client has read its next message
T_crecv ==
  /\ Is("crecv")
  /\ seen[E.r] < Len(out[E.r]) /\ out[E.r][seen[E.r] + 1] = E.st
  /\ seen' = [seen EXCEPT ![E.r] = @ + 1]
  /\ UNCHANGED vars /\ Consume

T_tick == Is("tick") /\ (Tick(1) \/ (~ENABLED Tick(1) /\ UNCHANGED vars)) /\ UNCHANGED seen /\ Consume

\* no final answer within worker_timeout + slack: only a task without a deadline may do that
T_hang ==
  /\ Is("hang")
  /\ req[E.r].st = "handled" /\ tasks[E.r].st = "live" /\ ~tasks[E.r].timed
  /\ tasks[E.r].age >= T /\ ~HasFinished(tasks[E.r])
  /\ UNCHANGED <<vars, seen>> /\ Consume

\* end of a run, taken after the real hub went idle: the spec must be idle too and agree on everything observable
Quiet == /\ \A r \in Reqs : req[r].st # "sent"
         /\ \A r \in Reqs : ~(tasks[r].st = "live" /\ (HasFinished(tasks[r]) \/ (tasks[r].timed /\ tasks[r].age >= T)))
         /\ \A w \in Workers : toHub[w] = <<>> /\ (wopen[w] \/ wstate[w] = "stopped")
T_end ==
  /\ Is("end")
  /\ Quiet
  /\ \A r \in Reqs : seen[r] = Len(out[r])
  /\ \A w \in Workers : w <= E.nw => wstate[w] = E.wstate[w]
  /\ \A w \in Workers : (w <= E.nw /\ wopen[w]) => {<<id.r, id.p>> : id \in wreq[w]} = {<<t[1], t[2]>> : t \in ToSet(E.wreq[w])}
  /\ UNCHANGED <<vars, seen>> /\ Consume

\* Hub steps are silent.  One structural fact of the run loop is added: the finishing pass comes after the
\* events of the same turn, so a task is never timed out while an answer to it that a worker had already
\* written is still unread.  (The driver records `ans` after the write returned and `send` before writing;
\* it never schedules an answer within 150 ms of a deadline.)
NoUnreadAnswerFor(r) == \A w \in Workers : \A k \in 1..Len(toHub[w]) : toHub[w][k].id.r # r
T_silent ==
  /\ HubNext
  /\ \A r \in Reqs : (tasks[r].st = "live" /\ tasks'[r].st = "done" /\ ~HasFinished(tasks[r])) => NoUnreadAnswerFor(r)
  /\ UNCHANGED <<i, seen>>

TraceNext == T_reset \/ T_send \/ T_ans \/ T_close \/ T_wrecv \/ T_crecv \/ T_tick \/ T_hang \/ T_end \/ T_silent

TraceSpec == TraceInit /\ [][TraceNext]_tvars

Track == TLCSet(1, IF i - 1 > TLCGet(1) THEN i - 1 ELSE TLCGet(1))

TraceAccepted ==
  IF TLCGet(1) = Len(Rec)
  THEN PrintT(<<"TRACE-ACCEPTED", Len(Rec)>>)
  ELSE PrintT(<<"TRACE-REJECTED", TLCGet(1), Len(Rec), Rec[TLCGet(1) + 1]>>)
=============================================================================
