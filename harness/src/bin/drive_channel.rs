//! I->S driver for spec/Channel.tla (property C11).
//!
//! Drives two REAL `Channel` ends (created with `Channel::new(sock, init, max)`, production sizes by
//! default) with seeded random calls: many small messages and a few huge ones (up to and above the
//! maximum), partial writes (send() shim: random byte budgets, or whatever the kernel accepts), partial
//! deliveries (the harness is the wire between two socket pairs), spurious wake-ups, and frames forged by
//! the peer (declared length below the prefix size / above the maximum, payload that does not decode).
//! Every call and environment step is recorded as one ndjson event with its result and the public
//! projection of both ends; spec/Trace_Channel.tla + TLC decide whether the recording is a behaviour of
//! the specification (the driver itself judges nothing: a panic of the code under test is recorded as an
//! event that no specification step explains).
//!
//! usage: drive_channel --seed S --runs N --steps M --init I --max X --out trace.ndjson

#[path = "../c11_common.rs"]
mod common;

use std::io::Write as _;
use std::panic::{AssertUnwindSafe, catch_unwind};

use common::*;
use rand::rngs::StdRng;
use rand::{RngExt, SeedableRng};
use serde_json::{Value, json};
use sozu_command_lib::ready::Ready;

fn hash31(bytes: &[u8]) -> u64 {
    let mut h: u64 = 0xcbf29ce484222325;
    for &b in bytes {
        h ^= b as u64;
        h = h.wrapping_mul(0x100000001b3);
    }
    (h ^ (h >> 31)) & 0x3fff_ffff
}

fn pick_len(rng: &mut StdRng, init: usize, max: usize, profile: u32) -> usize {
    let small_top = 200.min(max);
    let l = match rng.random_range(0..100u32) {
        0..=54 => rng.random_range(D..=small_top),
        55..=64 => rng.random_range(D..=(max / 4).max(D)),
        65..=79 => {
            let c = [D, D + 2, init - 1, init, init + 1, init * 2, max / 2, max / 2 + 1, max - D, max - 1, max];
            c[rng.random_range(0..c.len())]
        }
        80..=86 => max + [1usize, 2, D, 100][rng.random_range(0..4)],
        87..=93 => rng.random_range((max / 2).max(D)..=max),
        _ => rng.random_range(D..=max),
    };
    let l = if profile == 1 && rng.random_range(0..10u32) < 8 { rng.random_range(D..=small_top) } else { l };
    let l = l.max(D);
    if l == D + 1 { D + 2 } else { l }
}

fn main() {
    let args: Vec<String> = std::env::args().collect();
    let (mut seed, mut runs, mut steps, mut init, mut max) = (1u64, 10usize, 300usize, 1_000_000usize, 2_000_000usize);
    let mut out_path = String::from("trace.ndjson");
    let mut i = 1;
    while i + 1 < args.len() {
        match args[i].as_str() {
            "--seed" => seed = args[i + 1].parse().unwrap_or(1),
            "--runs" => runs = args[i + 1].parse().unwrap_or(10),
            "--steps" => steps = args[i + 1].parse().unwrap_or(300),
            "--init" => init = args[i + 1].parse().unwrap_or(init),
            "--max" => max = args[i + 1].parse().unwrap_or(max),
            "--out" => out_path = args[i + 1].clone(),
            _ => {}
        }
        i += 2;
    }
    vh::util::quiet_panics();
    if let Err(e) = self_test(&[0, 2, 3, 100, 127, 128, 129, 130, 131, 200, 16383, 16384, 16390]) {
        eprintln!("drive_channel self-test failed: {e}");
        std::process::exit(3);
    }
    let mut out = std::io::BufWriter::new(std::fs::File::create(&out_path).expect("trace file"));
    let mut rng = StdRng::seed_from_u64(seed ^ ((init as u64) << 20) ^ max as u64);
    let mut n_events = 0u64;
    let (mut delivered, mut errors, mut partial_writes, mut kernel_partial, mut panics, mut grown_max, mut huge) = (0u64, 0u64, 0u64, 0u64, 0u64, 0u64, 0u64);
    let mut samples: Vec<Value> = Vec::new();

    for run in 0..runs {
        let mut rig = Rig::new(init as u64, max as u64).expect("socket pairs");
        let mut emit = |v: Value, n_events: &mut u64| {
            let _ = writeln!(out, "{v}");
            *n_events += 1;
        };
        emit(json!({"op": "reset", "init": init, "max": max, "run": run}), &mut n_events);
        let profile = rng.random_range(0..3u32); // 0 mixed, 1 many small then huge, 2 tiny budgets
        let mut next_id = 1u64;
        let mut poisoned = false;
        let total_steps = steps + 400;
        for step in 0..total_steps {
            let draining = step >= steps; // final phase: only make progress, no new traffic
            let choice = if draining { [25u32, 35, 50, 65, 75, 85, 85][step % 7] } else { rng.random_range(0..100u32) };
            let mut ev: Option<Value> = None;
            let r = catch_unwind(AssertUnwindSafe(|| -> Option<Value> {
                match choice {
                    // ---- write_message
                    0..=19 => {
                        let len = if profile == 1 && step == steps / 2 { max - rng.random_range(0..3usize) } else { pick_len(&mut rng, init, max, profile) };
                        let msg = make_msg(next_id, len - D)?;
                        let enc = encode_msg(&msg);
                        let res = match rig.tx.write_message(&msg) {
                            Ok(()) => {
                                rig.tx_expect.extend(len.to_le_bytes());
                                rig.tx_expect.extend(enc.iter().copied());
                                "ok".to_string()
                            }
                            Err(e) => error_name(&e),
                        };
                        let id = next_id;
                        if res == "ok" {
                            next_id += 1;
                            if len > max / 2 {
                                huge += 1;
                            }
                        }
                        Some(json!({"op": "Write", "len": len, "id": id, "h": hash31(&enc), "res": res}))
                    }
                    // ---- handle_events(WRITABLE)
                    20..=29 => {
                        rig.tx.handle_events(Ready::WRITABLE);
                        Some(json!({"op": "TxEvents"}))
                    }
                    // ---- writable()
                    30..=44 => {
                        let data = rig.tx.back_buf.available_data();
                        let plan: Option<Vec<usize>> = if draining || data == 0 {
                            None
                        } else {
                            match rng.random_range(0..10u32) {
                                0..=2 => None, // the kernel decides
                                3 => Some(vec![]),
                                4..=6 => Some(vec![rng.random_range(1..=data)]),
                                _ => {
                                    let tiny = profile == 2;
                                    let mut v = Vec::new();
                                    let mut left = data;
                                    for _ in 0..rng.random_range(1..=4u32) {
                                        if left == 0 {
                                            break;
                                        }
                                        let k = if tiny { rng.random_range(1..=left.min(16)) } else { rng.random_range(1..=left) };
                                        v.push(k);
                                        left -= k;
                                    }
                                    Some(v)
                                }
                            }
                        };
                        let planned = plan.is_some();
                        shim_arm(rig.tx_fd, plan);
                        let r = rig.tx.writable();
                        let calls = shim_disarm();
                        let chunks: Vec<usize> = calls.iter().filter(|c| c.1 > 0).map(|c| c.1 as usize).collect();
                        let mut e = match r {
                            Ok(n) => json!({"op": "Writable", "chunks": chunks, "res": "ok", "n": n}),
                            Err(e) => json!({"op": "Writable", "chunks": [], "res": error_name(&e)}),
                        };
                        if let Err(s) = rig.drain_sender() {
                            e["stream_error"] = json!(s);
                        }
                        if calls.iter().any(|c| c.1 > 0 && (c.1 as usize) < c.0) {
                            if planned { partial_writes += 1 } else { kernel_partial += 1 }
                        }
                        Some(e)
                    }
                    // ---- the wire delivers some bytes
                    45..=59 => {
                        if rig.wire.is_empty() {
                            return None;
                        }
                        let n = rig.wire.len();
                        let k = if draining { n } else {
                            match rng.random_range(0..4u32) {
                                0 => n,
                                1 => rng.random_range(1..=n.min(D + 3)),
                                _ => rng.random_range(1..=n),
                            }
                        };
                        let moved = rig.wire_move(k).ok()?;
                        if moved == 0 {
                            return None;
                        }
                        Some(json!({"op": "WireMove", "k": moved}))
                    }
                    // ---- handle_events(READABLE)
                    60..=69 => {
                        rig.rx.handle_events(Ready::READABLE);
                        Some(json!({"op": "RxEvents"}))
                    }
                    // ---- readable()
                    70..=79 => match rig.rx.readable() {
                        Ok(n) => {
                            rig.sock -= n.min(rig.sock);
                            Some(json!({"op": "Readable", "res": "ok", "n": n}))
                        }
                        Err(e) => Some(json!({"op": "Readable", "res": error_name(&e)})),
                    },
                    // ---- read_message()
                    80..=95 => match rig.rx.read_message() {
                        Ok(m) => {
                            let enc = encode_msg(&m);
                            delivered += 1;
                            Some(json!({"op": "ReadMessage", "res": "ok", "len": enc.len() + D, "h": hash31(&enc)}))
                        }
                        Err(e) => {
                            let name = error_name(&e);
                            if name != "nothing_read" {
                                errors += 1;
                            }
                            Some(json!({"op": "ReadMessage", "res": name, "len": 0, "h": 0}))
                        }
                    },
                    // ---- the peer writes a frame itself (well-formed or not), between two frames of the sender
                    _ => {
                        if rig.tx.back_buf.available_data() != 0 || !rig.tx_expect.is_empty() {
                            return None;
                        }
                        let (len, decl, kind) = match rng.random_range(0..10u32) {
                            0..=2 => {
                                let l = pick_len(&mut rng, init, max, 1).min(max);
                                (l, l, "good")
                            }
                            3..=5 => {
                                let l = rng.random_range(D + 1..=(300.min(max)));
                                (l, l, "undec")
                            }
                            6..=7 => (D, rng.random_range(0..D), "short"),
                            _ => {
                                let l = max + rng.random_range(1..=64usize);
                                (l, l, "over")
                            }
                        };
                        let bytes = frame_bytes(next_id, len, decl, kind).ok()?;
                        let h = hash31(&bytes[D..]);
                        rig.wire.extend(bytes);
                        let id = next_id;
                        next_id += 1;
                        Some(json!({"op": "Inject", "id": id, "len": len, "decl": decl, "kind": kind, "h": h}))
                    }
                }
            }));
            match r {
                Ok(Some(e)) => ev = Some(e),
                Ok(None) => {}
                Err(p) => {
                    shim_disarm();
                    panics += 1;
                    poisoned = true;
                    ev = Some(json!({"op": "Panic", "message": vh::util::panic_message(p)}));
                }
            }
            if let Some(mut e) = ev {
                if !poisoned {
                    e["st"] = rig.project();
                    if e["st"]["rx"][2].as_u64() == Some(max as u64) || e["st"]["tx"][2].as_u64() == Some(max as u64) {
                        grown_max += 1;
                    }
                }
                if samples.len() < 6 && (e["op"] == "ReadMessage" && e["res"] != "nothing_read" && e["res"] != "ok" || e["op"] == "Writable" && e["chunks"].as_array().map(|a| a.len() > 1).unwrap_or(false)) {
                    samples.push(e.clone());
                }
                emit(e, &mut n_events);
            }
            if poisoned {
                break;
            }
        }
    }
    let _ = out.flush();
    vh::util::emit(&json!({
        "kind": "summary", "trace": out_path, "runs": runs, "events": n_events, "init": init, "max": max,
        "delivered": delivered, "receiver_errors": errors, "planned_partial_writes": partial_writes,
        "kernel_partial_writes": kernel_partial, "panics": panics, "steps_at_max_capacity": grown_max,
        "messages_over_half_max": huge, "samples": samples,
    }));
}
